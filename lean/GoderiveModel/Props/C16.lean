/-
Property C16: error-propagating helpers stop at, and return, the first error.

"Derived Compose, the error forms of Fmap and Join, Traverse and ToError evaluate their stages left
to right, each exactly once, passing results on unchanged; at the first stage that fails, no later
stage is called, exactly that error is returned and all non-error results are zero values of their
types, whatever those types are (nil slice for Traverse); ToError instead passes the other results of
f through and returns nil when f reports true and exactly the supplied error otherwise. With no
failure the result equals the hand-written sequential composition with a nil error."

Model: S/ErrChain.lean (the emitted straight-line chain / loop over logging stages; `zeroText` =
derive.Zero; `ZeroOk`). Specification: Spec/Funcs.lean ("first stage that fails"). Proofs:
Lemmas/Funcs.lean.

The BEHAVIOURAL theorems hold at full strength: for every number of stages, every failing position,
all stage functions, all argument values of any type `V`, all error values of any type `E`
(`compose_spec`, `traverse_spec`, `fmapE_spec`, `joinE_spec_partial/_fixed`, `bindE_spec_partial/_fixed`, `toerror_spec`, and the
corollaries in the wording of the property).

"Whatever those types are" is where the generator as it is falls short: the helper contains the TEXT
of a zero value per result, printed by `derive.Zero`, and that text is only well typed for unnamed
basic types and for types whose underlying type has `nil` (`zero_ok`); for named basic types, structs
and arrays it is `nil` and the helper does not compile (`zero_witnesses`); and compose joins the
result variables of a stage with commas, which is not a statement for a stage without non-error
results (`compose_lhs_witness`). The full statement
    ∀ cfg env outs, composeWf cfg env outs = true
is therefore false for `Cfg.current`; `compose_compiles_partial` carries exactly the side condition,
per model variant flag, and `compose_compiles_fixed` is the full statement for `Cfg.fixed`.
"Exactly once" for helpers that return a function: compose and toerror return a function literal
around the stages — building it evaluates nothing, and every INVOCATION runs each stage at most once
(`compose` / `toError` below are the meaning of one invocation; the check invokes twice and observes
the log before the first invocation). Fmap's error form with a multi-result `f` is different: it
returns a function that holds the already computed results (`fmapE_fn_spec`,
`fmapE_fn_evaluates_nothing`). Join, traverse and the other fmap forms return plain values: all calls
have happened when they return.
For Join the last stage is `f` itself and the emitted `return f()` hands on what `f` returned beside its
own error: against the property text that is a deviation (`joinE_passthrough_witness`); `joinE_spec_partial`
/ `bindE_spec_partial` carry the side condition on the last stage, `*_fixed` are the full statements.
Compose zeroes the results explicitly also when its last stage fails; traverse returns the nil slice;
fmap's `f` cannot fail; toerror is exempt by the property's own wording.
-/
import GoderiveModel.Lemmas.Funcs

namespace Goderive.C16
open Goderive Goderive.ErrChain Goderive.Spec

/-! ### a concrete world for the non-vacuity examples

```go
type NI int            // named 0
type St struct{ A int } // named 1
type NSl []int         // named 2
```
-/

def env : Env := { decls := [
  { under := .basic (.int 64 true) },
  { under := .struct (.fcons (.basic (.int 64 true)) .fnil) },
  { under := .slice (.basic (.int 64 true)) } ] }

def tInt : Ty := .basic (.int 64 true)

/-- stage `i` adds `10 * (i + 1)` to every argument and fails with error `i` iff `fail = some i` -/
def st (fail : Option Nat) (i : Nat) : Stage Nat Nat :=
  { run := fun a => (a.map (· + 10 * (i + 1)), if fail = some i then some i else none) }

def chain (fail : Option Nat) : List (Stage Nat Nat) := [st fail 0, st fail 1, st fail 2]

/-! ### Compose -/

/-- for every arity and every failing position: the emitted chain is the "first failing stage"
specification -/
theorem compose_spec {V E} (zeros : List V) (stages : List (Stage V E)) (args : List V) :
    compose zeros stages args = composeSpec zeros stages args :=
  compose_eq_spec zeros stages args

example : compose [0] (chain (some 1)) [1, 2] = { res := [0], err := some 1, log := [(0, [1, 2]), (1, [11, 12])] } := by decide
example : compose [0] (chain none) [1] = { res := [61], err := none, log := [(0, [1]), (1, [11]), (2, [31])] } := by decide

/-- no failure: the hand-written sequential composition, nil error, every stage called once in order
on the results of its predecessor -/
theorem compose_no_failure {V E} (zeros : List V) (stages : List (Stage V E)) (args : List V)
    (h : ∀ e ∈ errors stages args, e = none) :
    compose zeros stages args =
      { res := finalOut stages args, err := none, log := indexFrom 0 (inputs stages args) } :=
  compose_no_failure' zeros stages args h

example : ∀ e ∈ errors (chain none) [1], e = none := by decide

/-- stage `k` is the first to fail (with `e`): exactly `e` is returned, all results are the zero
values, stages `0..k` were called once each in order, no later stage was called -/
theorem compose_first_failure {V E} (zeros : List V) (stages : List (Stage V E)) (args : List V) (k : Nat) (e : E)
    (hk : (errors stages args)[k]? = some (some e))
    (hb : ∀ j, j < k → (errors stages args)[j]? = some none) :
    compose zeros stages args =
      { res := zeros, err := some e, log := indexFrom 0 ((inputs stages args).take (k + 1)) } :=
  compose_first_failure' zeros stages args k e hk hb

example : (errors (chain (some 2)) [1])[2]? = some (some 2) ∧ ∀ j, j < 2 → (errors (chain (some 2)) [1])[j]? = some none := by decide

/-- each stage at most once, left to right: the log is stage 0, 1, 2, … without gaps or repetition,
never longer than the chain -/
theorem compose_calls_in_order {V E} (zeros : List V) (stages : List (Stage V E)) (args : List V) :
    (compose zeros stages args).log.map Prod.fst = List.range (compose zeros stages args).log.length ∧
    (compose zeros stages args).log.length ≤ stages.length :=
  ⟨compose_log_order zeros stages args, compose_log_bound zeros stages args⟩

example : (compose [0] (chain (some 1)) [1]).log.map Prod.fst = [0, 1] := by decide

/-! ### Traverse, Fmap and Join (error forms), ToError -/

/-- elements are visited in order, once each, up to and including the first failure; nil slice and
that error on failure, `list.map f` otherwise — for lists of every length, failure at every index -/
theorem traverse_spec {V E} (f : V → V × Option E) (list : List V) :
    traverse f list = traverseSpec f list :=
  traverse_eq_spec f list

def fElem (x : Nat) : Nat × Option Nat := (x + 100, if x = 7 then some 7 else none)

example : traverse fElem [1, 2, 7, 3] = { out := none, err := some 7, log := [(0, [1]), (1, [2]), (2, [7])] } := by decide
example : traverse fElem [1, 2] = { out := some [101, 102], err := none, log := [(0, [1]), (1, [2])] } := by decide

theorem fmapE_spec {V E} (zeros : List V) (g : Stage V E) (f : List V → List V) :
    fmapE zeros g f = fmapESpec zeros g f :=
  fmapE_eq_spec zeros g f

example : fmapE [0] (st (some 0) 0) (fun a => a) = { res := [0], err := some 0, log := [(0, [])] } := by decide
example : fmapE [0] ⟨fun _ => ([5], (none : Option Nat))⟩ (fun a => a.map (· + 1)) = { res := [6], err := none, log := [(0, []), (1, [5])] } := by decide

/-- Fmap's error form for an `f` with two or more results returns a FUNCTION. "Each stage exactly once,
left to right" then means: by the time `deriveFmap` returns, `g` and then `f` have been called once
each (only `g`, with the nil function and its error, when `g` fails) … -/
theorem fmapE_fn_spec {V E} (g f : Stage V E) : fmapEFn g f = fmapEFnSpec g f :=
  fmapEFn_eq_spec g f

example : fmapEFn ⟨fun _ => ([5], (none : Option Nat))⟩ ⟨fun a => (a ++ a, none)⟩
    = { fn := some { vals := [5, 5], err := none, perCall := [] }, err := none, log := [(0, []), (1, [5])] } := by decide
example : fmapEFn (st (some 0) 0) (st none 1) = { fn := none, err := some 0, log := [(0, [])] } := by decide

/-- … and the returned function evaluates nothing: after 0, 1, 2, … invocations the call log is still
the one at the return of `deriveFmap`, and every invocation yields the same stored results. (A
returned function that calls `f` itself — lazily, once per invocation — has `perCall ≠ []` and is
excluded by this theorem; the check observes exactly this on the emitted code.) -/
theorem fmapE_fn_evaluates_nothing {V E} (g f : Stage V E) (t : Thunk V E) (h : (fmapEFn g f).fn = some t) :
    (∀ n, t.logAfter (fmapEFn g f).log n = (fmapEFn g f).log) ∧
    t.invoke = { res := (f.run (g.run []).1).1, err := (f.run (g.run []).1).2, log := [] } := by
  refine ⟨fmapEFn_logAfter g f t h, ?_⟩
  rw [fmapEFn_eq_spec] at h
  unfold fmapEFnSpec at h
  split at h
  · cases h
  · simp only [Option.some.injEq] at h
    rw [← h]; rfl

example : ∃ t, (fmapEFn ⟨fun _ => ([5], (none : Option Nat))⟩ ⟨fun a => (a ++ a, none)⟩).fn = some t := ⟨_, rfl⟩

/-- `fn, e := deriveFmap(f, g); deriveJoin(fn, e)` is the nested `deriveJoin(deriveFmap(f, g))` with every
call made before join runs: join itself calls no stage (and never calls a nil function) -/
theorem join_of_fmap_fn {V E} (zeros : List V) (g f : Stage V E) :
    ∃ r, joinFn zeros (fmapEFn g f).fn (fmapEFn g f).err = some r ∧ r.log = [] ∧
      bindE zeros g f = { res := r.res, err := r.err, log := (fmapEFn g f).log } :=
  joinFn_fmapEFn zeros g f

example : joinFn [0] (fmapEFn (st (some 0) 0) (st none 1)).fn (fmapEFn (st (some 0) 0) (st none 1)).err
    = some { res := [0], err := some 0, log := [] } := by decide

/-- Join against the property text ("at the first stage that fails … all non-error results are zero
values"): the emitted `return f()` hands on whatever `f` returned beside its own error, so the statement
needs a side condition on the LAST stage — it succeeds, or returns zero values with its error — that
disappears with `passFixed` -/
theorem joinE_spec_partial {V E} (pass : Bool) (zeros : List V) (f : Stage V E) (err : Option E)
    (h : pass = true ∨ (f.run []).2 = none ∨ (f.run []).1 = zeros) :
    joinEC pass zeros f err = joinESpec zeros f err :=
  joinEC_eq_spec pass zeros f err h

example : joinEC false [0] ⟨fun _ => ([5], (none : Option Nat))⟩ (some 3) = { res := [0], err := some 3, log := [] } := by decide
example : joinEC false [0] ⟨fun _ => ([5], (none : Option Nat))⟩ none = { res := [5], err := none, log := [(1, [])] } := by decide

theorem joinE_spec_fixed {V E} (zeros : List V) (f : Stage V E) (err : Option E) :
    joinEC true zeros f err = joinESpec zeros f err :=
  joinEC_eq_spec true zeros f err (Or.inl rfl)

example : joinEC true [0] ⟨fun _ => ([5], some 9)⟩ (none : Option Nat) = { res := [0], err := some 9, log := [(1, [])] } := by decide

/-- the code as it is: `f` fails and returns 5 beside its error — join returns 5, the property says 0 -/
theorem joinE_passthrough_witness :
    joinEC false [0] ⟨fun _ => ([5], some 9)⟩ (none : Option Nat) = { res := [5], err := some 9, log := [(1, [])] } ∧
    joinESpec [0] ⟨fun _ => ([5], some 9)⟩ (none : Option Nat) = { res := [0], err := some 9, log := [(1, [])] } := by decide

/-- `deriveJoin(deriveFmap(f, g))`: the same side condition on `f` -/
theorem bindE_spec_partial {V E} (pass : Bool) (zeros : List V) (g f : Stage V E)
    (h : pass = true ∨ (f.run (g.run []).1).2 = none ∨ (f.run (g.run []).1).1 = zeros) :
    bindEC pass zeros g f = bindESpec zeros g f :=
  bindEC_eq_spec pass zeros g f h

example : bindEC false [0] ⟨fun _ => ([5], (none : Option Nat))⟩ ⟨fun a => (a.map (· + 1), none)⟩
    = { res := [6], err := none, log := [(0, []), (1, [5])] } := by decide

theorem bindE_spec_fixed {V E} (zeros : List V) (g f : Stage V E) :
    bindEC true zeros g f = bindESpec zeros g f :=
  bindEC_eq_spec true zeros g f (Or.inl rfl)

example : bindEC true [0] ⟨fun _ => ([5], (none : Option Nat))⟩ ⟨fun a => (a.map (· + 1), some 9)⟩
    = { res := [0], err := some 9, log := [(0, []), (1, [5])] } := by decide
example : bindEC false [0] ⟨fun _ => ([5], (none : Option Nat))⟩ ⟨fun a => (a.map (· + 1), some 9)⟩
    = { res := [6], err := some 9, log := [(0, []), (1, [5])] } := by decide

/-- `f` once; the other results unchanged; nil iff `f` reports true, otherwise exactly the supplied error -/
theorem toerror_spec {V E} (err : E) (f : List V → List V × Bool) (args : List V) :
    toError err f args = toErrorSpec err f args :=
  toError_eq_spec err f args

example : toError 4 (fun a => (a, false)) [1, 2] = { res := [1, 2], err := some 4, log := [(0, [1, 2])] } := by decide
example : toError 4 (fun a => (a, true)) [1, 2] = { res := [1, 2], err := (none : Option Nat), log := [(0, [1, 2])] } := by decide

/-- no state between calls: what one invocation of the derived function returns depends only on what `f`
returns in THAT invocation (its other results and whether it reports true) and on the supplied error -/
theorem toerror_stateless {V E} (err : E) (f f' : List V → List V × Bool) (args args' : List V)
    (h : f args = f' args') :
    (toError err f args).res = (toError err f' args').res ∧ (toError err f args).err = (toError err f' args').err := by
  simp only [toError, h]
  cases f' args' with
  | mk outs ok => cases ok <;> exact ⟨rfl, rfl⟩

/-- a sequence of invocations of one derived function value (f behaving as `fs[i]` in call `i`) is the
sequence of the single-call specifications, in every order of successes and failures -/
theorem toerror_sequence {V E} (err : E) (fs : List (List V → List V × Bool)) (args : List V) :
    fs.map (fun f => toError err f args) = fs.map (fun f => toErrorSpec err f args) := by
  simp only [toError_eq_spec]

example : [fun a => (a, true), fun a => (a, false), fun a => (a, true)].map (fun f => (toError 4 f [1]).err)
    = [none, some 4, (none : Option Nat)] := by decide

/-- the toerror wrapper has the naming structure of the C15 wrappers: it compiles when every
parameter of `f` has a name that is none of the helper's own `f`, `err`, `success`, `out<i>` -/
theorem toerror_compiles_partial (cfg : Plumb.Cfg) (ps : List Plumb.Param)
    (hv : Plumb.ValidSig ps) (hs : Plumb.Side cfg [Plumb.fName, Plumb.errName] ps)
    (hloc : ∀ n ∈ Plumb.names (toErrorParams cfg ps), n ≠ successName ∧ outPrefix.isPrefixOf n = false) :
    toErrorWf cfg ps = true :=
  toErrorWf_of cfg ps
    (Plumb.effParams_namesOk cfg (by simp [Plumb.paramPrefix]) (by simp [Plumb.fName, Plumb.errName, Plumb.paramPrefix]) Plumb.avoidOk_f_err ps hv hs) hloc

example : toErrorWf {} [⟨['a'], 0⟩, ⟨['_'], 1⟩] = true :=
  toerror_compiles_partial {} [⟨['a'], 0⟩, ⟨['_'], 1⟩] (by decide) ⟨Or.inr (by decide), Or.inr (by decide)⟩ (by decide)

/-- today: unnamed parameters, and a parameter called `err` (it would be returned in place of the
supplied error) or `f` -/
theorem toerror_witnesses :
    toErrorWf {} [⟨[], 0⟩] = false ∧ toErrorWf {} [⟨Plumb.errName, 0⟩] = false ∧ toErrorWf {} [⟨['f'], 0⟩] = false ∧
    toErrorWf Plumb.Cfg.fixed [⟨[], 0⟩] = true ∧ toErrorWf Plumb.Cfg.fixed [⟨Plumb.errName, 0⟩] = true := by decide

/-! ### which types count as `error` (`derive.IsError` / `derive.ImplementsError`) -/

/-- whatever the generator accepts, at any position, is served by a helper that compiles — under the
side condition of the model variant: result types are checked for identity with `error`
(`errTypeFixed`), and values are not accepted on the strength of a pointer-receiver method
(`errRecvFixed`; for join's argument `typedNilFixed` does it as well) -/
theorem isError_sound_partial (cfg : Cfg) (pos : ErrPos) (t : ErrTy) (h : isError cfg pos t = true)
    (hr : pos = .result → cfg.errTypeFixed = true ∨ t = .builtin)
    (hj : pos = .joinArg → cfg.typedNilFixed = true ∨ t ≠ .namedPtrRecv)
    (ht : pos = .toErrorArg → cfg.errRecvFixed = true ∨ t ≠ .namedPtrRecv) :
    compilesAt pos t = true := by
  obtain ⟨z, l, e, r, n, lf⟩ := cfg
  cases e <;> cases r <;> cases n <;> cases pos <;> cases t <;>
    first
    | rfl
    | (exfalso; revert h; simp [isError, isErrorScan, implementsError]; done)
    | (have := hr rfl; simp at this; done)
    | (have := hj rfl; simp at this; done)
    | (have := ht rfl; simp at this; done)

example : isError {} .toErrorArg .namedNilable = true ∧ compilesAt .toErrorArg .namedNilable = true := by decide

/-- with the three repairs the generator serves exactly what it should, at every position, for every type -/
theorem isError_fixed (cfg : Cfg) (h1 : cfg.errTypeFixed = true) (h2 : cfg.errRecvFixed = true)
    (h3 : cfg.typedNilFixed = true) (pos : ErrPos) (t : ErrTy) :
    isError cfg pos t = shouldAccept pos t ∧ (isError cfg pos t = true → compilesAt pos t = true) := by
  obtain ⟨z, l, e, r, n, lf⟩ := cfg
  subst h1 h2 h3
  cases pos <;> cases t <;> simp [isError, shouldAccept, compilesAt, implementsError]

example : isError Cfg.fixed .toErrorArg .pointerToNamed = true ∧ isError Cfg.fixed .result .namedNilable = false := by decide

/-- before the repairs: a pointer-receiver type was accepted by value; a custom error type in RESULT
position was accepted although the helper's parameter says `error`; `*E` was refused by toerror; and a
nil custom error handed to join arrived as a non-nil `error` (`f` not called, zero values and a
non-nil error come back, where the specification runs `f`) -/
theorem isError_witnesses :
    isError {} .toErrorArg .namedPtrRecv = true ∧ compilesAt .toErrorArg .namedPtrRecv = false ∧
    isError {} .result .namedNilable = true ∧ compilesAt .result .namedNilable = false ∧
    isError {} .result .namedStruct = true ∧ compilesAt .result .namedStruct = false ∧
    isError {} .toErrorArg .pointerToNamed = false ∧ shouldAccept .toErrorArg .pointerToNamed = true ∧
    isError {} .joinArg .namedNilable = true ∧ shouldAccept .joinArg .namedNilable = false ∧
    isError {} .toErrorArg .nearMiss = false ∧
    joinE [0] ⟨fun _ => ([5], (none : Option Nat))⟩ (some 999) ≠ joinESpec [0] ⟨fun _ => ([5], none)⟩ none := by decide

/-- toerror hands back exactly the supplied error value, also when that value is a typed nil -/
example : toError 999 (fun a => (a, false)) [1] = { res := [1], err := some 999, log := [(0, [1])] } := by decide

/-! ### zero values -/

/-- `derive.Zero` is right for unnamed basic types and for every type whose underlying type is a
pointer, slice, map, channel, function or interface -/
theorem zero_ok (env : Env) (T : Ty) (h : ZeroSupported env T) : ZeroOk env T (zeroText T) :=
  zero_ok_of_supported env T h

example : ZeroSupported env (.named 2) ∧ ZeroSupported env tInt ∧ ZeroSupported env (.ptr (.named 1)) := by decide

/-- it is wrong (`nil`) for named basic types, structs (named or not) and arrays -/
theorem zero_witnesses :
    ¬ ZeroOk env (.named 0) (zeroText (.named 0)) ∧
    ¬ ZeroOk env (.named 1) (zeroText (.named 1)) ∧
    ¬ ZeroOk env (.struct (.fcons tInt .fnil)) (zeroText (.struct (.fcons tInt .fnil))) ∧
    ¬ ZeroOk env (.array 2 tInt) (zeroText (.array 2 tInt)) ∧
    ZeroOk env (.named 0) .zero ∧ ZeroOk env (.named 1) .composite := by decide

/-- a repaired `Zero` (chosen by the underlying type) is right for every type -/
theorem zero_ok_repaired (env : Env) (T : Ty)
    (h : properTy (env.under T) = true) :
    ZeroOk env T (fixedZero env T) :=
  zero_ok_fixed env T h

example : ZeroOk env (.named 1) (fixedZero env (.named 1)) := zero_ok_repaired env (.named 1) (by decide)

/-- Compose compiles under exactly this side condition: every stage has a non-error result unless
`lhsFixed`, and every result type of the last stage is one `derive.Zero` supports unless `zeroFixed` -/
theorem compose_compiles_partial (cfg : Cfg) (env : Env) (outs : List (List Ty))
    (hl : cfg.lhsFixed = true ∨ ∀ o ∈ outs, o ≠ [])
    (hz : ∀ T ∈ outs.getLast?.getD [],
      (cfg.zeroFixed = true ∧ properTy (env.under T) = true) ∨
      (cfg.zeroFixed = false ∧ ZeroSupported env T)) :
    composeWf cfg env outs = true :=
  composeWf_of cfg env outs hl fun T hT => zeroOk_zeroTextC cfg env T (hz T hT)

example : composeWf {} env [[.named 0], [tInt, .named 2]] = true :=
  compose_compiles_partial {} env _ (Or.inr (by decide)) (by decide)

/-- with both defects repaired Compose compiles for all chains over proper types -/
theorem compose_compiles_fixed (cfg : Cfg) (hz : cfg.zeroFixed = true) (hl : cfg.lhsFixed = true)
    (env : Env) (outs : List (List Ty))
    (hty : ∀ T ∈ outs.getLast?.getD [], properTy (env.under T) = true) :
    composeWf cfg env outs = true :=
  compose_compiles_partial cfg env outs (Or.inl hl) fun T hT => Or.inl ⟨hz, hty T hT⟩

example : composeWf Cfg.fixed env [[], [.named 1, .named 0]] = true :=
  compose_compiles_fixed Cfg.fixed rfl rfl env _ (by decide)

/-- today: a stage without non-error results (`, err0 := f0(…)`) and a struct / named basic final
result (`return nil, err0`) -/
theorem compose_lhs_witness :
    composeWf {} env [[], [tInt]] = false ∧ composeWf {} env [[tInt], []] = false ∧
    composeWf {} env [[tInt], [.named 1]] = false ∧ composeWf {} env [[tInt], [.named 0]] = false ∧
    composeWf {} env [[.named 1], [tInt]] = true := by decide

/-- the error forms of fmap (one result) and join print the same zeros -/
theorem fmap_join_zero_witness :
    fmapWf {} env [.named 1] = false ∧ fmapWf {} env [.named 1, .named 0] = true ∧ fmapWf {} env [] = true ∧
    joinWf {} env [tInt, .named 0] = false ∧ joinWf {} env [tInt, .named 2] = true ∧
    fmapWf Cfg.fixed env [.named 1] = true ∧ joinWf Cfg.fixed env [tInt, .named 0] = true := by decide

end Goderive.C16
