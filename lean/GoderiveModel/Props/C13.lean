/-
Property C13: ordering helpers.

"Derived Sort returns a permutation of its input that is non-decreasing under derived Compare
(natural < for basic types); derived Keys returns every key of the map exactly once. Derived Min and
Max over a list return an element of the list that no other element precedes (respectively follows)
under derived Compare, or the default for an empty list, and the two-value forms return one of their
arguments accordingly."

Model: S/Lists.lean. `sort.Slice / sort.Ints / sort.Strings / sort.Float64s` are the `sorter`
parameter with the contract `Spec.SorterOK` (permutation; sorted when `less` is a strict weak order on
the elements); insertion sort and core's merge sort are proved to satisfy it, so the contract is not
vacuous. Go map iteration is the permutation parameter `π`. Facts about derived Compare that belong
to C03 are explicit hypotheses: `cmp a b = .ok (c a b)` (no panic, verdict `c`) and
`Spec.StrictOrderOn (fun a b => c a b < 0)` (C03: antisymmetry, transitivity, consistency with Equal).
Only theorems and their non-vacuity examples live here; proofs are in Lemmas/Lists.lean.
-/
import GoderiveModel.Lemmas.Lists

set_option linter.unusedSimpArgs false

namespace Goderive.C13
open Goderive Goderive.Lists

/-! ### concrete data for the non-vacuity examples -/

def i (n : Int) : Val := .int n
def ltInt : Val → Val → Bool
  | .int a, .int b => decide (a < b)
  | _, _ => false
def cmpI : Val → Val → Int
  | .int a, .int b => cmpInt a b
  | _, _ => 0

private theorem ltInt_order (xs : List Val) (h : ∀ x ∈ xs, ∃ n, x = .int n) : Spec.StrictOrderOn ltInt xs := by
  refine ⟨?_, ?_, ?_⟩
  · intro a ha b hb; obtain ⟨n, rfl⟩ := h a ha; obtain ⟨m, rfl⟩ := h b hb
    simp only [ltInt, decide_eq_true_eq, decide_eq_false_iff_not]; omega
  · intro a ha b hb c hc; obtain ⟨n, rfl⟩ := h a ha; obtain ⟨m, rfl⟩ := h b hb; obtain ⟨k, rfl⟩ := h c hc
    simp only [ltInt, decide_eq_true_eq]; omega
  · intro a ha b hb c hc; obtain ⟨n, rfl⟩ := h a ha; obtain ⟨m, rfl⟩ := h b hb; obtain ⟨k, rfl⟩ := h c hc
    simp only [ltInt, decide_eq_false_iff_not]; omega

private theorem goLt_ints (xs : List Val) (h : ∀ x ∈ xs, ∃ n, x = .int n) :
    ∀ a ∈ xs, ∀ b ∈ xs, goLt a b = .ok (ltInt a b) := by
  intro a ha b hb; obtain ⟨n, rfl⟩ := h a ha; obtain ⟨m, rfl⟩ := h b hb; rfl

/-! ### 1. Sort -/

/-- **C13, Sort (any `less` the plugin emits: `<` on basic types or `deriveCompare(…) < 0`).**
Through any sorter that satisfies the contract, the emitted function returns — without panicking — a
permutation of its input in which no later element strictly precedes an earlier one. -/
theorem sort_spec (sorter : (Val → Val → Bool) → List Val → List Val) (hs : Spec.SorterOK sorter)
    (less : Val → Val → Res Bool) (l : Val → Val → Bool) (xs : List Val)
    (hless : ∀ a ∈ xs, ∀ b ∈ xs, less a b = .ok (l a b))
    (hord : Spec.StrictOrderOn l xs) :
    ∃ out, sort sorter less (some xs) = .ok (some out) ∧ out.Perm xs ∧ Spec.SortedLt l out :=
  Lists.sort_spec sorter hs less l xs hless hord

example : ∃ out, sort insertionSort goLt (some [i 3, i 1, i 2, i 1]) = .ok (some out) ∧
    out.Perm [i 3, i 1, i 2, i 1] ∧ Spec.SortedLt ltInt out :=
  sort_spec insertionSort insertionSort_ok goLt ltInt _ (goLt_ints _ (by simp [i]))
    (ltInt_order _ (by simp [i]))
example : sort insertionSort goLt (some [i 3, i 1, i 2, i 1]) = .ok (some [i 1, i 1, i 2, i 3]) := by decide

/-- **C13, Sort under derived Compare**, in the property's words: non-decreasing under the three-way
comparison `c` (`c later earlier ≥ 0`). -/
theorem sort_spec_compare (sorter : (Val → Val → Bool) → List Val → List Val) (hs : Spec.SorterOK sorter)
    (cmp : Val → Val → Res Int) (c : Val → Val → Int) (xs : List Val)
    (hcmp : ∀ a ∈ xs, ∀ b ∈ xs, cmp a b = .ok (c a b))
    (hord : Spec.StrictOrderOn (fun a b => decide (c a b < 0)) xs) :
    ∃ out, sort sorter (fun a b => cmpNeg (cmp a b)) (some xs) = .ok (some out) ∧ out.Perm xs ∧
      Spec.SortedBy c out := by
  obtain ⟨out, h1, h2, h3⟩ := Lists.sort_spec sorter hs (fun a b => cmpNeg (cmp a b))
    (fun a b => decide (c a b < 0)) xs (fun a ha b hb => by simp [hcmp a ha b hb, cmpNeg]) hord
  refine ⟨out, h1, h2, ?_⟩
  unfold Spec.SortedBy
  unfold Spec.SortedLt at h3
  refine h3.imp ?_
  intro a b hab
  simp only [decide_eq_false_iff_not] at hab
  omega

example : ∃ out, sort mergeSorter (fun a b => cmpNeg (.ok (cmpI a b))) (some [i 2, i 1]) = .ok (some out) ∧
    out.Perm [i 2, i 1] ∧ Spec.SortedBy cmpI out := by
  apply sort_spec_compare mergeSorter mergeSorter_ok (fun a b => .ok (cmpI a b)) cmpI _ (fun _ _ _ _ => rfl)
  have h := ltInt_order [i 2, i 1] (by simp [i])
  refine ⟨?_, ?_, ?_⟩ <;> decide

/-- a nil list stays nil -/
theorem sort_nil (sorter : (Val → Val → Bool) → List Val → List Val) (less : Val → Val → Res Bool) :
    sort sorter less none = .ok none := rfl

example : sort insertionSort goLt none = .ok none := sort_nil _ _

/-- the `sorter` contract is satisfiable: insertion sort (the instance the correspondence runs) … -/
theorem insertionSort_contract : Spec.SorterOK insertionSort := insertionSort_ok

example : (insertionSort ltInt [i 2, i 1]).Perm [i 2, i 1] := insertionSort_contract.perm _ _

/-- … and core's merge sort -/
theorem mergeSort_contract : Spec.SorterOK mergeSorter := mergeSorter_ok

example : Spec.SortedLt ltInt (mergeSorter ltInt [i 2, i 1, i 3]) :=
  mergeSort_contract.sorted _ _ (ltInt_order _ (by simp [i]))

/-- **C13, "natural < for basic types".** On the basic types that have `<`, the natural order the
emitted code uses is the order of derived Compare (`cmpLeaf` is what `Compare.top` computes on a
basic type), so "non-decreasing under derived Compare" and "under <" are the same statement there. -/
theorem natural_lt_is_compare :
    (∀ a b : Int, goLt (.int a) (.int b) = cmpNeg (cmpLeaf (.int a) (.int b))) ∧
    (∀ (w w' a b : Nat), goLt (.flt w a) (.flt w' b) = cmpNeg (cmpLeaf (.flt w a) (.flt w' b))) ∧
    (∀ a b : List Nat, goLt (.str a) (.str b) = cmpNeg (cmpLeaf (.str a) (.str b))) := by
  refine ⟨?_, ?_, ?_⟩
  · intro a b
    simp only [goLt, cmpLeaf, cmpNeg, cmpInt]
    by_cases h1 : a = b
    · subst h1; simp
    · by_cases h2 : a < b
      · simp [h1, h2]
      · simp [h1, h2]
  · intro w w' a b
    simp only [goLt, cmpLeaf, cmpNeg, cmpFlt]
    cases hlt : fltLt w a b with
    | false => cases fltEq w a b <;> simp
    | true =>
      have : fltEq w a b = false := by
        simp only [fltLt, fltEq, Bool.and_eq_true, Bool.not_eq_true', decide_eq_true_eq] at hlt ⊢
        simp only [hlt.1.1, hlt.1.2, Bool.not_false, Bool.true_and]
        simp; omega
      simp [this]
  · intro a b; rfl

example : goLt (i 1) (i 2) = cmpNeg (cmpLeaf (i 1) (i 2)) := natural_lt_is_compare.1 1 2

/-- how min and max pick the comparison (plugin/min, plugin/max `isOrdered`) -/
theorem minLt_dispatch (env : Env) (E : Ty) :
    (isOrderedBasic E = true → minLt env E = goLt ∧ maxGt env E = fun a b => goLt b a) ∧
    (isOrderedBasic E = false → minLt env E = (fun a b => cmpNeg (Compare.top env E a b)) ∧
      maxGt env E = fun a b => cmpPos (Compare.top env E a b)) := by
  constructor <;> intro h <;> simp [minLt, maxGt, h]

example : minLt { decls := [] } (.basic .bool) = fun a b => cmpNeg (Compare.top { decls := [] } (.basic .bool) a b) :=
  ((minLt_dispatch { decls := [] } (.basic .bool)).2 rfl).1

/-! ### 2. Keys -/

/-- **C13, Keys.** Whatever order the map is iterated in, the result is a permutation of the map's
keys: every key exactly once (a well-typed map value has pairwise distinct keys). A nil map gives an
empty, non-nil slice. -/
theorem keys_spec (π : List Val → List Val) (hπ : ∀ l, (π l).Perm l) (a : Nat) (es : Val) :
    ∃ out, keys π (.map a es) = .ok (some out) ∧ out.Perm (mapKeys es) ∧
      (∀ k, out.count k = (mapKeys es).count k) ∧
      ((mapKeys es).Nodup → out.Nodup) := by
  refine ⟨π (mapKeys es), rfl, hπ _, fun k => (hπ _).count_eq k, fun h => (hπ _).nodup_iff.mpr h⟩

def m12 : Val := .map 7 (.scons (.pair (i 1) (i 10)) (.scons (.pair (i 2) (i 20)) .snil))

example : ∃ out, keys List.reverse m12 = .ok (some out) ∧ out.Perm [i 1, i 2] := by
  obtain ⟨out, h1, h2, _⟩ := keys_spec List.reverse List.reverse_perm 7
    (.scons (.pair (i 1) (i 10)) (.scons (.pair (i 2) (i 20)) .snil))
  exact ⟨out, h1, h2⟩

theorem keys_nil (π : List Val → List Val) : keys π .nilv = .ok (some []) := rfl

example : keys id .nilv = .ok (some []) := keys_nil _

/-! ### 3. Min and Max -/

/-- **C13, Min over a non-empty list** (`lt` is `v < m` or `deriveCompare(v, m) < 0`): the result is
an element of the list that no element strictly precedes. Max is the same loop with `>`:
instantiate `lt`/`l` with "follows". -/
theorem min_spec (lt : Val → Val → Res Bool) (l : Val → Val → Bool) (xs : List Val) (dflt : Val)
    (hne : xs ≠ [])
    (hlt : ∀ a ∈ xs, ∀ b ∈ xs, lt a b = .ok (l a b))
    (hirr : ∀ a ∈ xs, l a a = false)
    (htr : ∀ a ∈ xs, ∀ b ∈ xs, ∀ c ∈ xs, l a b = true → l b c = true → l a c = true) :
    ∃ m, minList lt (some xs) dflt = .ok m ∧ Spec.IsMinOf l xs m := by
  cases xs with
  | nil => exact absurd rfl hne
  | cons x r =>
    obtain ⟨m, h1, h2, h3⟩ := minLoop_spec lt l (x :: r) hlt hirr htr r x [x] (by simp)
      (by intro y hy; have : y = x := by simpa using hy
          subst this; exact hirr y (by simp))
      (by intro y hy; have : y = x := by simpa using hy
          subst this; simp) (fun y hy => by simp [hy])
    exact ⟨m, h1, by simpa using h2, by simpa using h3⟩

example : ∃ m, minList goLt (some [i 3, i 1, i 2]) (i 9) = .ok m ∧ Spec.IsMinOf ltInt [i 3, i 1, i 2] m := by
  have ho := ltInt_order [i 3, i 1, i 2] (by simp [i])
  exact min_spec goLt ltInt _ _ (by simp) (goLt_ints _ (by simp [i])) (by decide) ho.trans
example : minList goLt (some [i 3, i 1, i 2]) (i 9) = .ok (i 1) := by decide

/-- **C13, Max over a non-empty list**: `maxGt`-style comparison `gt` with verdict `g` ("follows");
the result is an element of the list that no element strictly follows. -/
theorem max_spec (gt : Val → Val → Res Bool) (g : Val → Val → Bool) (xs : List Val) (dflt : Val)
    (hne : xs ≠ [])
    (hgt : ∀ a ∈ xs, ∀ b ∈ xs, gt a b = .ok (g a b))
    (hirr : ∀ a ∈ xs, g a a = false)
    (htr : ∀ a ∈ xs, ∀ b ∈ xs, ∀ c ∈ xs, g a b = true → g b c = true → g a c = true) :
    ∃ m, minList gt (some xs) dflt = .ok m ∧ m ∈ xs ∧ ∀ y ∈ xs, g y m = false :=
  min_spec gt g xs dflt hne hgt hirr htr

example : minList (fun a b => goLt b a) (some [i 3, i 1, i 5, i 2]) (i 9) = .ok (i 5) := by decide

/-- **C13, Min / Max of an empty or nil list**: the default. -/
theorem min_empty (lt : Val → Val → Res Bool) (dflt : Val) :
    minList lt none dflt = .ok dflt ∧ minList lt (some []) dflt = .ok dflt := ⟨rfl, rfl⟩

example : minList goLt (some []) (i 9) = .ok (i 9) := (min_empty _ _).2

/-- **C13, two-value Min** (`if a < b { return a }; return b`): the result is one of the two arguments
and the other argument does not strictly precede it. Two-value Max is the same function with
"follows" (`maxGt`): instantiate `lt` / `l` accordingly. -/
theorem min2_spec (lt : Val → Val → Res Bool) (l : Val → Val → Bool) (a b : Val)
    (hab : lt a b = .ok (l a b)) (hasym : l a b = true → l b a = false) :
    (min2 lt a b = .ok a ∧ l b a = false) ∨ (min2 lt a b = .ok b ∧ l a b = false) := by
  cases h : l a b with
  | true => exact Or.inl ⟨by simp [min2, hab, h], hasym h⟩
  | false => exact Or.inr ⟨by simp [min2, hab, h], rfl⟩

example : min2 goLt (i 1) (i 2) = .ok (i 1) ∧ ltInt (i 2) (i 1) = false := by
  rcases min2_spec goLt ltInt (i 1) (i 2) rfl (by decide) with h | h
  · exact h
  · exact absurd h.2 (by decide)
example : min2 goLt (i 2) (i 2) = .ok (i 2) := by decide

/-- two-value Max, spelled out -/
theorem max2_spec (gt : Val → Val → Res Bool) (g : Val → Val → Bool) (a b : Val)
    (hab : gt a b = .ok (g a b)) (hasym : g a b = true → g b a = false) :
    (min2 gt a b = .ok a ∧ g b a = false) ∨ (min2 gt a b = .ok b ∧ g a b = false) :=
  min2_spec gt g a b hab hasym

example : min2 (fun a b => goLt b a) (i 1) (i 2) = .ok (i 2) := by decide

end Goderive.C13
