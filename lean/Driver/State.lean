/-
Shared driver state and printing helpers.
-/
import GoderiveModel.U.Wire
import GoderiveModel.U.Typing
import GoderiveModel.S.Methods

open Goderive

structure DState where
  decls : Array Decl := #[]
  tys : List (String × Ty) := []
  deriving Inhabited

def DState.env (s : DState) : Env := { decls := s.decls.toList }

/-- recompute the `canEq` / `canEqM` flags as fixpoints (never trusted from the wire) -/
def fixFlags (ds : Array Decl) : Array Decl := Id.run do
  let mut cur := ds.map fun d => { d with canEq := true, canEqM := d.eqM.isNone }
  for _ in [0:ds.size + 1] do
    let env : Env := { decls := cur.toList }
    cur := cur.map fun d => { d with canEq := canEqual env d.under,
                                     canEqM := d.eqM.isNone && canEqualM env d.under }
  return cur

/-- names occurring syntactically in a type -/
def tyNames : Ty → List Nat
  | .named i => [i]
  | .ptr t => tyNames t
  | .slice t => tyNames t
  | .array _ t => tyNames t
  | .chan t => tyNames t
  | .map k v => tyNames k ++ tyNames v
  | .struct fs => tyNames fs
  | .fcons t r => tyNames t ++ tyNames r
  | _ => []

/-- declarations reachable from a type (closure over the declarations' underlying types) -/
def reachableDecls (env : Env) (T : Ty) : List Nat := Id.run do
  let mut seen : List Nat := []
  let mut todo := tyNames T
  for _ in [0:env.decls.length * 4 + 8] do
    match todo with
    | [] => break
    | i :: rest =>
      todo := rest
      if !seen.contains i then
        seen := i :: seen
        match env.decl? i with
        | some d => todo := tyNames d.under ++ todo
        | none => pure ()
  return seen

/-- a declaration with a user method is reachable from the type -/
def mentionsMethods (env : Env) (T : Ty) : Bool :=
  (reachableDecls env T).any fun i => match env.decl? i with
    | some d => d.eqM.isSome || d.cmpM.isSome || d.hashM.isSome
    | none => false

def showRes (r : Res Bool) : String :=
  match r with
  | .ok true => "true"
  | .ok false => "false"
  | .panic => "panic"

def showResI (r : Res Int) : String :=
  match r with
  | .ok n => toString n
  | .panic => "panic"

def showResU (r : Res UInt64) : String :=
  match r with
  | .ok n => toString n
  | .panic => "panic"

def lookupTy (s : DState) (e : SExp) : Option Ty :=
  match e with
  | .atom a => match s.tys.lookup a with
    | some t => some t
    | none => parseTy e
  | _ => parseTy e

