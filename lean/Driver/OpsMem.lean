/-
Driver ops of the "Mem" family (C18). `run` returns `none` for op names it does not own.

  op <id> memseq G<k> (<a0> <a1> …) (<a0> <a1> …) …   one argument tuple per call of `m := deriveMem(f)`
  op <id> memraw G<k> …                                same with an `f` that tells +0 from -0

`ty G<k> (st P0 P1 …)` binds the parameter list, `ty G<k>r (st R0 R1 …)` the result list.
Answer: `model=<answers>|<log> spec=<answers of f itself>|<class id per call> shape=… coll=…`
(`memraw`: `direct=<answers of f itself>` instead of `spec=`) where
<answers> = `(r0_r1…);(…)…` in identity-erased wire form, <log> = `<i>:(args)` for every call `i`
that reached `f`, the class id of a call is the index of the first call with structurally equal
arguments, `coll` counts the calls whose hash bucket held an entry that was not Equal.

The instrumented `f` of the corpus (harness/rt/mem.go, cmd/genmem) is mirrored by `fOf`.
-/
import GoderiveModel.U.Wire
import GoderiveModel.U.Typing
import GoderiveModel.S.Equal
import GoderiveModel.S.Hash
import GoderiveModel.S.Mem
import GoderiveModel.Spec.Mem
import GoderiveModel.Spec.StructEq
import Driver.State

open Goderive

namespace OpsMem

/-- mirror of `memDigest` (harness/rt/mem.go); the flag selects the commutative fold used for map
entries -/
def digestM (raw : Bool) : Bool → Val → UInt64
  | _, .bool b => if b then 2 else 1
  | _, .int n => 3 + 5 * toU64 n
  | _, .flt w b => 7 + 11 * UInt64.ofNat (if raw then b else normBits w b)
  | _, .cplx w a b =>
    13 + 17 * UInt64.ofNat (if raw then a else normBits w a)
       + 19 * UInt64.ofNat (if raw then b else normBits w b)
  | _, .str bs => bs.foldl (fun h c => 131 * h + UInt64.ofNat c + 1) 23
  | _, .nilv => 29
  | _, .ptr _ v => 31 + 37 * digestM raw false v
  | _, .slice _ _ es => 41 + 43 * digestM raw false es
  | _, .arr es => 47 + 53 * digestM raw false es
  | _, .struct es => 59 + 61 * digestM raw false es
  | _, .map _ es => 67 + 71 * digestM raw true es
  | _, .pair k v => 73 + 79 * digestM raw false k + 83 * digestM raw false v
  | false, .snil => 89
  | true, .snil => 0
  | false, .scons h t => 97 * digestM raw false t + digestM raw false h + 101
  | true, .scons h t => digestM raw false h + digestM raw true t

def argsDigest (raw : Bool) (args : List Val) : UInt64 :=
  args.foldl (fun h a => 31 * h + digestM raw false a) 12

def tyFields : Ty → List Ty
  | .fcons t r => t :: tyFields r
  | _ => []

def strBytes (s : String) : List Nat := s.toUTF8.toList.map (·.toNat)

/-- mirror of `resExpr` (harness/cmd/genmem): result `j` of the instrumented `f` at type `T` -/
partial def mkRes (env : Env) (T : Ty) (d : UInt64) (j : Nat) : Val :=
  let dj := d + UInt64.ofNat j
  match env.under T with
  | .basic (.int _ _) => .int (Int.ofNat ((d + 7919 * UInt64.ofNat j) % 1000).toNat)
  | .basic .string => .str (strBytes ("r" ++ toString (dj % 97).toNat))
  | .basic .bool => .bool (dj % 2 == 1)
  | .basic (.float _) =>
    -- 1.5, -2.25, 0 as float64 bit patterns
    .flt 64 (if dj % 3 == 0 then 4609434218613702656 else if dj % 3 == 1 then 13835621005235585024 else 0)
  | .struct fs => .struct (Val.ofList ((tyFields fs).map fun F => mkRes env F d j))
  | .slice E =>
    if dj % 3 == 0 then .nilv
    else .slice 0 0 (.scons (mkRes env E d j) (.scons (mkRes env E (d + 1) j) .snil))
  | .ptr R => if dj % 4 == 0 then .nilv else .ptr 0 (mkRes env R d j)
  | _ => .nilv

/-- the instrumented deterministic `f` of the corpus for result types `rs` -/
def fOf (env : Env) (rs : List Ty) (raw : Bool) : Mem.Fn := fun args =>
  let d := argsDigest raw args
  (List.range rs.length).zipWith (fun j T => mkRes env T d j) rs

/-- identity-erased wire form without spaces (mirror of `memShow`) -/
partial def showVal : Val → String
  | .bool b => if b then "(b_1)" else "(b_0)"
  | .int n => s!"(i_{n})"
  | .flt w b => s!"(f_{w}_{b})"
  | .cplx w a b => s!"(c_{w}_{a}_{b})"
  | .str [] => "(s)"
  | .str bs => s!"(s_{hexOfBytes bs})"
  | .nilv => "nil"
  | .ptr _ v => s!"(p_0_{showVal v})"
  | .slice _ _ es => "(sl_0_0" ++ String.join (es.toList.map fun e => "_" ++ showVal e) ++ ")"
  | .arr es => "(ar" ++ String.join (es.toList.map fun e => "_" ++ showVal e) ++ ")"
  | .struct es => "(st" ++ String.join (es.toList.map fun e => "_" ++ showVal e) ++ ")"
  | .map _ es =>
    let ents := es.toList.map showVal
    let sorted := ents.mergeSort (fun a b => !(decide (b < a)))
    "(m_0" ++ String.join (sorted.map fun e => "_" ++ e) ++ ")"
  | .pair k v => s!"({showVal k}_{showVal v})"
  | .snil => "()"
  | .scons h t => s!"({showVal h}{String.join (t.toList.map fun e => "_" ++ showVal e)})"

def showTuple (vs : List Val) : String := "(" ++ "_".intercalate (vs.map showVal) ++ ")"

def parseCall : SExp → Option (List Val)
  | .list xs => xs.mapM parseVal
  | _ => none

def typedCall (env : Env) (ps : List Ty) (a : List Val) : Bool :=
  a.length == ps.length && (List.zipWith (fun T v => hasType env T v && nanFree v) ps a).all id

def shapeName : Mem.Shape → String
  | .flag => "flag" | .single => "single" | .input => "input" | .bucket => "bucket"

/-- number of calls that met, in the bucket of their hash, an entry that is not Equal -/
def collisions (c : Mem.Cfg) (f : Mem.Fn) : Mem.State → List Mem.Args → Nat
  | _, [] => 0
  | s, a :: rest =>
    let here := match s with
      | .bucket t =>
        let k := Mem.keyOf a
        if ((Mem.tblGet t (c.hash k)).getD []).any (fun e => !c.eq e.1 k) then 1 else 0
      | _ => 0
    here + collisions c f (Mem.step c f s a).1 rest

def runSeq (s : DState) (raw : Bool) (ps rs : List Ty) (calls : List (List Val)) : String :=
  let env := s.env
  if !heapConsistent ((calls.flatMap id).flatMap objs) then "ill-formed-heap" else
  if !(calls.all (typedCall env ps)) then "ill-typed" else
  let shape := Mem.shapeOf env ps
  let KT := Mem.keyTy ps
  let keys := calls.map Mem.keyOf
  -- the derived Hash / Equal the bucket shape calls; a panic of either aborts the op
  let hashOK := keys.all fun k => match Hash.top env KT k with | .ok _ => true | .panic => false
  let eqOK := keys.all fun k => keys.all fun k' =>
    match Equal.top env KT k k' with | .ok _ => true | .panic => false
  if shape == .bucket && !(hashOK && eqOK) then "model=panic spec=panic" else
  let cfg := Mem.cfgOf env ps rs.length
  let f := fOf env rs raw
  let tr := Mem.runFrom cfg f (Mem.init cfg) calls
  let answers := ";".intercalate (tr.map fun e => showTuple e.2.1)
  let idx := (List.range tr.length).zip tr
  let log := ",".intercalate ((idx.filter fun e => e.2.2.2).map fun e => s!"{e.1}:{showTuple e.2.1}")
  let PT := Mem.paramStruct ps
  let same := fun (a0 a : List Val) => Spec.structEq env PT (.struct (Val.ofList a0)) (.struct (Val.ofList a))
  let specAns := ";".intercalate ((Spec.Mem.answers f calls).map showTuple)
  let ids := ",".intercalate ((Spec.Mem.classIds same calls).map toString)
  -- for an `f` that does not respect `==` the two clauses of C18 contradict each other: no spec
  -- verdict, but what `f` itself answers is printed so that the check can count the witnesses
  let spec := if raw then s!" direct={specAns}" else s!" spec={specAns}|{ids}"
  s!"model={answers}|{log}{spec} shape={shapeName shape} coll={collisions cfg f (Mem.init cfg) calls}"

def run (s : DState) (name : String) (args : List SExp) : Option String :=
  if name != "memseq" && name != "memraw" then none else
  some <|
    match args with
    | .atom g :: calls =>
      match s.tys.lookup g, s.tys.lookup (g ++ "r"), calls.mapM parseCall with
      | some (.struct pfs), some (.struct rfs), some cs =>
        runSeq s (name == "memraw") (tyFields pfs) (tyFields rfs) cs
      | _, _, _ => "bad-op"
    | _ => "bad-op"

end OpsMem
