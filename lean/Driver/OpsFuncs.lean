/-
Driver ops of the "Funcs" family (properties C15, C16). `run` returns `none` for op names it does
not own.

Every op line is self-contained:

  op <id> <opname> <pkg> (cfg u s x v p g q o w z l e r n k a t) <parts…>

`cfg` = the seventeen model variant flags (unnamedFixed shadowFixed crossFixed voidFixed prefixFixed universeFixed resultsFixed resultOuterFixed qualFixed zeroFixed lhsFixed errTypeFixed errRecvFixed typedNilFixed localsFixed), parts
are lists with a head atom:
  (ps (<name> Z<k>)…)   parameters, `<>` = unnamed, `_` = blank; Z<k> = type of the corpus table
                        (bound by a `ty Z<k> <wire type>` prelude line)
  (outer …) (inner …)   the two parameter lists of a curried function
  (rs Z<k>…)            result types          (ts Z<k>…) tuple component types
  (rn <name>…)          result names (optional; `<>` = unnamed)
  (ins Z<k>…) (stages (Z<k>…)…)  compose chain: parameter types of stage 0, non-error results per stage
  (in Z<k>) (outs Z<k>…) fmap/join/traverse element and result types
  (args n…) (list n…) | (nillist)  argument payloads; (fail s k) failing stage and error number or (fail);
  (errin k) | (errin)   error passed to join; (ok b) (err k) toerror; (seq b…) toerror: the same function value
                        invoked once per entry with f reporting b (answer s:<log before>#<outcome>#<outcome>…)
  (kind <opname>)       for `build`: which wrapper the package contains
  (site 1|2)            which of two call sites of the same derive function (same types, other parameter
                        names; the instrumented functions of site 2 have other tags)
  (variadic i)          function i of the call has a variadic last parameter: such calls are refused
  (ifacechain 1) (zero b) compose: stage 0's first result is a pointer received by an interface parameter of stage 1;
                        with (zero 1) it is the nil pointer (arrives as a non-nil interface, observed as 99)

Helpers that return a function value (all C15 wrappers, compose, toerror, fmap's error form with two or
more results, and the split form of bind `(split 1)`: `fn, e := deriveFmap(f, g); deriveJoin(fn, e)`)
are observed at three moments: `p:<calls made before the first invocation>#<outcome of invocation 1>#
<outcome of invocation 2>`, each invocation with a fresh log (`#nil:<err>` for a nil function).

Values are payloads (`0` = the zero value of the type). The instrumented functions compute result `j`
as `hh tag j args`. Answers:
  behaviour ops   model=<nocompile|outcome> spec=<outcome>
  build           model=g0.c<0|1> spec=g0.c1 [why=<reason>]   (goderive exit status, package compiles)
-/
import GoderiveModel.U.Wire
import GoderiveModel.S.Plumb
import GoderiveModel.S.ErrChain
import GoderiveModel.Spec.Funcs
import Driver.State

open Goderive

namespace OpsFuncs

open Goderive.Plumb (Param Name)

/-- result `j` of the instrumented function `tag` on `args` (mirrors `hh` of the generated Go code) -/
def hh (tag j : Nat) (args : List Nat) : Nat :=
  let rec sum : Nat → List Nat → Nat
    | _, [] => 0
    | i, a :: rest => (i + 1) * (a + 1) + sum (i + 1) rest
  (tag * 7 + j * 13 + sum 0 args) % 89 + 1

structure Flags where
  plumb : Plumb.Cfg
  chain : ErrChain.Cfg

def findList (args : List SExp) (head : String) : Option (List SExp) :=
  args.findSome? fun
    | .list (.atom h :: rest) => if h == head then some rest else none
    | _ => none

def bit : SExp → Option Bool
  | .atom "0" => some false
  | .atom "1" => some true
  | _ => none

/-- `(quals <package name>…)`: the package names that qualify types of the signature (optional) -/
def parseQuals (args : List SExp) : List Name :=
  match findList args "quals" with
  | some xs => xs.filterMap fun
    | .atom a => some a.toList
    | _ => none
  | none => []

def parseFlags (args : List SExp) : Option Flags := do
  let c ← findList args "cfg"
  match ← c.mapM bit with
  | [u, s, x, v, p, g, q, o, w, z, l, e, r, n, k, a, t] =>
    some { plumb := { unnamedFixed := u, shadowFixed := s, crossFixed := x, voidFixed := v, prefixFixed := p,
                      universeFixed := g, resultsFixed := q, resultOuterFixed := o, qualFixed := w,
                      quals := parseQuals args },
           chain := { zeroFixed := z, lhsFixed := l, errTypeFixed := e, errRecvFixed := r, typedNilFixed := n,
                      localsFixed := k, passFixed := a, tupleFixed := t } }
  | _ => none

def tyId : SExp → Option Nat
  | .atom a => if a.startsWith "Z" then (a.drop 1).toNat? else none
  | _ => none

def parseName (a : String) : Name := if a == "<>" then [] else a.toList

def parseParam : SExp → Option Param
  | .list [.atom n, t] => do some { name := parseName n, ty := ← tyId t }
  | _ => none

def parseParams (args : List SExp) (head : String) : Option (List Param) := do
  (← findList args head).mapM parseParam

def parseTyIds (args : List SExp) (head : String) : Option (List Nat) := do
  (← findList args head).mapM tyId

def nat : SExp → Option Nat
  | .atom a => a.toNat?
  | _ => none

def parseNats (args : List SExp) (head : String) : Option (List Nat) := do
  (← findList args head).mapM nat

def tyOf (s : DState) (k : Nat) : Option Ty := s.tys.lookup s!"Z{k}"

def isBool (s : DState) (k : Nat) : Bool :=
  match tyOf s k with
  | some T => s.env.under T == .basic .bool
  | none => false

/-- payload normalisation: a bool has only the payloads 0 and 1 -/
def norm (s : DState) (k : Nat) (n : Nat) : Nat := if isBool s k && n != 0 then 1 else n

/-- the results of the instrumented function `tag` with result types `rs` -/
def results (s : DState) (tag : Nat) (rs : List Nat) (args : List Nat) : List Nat :=
  rs.zipIdx.map fun (k, j) => norm s k (hh tag j args)

def joinWith (sep : String) (xs : List String) : String := sep.intercalate xs

def showNats (sep : String) (xs : List Nat) : String := joinWith sep (xs.map toString)

def showOut : Plumb.Out Nat → String
  | none => "stuck"
  | some (log, res) => s!"r:{showNats "," res};l:{joinWith "|" (log.map (showNats "."))}"

abbrev Err := Nat × Nat

/-- error number 999 of the caller = a nil custom error inside a non-nil `error`; 998 = the nil interface -/
def typedNil : Err := (9, 999)
def nilIface : Err := (9, 998)

def showErr : Option Err → String
  | none => "nil"
  | some (s, k) => if (s, k) == typedNil then "typednil" else if (s, k) == nilIface then "nil" else s!"{s}.{k}"

/-- `(errty <name> result|arg)`: a custom type in place of `error` -/
def parseErrTy (args : List SExp) : Option (Option (ErrChain.ErrTy × Bool)) :=
  match findList args "errty" with
  | none => some none
  | some [.atom n, .atom pos] => do
    let t ← match n with
      | "errs" => some ErrChain.ErrTy.namedNilable
      | "errv" => some .namedStruct
      | "errp" => some .namedPtrRecv
      | "perrp" => some .pointerToNamed
      | "miss4" => some .namedIface
      | "miss1" | "miss2" | "miss3" | "miss5" => some .nearMiss
      | _ => none
    let isArg ← match pos with
      | "arg" => some true
      | "result" => some false
      | _ => none
    some (some (t, isArg))
  | _ => none

def showLog (log : ErrChain.Log Nat) : String :=
  joinWith "|" (log.map fun (i, a) => s!"{i}:{showNats "." a}")

def showResult (r : ErrChain.Result Nat Err) : String :=
  s!"r:{showNats "," r.res};e:{showErr r.err};l:{showLog r.log}"

def showTResult (r : ErrChain.TResult Nat Err) : String :=
  let o := match r.out with
    | none => "nil"
    | some xs => s!"[{showNats "," xs}]"
  s!"o:{o};e:{showErr r.err};l:{showLog r.log}"

/-- why a C15-style wrapper over the effective parameter names does not compile -/
def whyNames (ns : List Name) (binders : List Name) (void : Bool := false) : String :=
  if void then "void"
  else if ns.any (· == []) then "unnamed"
  else if ns.any (fun n => binders.contains n) then "shadow"
  else if !Plumb.nodupB (ns.filter Plumb.usable) then "dup"
  else "other"

/-- a returned function: nothing before the first invocation, the same outcome on every invocation -/
def twice (o : String) : String := s!"p:#{o}#{o}"

def showFn (pre : ErrChain.Log Nat) (o1 o2 : String) : String := s!"p:{showLog pre}#{o1}#{o2}"

/-- observation of a function-valued result: log at return, then two invocations with a fresh log each -/
def showFnResult (r : ErrChain.FnResult Nat Err) (suffix : String := "") : String :=
  match r.fn with
  | none => s!"p:{showLog r.log}#nil:{showErr r.err}"
  | some t =>
    -- what invocation k adds to the log: the difference between `logAfter k` and `logAfter (k-1)`
    let d1 := (t.logAfter r.log 1).drop r.log.length
    let d2 := (t.logAfter r.log 2).drop (t.logAfter r.log 1).length
    showFn r.log (showResult { res := t.vals, err := r.err, log := d1 } ++ suffix)
      (showResult { res := t.vals, err := r.err, log := d2 } ++ suffix)

/-- `(sliceobs 1)`: the identity of the slice-typed (Z9) values is observed as well — one letter per slice value:
`n` nil, `e` empty and not nil, `s` the very backing array that was handed in / returned by f. The helpers pass
values on unchanged, so the model answers `s` for a non-empty slice, and `n` / `e` stay what they were.
`(empty 1)`: the instrumented function makes its slice values empty (payload 0). -/
def sliceObs (args : List SExp) : Bool := (findList args "sliceobs").isSome
def emptyMode (args : List SExp) : Bool := (parseNats args "empty") == some [1]

def sliceFlags (args : List SExp) (tys vals : List Nat) : String :=
  if !sliceObs args then "" else
  ";a:" ++ String.join ((tys.zip vals).filterMap fun (t, v) =>
    if t != 9 then none else some (if emptyMode args then "e" else if v == 0 then "n" else "s"))

/-- payloads of slice values in `(empty 1)` mode -/
def emptied (args : List SExp) (tys vals : List Nat) : List Nat :=
  if sliceObs args && emptyMode args then (tys.zip vals).map fun (t, v) => if t == 9 then 0 else v else vals

def answer (wfOk : Bool) (model spec : String) : String :=
  if wfOk then s!"model={model} spec={spec}" else s!"model=nocompile spec={spec}"

def buildAnswer (wfOk : Bool) (why : String) : String :=
  if wfOk then "model=g0.c1 spec=g0.c1" else s!"model=g0.c0 spec=g0.c1 why={why}"

/-- build answer of a class with a custom type in place of `error`: does the generator accept it, does
the package then compile; the specification: served exactly when `shouldAccept`, refused otherwise -/
def buildAnswerErr (cfg : ErrChain.Cfg) (pos : ErrChain.ErrPos) (t : ErrChain.ErrTy) (restOk : Bool) : String :=
  let accept := ErrChain.isError cfg pos t
  let compiles := accept && restOk && ErrChain.compilesAt pos t
  let model := if !accept then "g1.c0" else if compiles then "g0.c1" else "g0.c0"
  let spec := if ErrChain.shouldAccept pos t then "g0.c1" else "g1.c0"
  let why := match pos with
    | .result => "errtype"
    | .joinArg => "typednil"
    | .toErrorArg => "errrecv"
  if model == spec then s!"model={model} spec={spec}" else s!"model={model} spec={spec} why={why}"

/-- the failing stage of the op line: `(fail s k)` or `(fail)` -/
def parseFail (args : List SExp) : Option (Option Err) := do
  match ← parseNats args "fail" with
  | [] => some none
  | [s, k] => some (some (s, k))
  | _ => none

/-- `(site 2)`: the second call site -/
def site2 (args : List SExp) : Bool :=
  match parseNats args "site" with
  | some [2] => true
  | _ => false

/-- the instrumented stage `i` with result types `rs` (`off`: tag offset of the call site) -/
def stage (s : DState) (fail : Option Err) (i : Nat) (rs : List Nat) (off : Nat := 0) : ErrChain.Stage Nat Err :=
  { run := fun a => (results s (i + off) rs a, match fail with
      | some (st, k) => if st == i then some (st, k) else none
      | none => none) }

def zerosFor (rs : List Nat) : List Nat := rs.map fun _ => 0


/-- `(rn <name>…)`: the names of the results (absent or `<>`: unnamed) -/
def parseResNames (args : List SExp) : Option (List Name) :=
  match findList args "rn" with
  | none => some []
  | some xs => xs.mapM fun
    | .atom a => some (parseName a)
    | _ => none

def plumbWf (cfg : Plumb.Cfg) (kind : String) (args : List SExp) : Option (Bool × String) :=
  match kind with
  | "curry" | "flip" | "apply" | "uncurrycurry" | "nest3" | "nest4" => do
    let ps ← parseParams args "ps"
    let n := (← parseTyIds args "rs").length
    let rn := Plumb.effResults cfg (← parseResNames args)
    let eff := Plumb.effParams cfg [Plumb.fName] Plumb.paramPrefix ps
    let ens := Plumb.names eff
    let why0 := whyNames ens [Plumb.fName] (n == 0 && !cfg.voidFixed)
    -- the named results live in the innermost function literal
    let resOk (outerNs innerNs : List Name) : Bool := Plumb.resultsOk outerNs innerNs rn
    let fin (wfOk rOk : Bool) : Bool × String := (wfOk && rOk, if wfOk && !rOk then "resultname" else why0)
    match kind with
    | "curry" => some (fin (Plumb.wrapperWellFormed (Plumb.curryTm cfg ps n)) (resOk (ens.take 1) (ens.drop 1)))
    | "flip" => some (fin (Plumb.wrapperWellFormed (Plumb.flipTm cfg ps n)) (resOk [] ens))
    | "apply" => some (fin (Plumb.wrapperWellFormed (Plumb.applyTm cfg ps n)) (resOk (ens.drop (ens.length - 1)) (ens.take (ens.length - 1))))
    | "nest3" | "nest4" =>
      -- deriveFlip(deriveUncurry(deriveCurry(F))) [and deriveApply(…, last)]: every wrapper of the nest must type-check;
      -- each works on the (renamed) signature of the one inside it
      let (first, rest) := Plumb.currySig eff
      let (o, i) := Plumb.uncurryParams cfg first rest
      let merged := o ++ i
      let flipped := Plumb.flipSig (Plumb.effParams cfg [Plumb.fName] Plumb.paramPrefix merged)
      some (fin (Plumb.wrapperWellFormed (Plumb.curryTm cfg ps n) &&
            Plumb.wrapperWellFormed (Plumb.uncurryTm cfg first rest n) &&
            Plumb.wrapperWellFormed (Plumb.flipTm cfg merged n) &&
            (kind == "nest3" || Plumb.wrapperWellFormed (Plumb.applyTm cfg flipped n))) true)
    | _ =>
      let (first, rest) := Plumb.currySig eff
      let (o, i) := Plumb.uncurryParams cfg first rest
      some (fin (Plumb.wrapperWellFormed (Plumb.curryTm cfg ps n) &&
            Plumb.wrapperWellFormed (Plumb.uncurryTm cfg first rest n))
            (resOk (ens.take 1) (ens.drop 1) && resOk [] (Plumb.names (o ++ i))))
  | "uncurry" => do
    let outer ← parseParams args "outer"
    let inner ← parseParams args "inner"
    let n := (← parseTyIds args "rs").length
    let rn0 ← parseResNames args
    let rn := Plumb.effResultsUncurry cfg (Plumb.names outer) rn0
    let (o, i) := Plumb.uncurryParams cfg outer inner
    let wfOk := Plumb.wrapperWellFormed (Plumb.uncurryTm cfg outer inner n)
    let rOk := Plumb.resultsOk [] (Plumb.names (o ++ i)) rn
    -- a result that bears the name of an OUTER parameter is a class of its own
    let outerClash := rn.any fun m => m != [] && (Plumb.names o).contains m
    some (wfOk && rOk, if wfOk && !rOk then (if outerClash then "resultparam" else "resultname")
      else whyNames (Plumb.names (o ++ i)) [Plumb.fName] (n == 0 && !cfg.voidFixed))
  | "tuple" => do
    let ts ← parseTyIds args "ts"
    some (Plumb.wrapperWellFormed (Plumb.tupleTm ts), "other")
  | _ => none

/-- well-formedness and reason of a C16 package -/
def chainWf (s : DState) (fl : Flags) (kind : String) (args : List SExp) : Option (Bool × String) :=
  let env := s.env
  let tysOf (ks : List Nat) : Option (List Ty) := ks.mapM (tyOf s)
  let whyZ (lhsOk : Bool) : String := if lhsOk then "zero" else "emptylhs"
  match kind with
  | "compose" => do
    let st ← findList args "stages"
    let outs ← st.mapM fun
      | .list xs => (xs.mapM tyId).bind tysOf
      | _ => none
    let lhsOk := fl.chain.lhsFixed || outs.all (fun o => !o.isEmpty)
    some (ErrChain.composeWf fl.chain env outs, whyZ lhsOk)
  | "fmape" => do
    let outs ← (parseTyIds args "outs").bind tysOf
    -- `(tupleclash 1)`: the package also calls deriveTuple on types that are assignable to, but not identical
    -- with, f's results: fmap's `deriveTuple(f(v))` is resolved to that function and has the wrong type
    let clash := (findList args "tupleclash").isSome && !fl.chain.tupleFixed
    some (ErrChain.fmapWf fl.chain env outs && !clash, if clash then "tupleassign" else "zero")
  | "joine" => do
    let outs ← (parseTyIds args "outs").bind tysOf
    some (ErrChain.joinWf fl.chain env outs, "zero")
  | "bind" => do
    -- fmap's default case returns a nil function; join prints the zero of f's non-error results
    let outs ← (parseTyIds args "outs").bind tysOf
    some (ErrChain.joinWf fl.chain env outs, "zero")
  | "traverse" => some (true, "other")
  | "toerror" => do
    let ps ← parseParams args "ps"
    let eff := ErrChain.toErrorParams fl.plumb ps
    let rs ← parseTyIds args "rs"
    -- type 2 of the corpus table is bool
    let why := if !(fl.chain.localsFixed || ErrChain.toErrorLocalsOk eff rs 2) then "locals"
      else whyNames (Plumb.names eff) [Plumb.fName, Plumb.errName]
    some (ErrChain.toErrorWfExact fl.plumb fl.chain.localsFixed ps rs 2, why)
  | _ => none

def fTag : Nat := 5
/-- tag of the function under test at the call site of the op line -/
def fTagOf (args : List SExp) : Nat := if site2 args then 6 else fTag

def runPlumb (s : DState) (fl : Flags) (name : String) (args : List SExp) : Option String := do
  let cfg := fl.plumb
  let (ok, _) ← plumbWf cfg name args
  let vs ← parseNats args "args"
  match name with
  | "tuple" =>
    let ts ← parseTyIds args "ts"
    if vs.length != ts.length then none else
    let vs := emptied args ts vs
    let fl := sliceFlags args ts vs
    some (answer ok (twice (showOut (Plumb.runTuple ts vs) ++ fl)) (twice (showOut (Spec.tupleSpec vs) ++ fl)))
  | "uncurry" =>
    let outer ← parseParams args "outer"
    let inner ← parseParams args "inner"
    let rs ← parseTyIds args "rs"
    if vs.length != outer.length + inner.length || outer.length != 1 then none else
    let f := results s (fTagOf args) rs
    some (answer ok (twice (showOut (Plumb.runUncurry cfg outer inner f vs))) (twice (showOut (Spec.uncurrySpec f vs))))
  | _ =>
    let ps ← parseParams args "ps"
    let rs ← parseTyIds args "rs"
    -- apply also exists for one parameter: `deriveApply(f, v)()`
    if vs.length != ps.length || ps.length < (if name == "apply" then 1 else 2) then none else
    let f := results s (fTagOf args) rs
    match name, vs with
    | "curry", a :: rest =>
      some (answer ok (twice (showOut (Plumb.runCurry cfg ps f a rest))) (twice (showOut (Spec.currySpec f a rest))))
    | "flip", a :: b :: rest =>
      -- the op line lists the arguments in f's order; the wrapper is called with the first two swapped
      some (answer ok (twice (showOut (Plumb.runFlip cfg ps f (b :: a :: rest)))) (twice (showOut (Spec.flipSpec f (b :: a :: rest)))))
    | "apply", _ =>
      let last := vs.getLast?.getD 0
      some (answer ok (twice (showOut (Plumb.runApply cfg ps f last vs.dropLast))) (twice (showOut (Spec.applySpec f last vs.dropLast))))
    | "uncurrycurry", _ =>
      some (answer ok (twice (showOut (Plumb.runUncurryCurry cfg ps f vs))) (twice (showOut (Spec.callOnce f vs))))
    | "nest3", a :: b :: rest =>
      -- flip of (uncurry of curry of f): the inner pair behaves as f (uncurry_curry), flip swaps the first two
      let inner : List Nat → List Nat := fun as => match Plumb.runUncurryCurry cfg ps f as with
        | some (_, r) => r
        | none => []
      let m := match Plumb.runUncurryCurry cfg ps f (a :: b :: rest) with
        | some _ => Plumb.runFlip cfg ps inner (b :: a :: rest) |>.map fun (_, r) => ([a :: b :: rest], r)
        | none => none
      some (answer ok (twice (showOut m)) (twice (showOut (Spec.callOnce f vs))))
    | "nest4", a :: b :: _ =>
      let last := vs.getLast?.getD 0
      let mid := (vs.drop 2).dropLast
      let m := match Plumb.runUncurryCurry cfg ps f vs with
        | some _ => Plumb.runApply cfg (Plumb.flipSig ps) (fun as => match as with
            | b' :: a' :: r => f (a' :: b' :: r)
            | _ => []) last (b :: a :: mid) |>.map fun (_, r) => ([vs], r)
        | none => none
      some (answer ok (twice (showOut m)) (twice (showOut (Spec.callOnce f vs))))
    | _, _ => none

/-- behaviour answer of a class with a custom type in place of `error`: a refused call has no behaviour
(`nogen`, on both sides when refusing is what should happen) -/
def answerErr (cfg : ErrChain.Cfg) (pos : ErrChain.ErrPos) (t : ErrChain.ErrTy) (ok : Bool) (model spec : String) : String :=
  let m := if !ErrChain.isError cfg pos t then "nogen" else if !(ok && ErrChain.compilesAt pos t) then "nocompile" else model
  let sp := if ErrChain.shouldAccept pos t then spec else "nogen"
  s!"model={m} spec={sp}"

def runChain (s : DState) (fl : Flags) (name : String) (args : List SExp) : Option String := do
  let (ok, _) ← chainWf s fl name args
  match name with
  | "compose" =>
    let ins ← parseTyIds args "ins"
    let st ← findList args "stages"
    let outs ← st.mapM fun
      | .list xs => xs.mapM tyId
      | _ => none
    let fail ← parseFail args
    let vs ← parseNats args "args"
    if vs.length != ins.length then none else
    let stages0 := outs.zipIdx.map fun (rs, i) => stage s fail i rs (if site2 args then 10 else 0)
    -- `(ifacechain 1)`: the first result of stage 0 is a pointer that stage 1 receives in an interface parameter;
    -- `(zero 1)`: it is the nil pointer. The value is passed on unchanged: the interface holds the typed nil
    -- pointer and is not nil — the harness observes such an interface as payload 99 (nil interface: 0)
    let zero := (parseNats args "zero") == some [1]
    let stages := if (findList args "ifacechain").isSome && zero then
        match stages0 with
        | s0 :: rest => ({ run := fun a => let (r, e) := s0.run a; (r.set 0 99, e) } : ErrChain.Stage Nat Err) :: rest
        | [] => []
      else stages0
    let zeros := zerosFor (outs.getLast?.getD [])
    -- building the composed function calls nothing; every invocation runs the chain
    some (answer ok (twice (showResult (ErrChain.compose zeros stages vs))) (twice (showResult (Spec.composeSpec zeros stages vs))))
  | "fmape" =>
    let a ← parseTyIds args "in"
    let outs ← parseTyIds args "outs"
    let fail ← parseFail args
    let g := stage s fail 0 a
    let f := results s 1 outs
    if outs.length ≥ 2 then
      -- the result is a function value: observed when fmap returns and on two invocations
      let fs : ErrChain.Stage Nat Err := { run := fun a => (emptied args outs (f a), none) }
      let flm := match (ErrChain.fmapEFn g fs).fn with
        | some t => sliceFlags args outs t.vals
        | none => ""
      let fls := match (Spec.fmapEFnSpec g fs).fn with
        | some t => sliceFlags args outs t.vals
        | none => ""
      some (answer ok (showFnResult (ErrChain.fmapEFn g fs) flm) (showFnResult (Spec.fmapEFnSpec g fs) fls))
    else
    -- one result: its zero; none: nothing
    let zeros := match outs with
      | [] => []
      | _ => [0]
    some (answer ok (showResult (ErrChain.fmapE zeros g f)) (showResult (Spec.fmapESpec zeros g f)))
  | "joine" =>
    let outs ← parseTyIds args "outs"
    let fail ← parseFail args
    let errin ← match ← parseNats args "errin" with
      | [] => some none
      | [k] => some (some (9, k))
      | _ => none
    let f := stage s fail 1 outs
    -- a custom error VALUE: "no error" is the nil value of the custom type, which the helper receives
    -- inside a non-nil `error` (unless repaired); the specification sees no error
    let custom ← parseErrTy args
    let errModel := match custom, errin with
      | some (.namedNilable, true), none => if fl.chain.typedNilFixed then none else some typedNil
      | _, e => e
    let why := if errModel == some typedNil then " why=typednil" else ""
    let m := showResult (ErrChain.joinEC fl.chain.passFixed (zerosFor outs) f errModel)
    let sp := showResult (Spec.joinESpec (zerosFor outs) f errin)
    let why := if why == "" && m != sp then " why=passthrough" else why
    match custom with
    | some (t, true) => some (answerErr fl.chain .joinArg t ok m sp ++ why)
    | _ => some (answer ok m sp ++ why)
  | "bind" =>
    let a ← parseTyIds args "in"
    let outs ← parseTyIds args "outs"
    let fail ← parseFail args
    let g := stage s fail 0 a
    let f := stage s fail 1 outs
    let split ← match ← parseNats args "split" with
      | [b] => some (b != 0)
      | _ => none
    let zeros := zerosFor outs
    if split then
      -- `fn, e := deriveFmap(f, g)` observed, then `deriveJoin(fn, e)` twice
      let fr := ErrChain.fmapEFn g f
      let inv := match ErrChain.joinFn zeros fr.fn fr.err with
        | some r => showResult (ErrChain.zeroOnError fl.chain.passFixed zeros r)
        | none => "panic"
      let sp := Spec.bindESpec zeros g f
      let invS := showResult { res := sp.res, err := sp.err, log := [] }
      let ans := answer ok (showFn fr.log inv inv) (showFn sp.log invS invS)
      some (if ok && inv != invS then ans ++ " why=passthrough" else ans)
    else
      let m := twice (showResult (ErrChain.bindEC fl.chain.passFixed zeros g f))
      let spn := twice (showResult (Spec.bindESpec zeros g f))
      some (if ok && m != spn then answer ok m spn ++ " why=passthrough" else answer ok m spn)
  | "traverse" =>
    let out ← parseTyIds args "outs"
    let fail ← parseFail args          -- (fail i k): the call on element index i fails
    let list ← match parseNats args "list" with     -- `(nillist)`: the nil slice, `(list)`: an empty one
      | some l => some l
      | none => (findList args "nillist").map fun _ => []
    match out with
    | [t] =>
      -- the element function is told the index through the log position: failing is by *index*, so
      -- the model threads the index as part of the element (payload, index) — see `felem`
      let felem : Nat × Nat → (Nat × Nat) × Option Err := fun (x, i) =>
        ((norm s t (hh 0 0 [x]), i), match fail with
          | some (fi, k) => if fi == i then some (0, k) else none
          | none => none)
      let xs := list.zipIdx
      let strip (r : ErrChain.TResult (Nat × Nat) Err) : ErrChain.TResult Nat Err :=
        { out := r.out.map (·.map (·.1)), err := r.err, log := r.log.map fun (i, a) => (i, a.map (·.1)) }
      some (answer ok (showTResult (strip (ErrChain.traverse felem xs))) (showTResult (strip (Spec.traverseSpec felem xs))))
    | _ => none
  | "toerror" =>
    let ps ← parseParams args "ps"
    let rs ← parseTyIds args "rs"
    let vs ← parseNats args "args"
    let okFlag ← match ← parseNats args "ok" with
      | [b] => some (b != 0)
      | _ => none
    -- `(err k)`: error number k of the caller; `(err)`: the zero value of the supplied type — a nil pointer
    -- / nil slice of a custom error type (a typed nil: must come back as it is) or the nil interface
    let custom ← parseErrTy args
    let e ← match ← parseNats args "err" with
      | [k] => some ((9, k) : Err)
      | [] => match custom with
        | some (.namedIface, _) | none => some nilIface
        | some (.namedNilable, _) | some (.pointerToNamed, _) => some typedNil
        | _ => none
      | _ => none
    if vs.length != ps.length then none else
    let fOk (b : Bool) : List Nat → List Nat × Bool := fun a => (results s (if site2 args then 6 else 0) rs a, b)
    let f := fOk okFlag
    -- `(seq b…)`: one function value invoked once per entry, f reporting b in that call; the model has no
    -- state: every call is answered on its own
    let (m, sp) := match parseNats args "seq" with
      | some bs =>
        ("s:" ++ String.join (bs.map fun b => "#" ++ showResult (ErrChain.toError e (fOk (b != 0)) vs)),
         "s:" ++ String.join (bs.map fun b => "#" ++ showResult (Spec.toErrorSpec e (fOk (b != 0)) vs)))
      | none => (twice (showResult (ErrChain.toError e f vs)), twice (showResult (Spec.toErrorSpec e f vs)))
    match custom with
    | some (t, true) => some (answerErr fl.chain .toErrorArg t ok m sp)
    | _ => some (answer ok m sp)
  | _ => none

def plumbOps : List String := ["curry", "flip", "apply", "uncurry", "uncurrycurry", "tuple", "nest3", "nest4"]
def chainOps : List String := ["compose", "fmape", "joine", "bind", "traverse", "toerror"]

def run (s : DState) (name : String) (args : List SExp) : Option String :=
  if name == "build" || plumbOps.contains name || chainOps.contains name then
    -- args[0] is the package atom
    let args := args.drop 1
    let r : Option String := do
      let fl ← parseFlags args
      if name == "build" && (findList args "variadic").isSome then
        -- a variadic signature is refused by every plugin of the family
        some "model=g1.c0 spec=g1.c0"
      else if name == "build" then
        match ← findList args "kind" with
        | [.atom kind] =>
          if plumbOps.contains kind then
            let (ok, why) ← plumbWf fl.plumb kind args
            some (buildAnswer ok why)
          else
            let (ok, why) ← chainWf s fl kind args
            match ← parseErrTy args with
            | some (t, isArg) =>
              let pos : ErrChain.ErrPos := if !isArg then .result else if kind == "toerror" then .toErrorArg else .joinArg
              some (buildAnswerErr fl.chain pos t ok)
            | none => some (buildAnswer ok why)
        | _ => none
      else if plumbOps.contains name then runPlumb s fl name args
      else runChain s fl name args
    some (r.getD "bad-op")
  else none

end OpsFuncs
