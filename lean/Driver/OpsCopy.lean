/-
Driver ops of the "Copy" family. `run` returns `none` for op names it does not own.
-/
import GoderiveModel.U.Wire
import Driver.State

open Goderive

namespace OpsCopy

def run (_s : DState) (_name : String) (_args : List SExp) : Option String := none

end OpsCopy
