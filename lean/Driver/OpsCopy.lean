/-
Driver ops of the deepcopy / clone family (C05).
  op <id> deepcopy <T> <src> <dstPrior>   → model=<dst after, canonical>;eq=<b>;shape=<b>;alias=<b>;src=1
  op <id> clone <T> <src>                 → same for the returned value
  (deepcopyx = deepcopy on arguments outside the property's precondition)
  op <id> deepcopyk / clonek …            → model=unmodelled (types with pointer-keyed maps)
eq = Spec.structEq (Go's equality, what reflect.DeepEqual says in the harness), shape = Spec.shapeEq (same
nil-ness, lengths and bits; rt.ShapeEqual in the harness).
-/
import GoderiveModel.U.Wire
import GoderiveModel.U.Canon
import GoderiveModel.S.DeepCopy
import GoderiveModel.Spec.StructEq
import GoderiveModel.Spec.ShapeEq
import Driver.State

open Goderive

namespace OpsCopy

/-- identities that occupy memory: (kind, addr) of pointer targets, backing arrays, maps -/
def memObjs : Val → List (Nat × Nat)
  | .ptr a v => (if zeroSize v then [] else [(0, a)]) ++ memObjs v
  | .slice a sp es => (if es.slen + sp == 0 then [] else [(1, a)]) ++ memObjs es
  | .arr es => memObjs es
  | .struct fs => memObjs fs
  | .map a es => (2, a) :: memObjs es
  | .pair k v => memObjs k ++ memObjs v
  | .scons h t => memObjs h ++ memObjs t
  | _ => []

def maxAddr (v : Val) : Nat := (addrs v).foldl max 0

def b01 (b : Bool) : String := if b then "1" else "0"

def answer (env : Env) (T : Ty) (src : Val) (r : Res (Val × Nat)) : String :=
  match r with
  | .panic => "model=panic"
  | .ok (d, _) =>
    let strs := canonAll [src, d]
    let ds := strs.getD 1 "?"
    let so := memObjs src
    let alias := (memObjs d).any fun o => so.contains o
    s!"model={ds};eq={b01 (Spec.structEq env T src d)};shape={b01 (Spec.shapeEq env T src d)};alias={b01 alias};src=1"

def run (s : DState) (name : String) (args : List SExp) : Option String :=
  let env := s.env
  match name, args with
  | "deepcopy", [t, x, y] | "deepcopyx", [t, x, y] =>
    some <| match lookupTy s t, parseVal x, parseVal y with
    | some T, some src, some dst =>
      if !(hasType env T src && hasType env T dst) then "ill-typed"
      else if !heapConsistent (objs src ++ objs dst) then "ill-formed-heap"
      else answer env T src (DeepCopy.top env T src dst (max (maxAddr src) (maxAddr dst) + 1))
    | _, _, _ => "bad-op"
  -- maps with pointer keys are outside the models (typing demands pointer-free keys): judged on the Go side alone
  | "deepcopyk", _ | "clonek", _ => some "model=unmodelled"
  | "clone", [t, x] =>
    some <| match lookupTy s t, parseVal x with
    | some T, some src =>
      if !(hasType env T src) then "ill-typed"
      else answer env T src (DeepCopy.clone env T src (maxAddr src + 1))
    | _, _ => "bad-op"
  | _, _ => none

end OpsCopy
