/-
Driver op of the gostring family (C06).

  op <id> gostring <T> <v>   → model=<canonical observation of evalG (goString env T v)>;skel=<skeleton of goString env T v>;eq=<b>

`eq` is the specification's verdict `Spec.structEq env T v v'` on the model's value (the Go side
prints reflect.DeepEqual(original, evaluated) in the same place). No `spec=` is printed: the property is
decided on the implementation's own answer (`oracle=` of compare_corpus).
The lexical layer is `GoString.valLex` (leaf text = the value; reading back maps -0.0 to +0.0).
Answers: `ill-typed`, `non-finite` (outside the property's quantifier), `unsupported` (the generator
emits nothing for the type), `model=compile-error` (`Res.panic`: the text does not compile — e.g. it assigns an
unexported field — or panics). `gostringx` = the same op on a type outside the property's quantifier (a struct of the
derive package with unexported fields): correspondence only.
-/
import GoderiveModel.U.Wire
import GoderiveModel.U.Canon
import GoderiveModel.S.GoString
import GoderiveModel.Spec.StructEq
import Driver.State

open Goderive

namespace OpsGoString

/-- elements that occupy no memory: a slice of them has no observable backing array (harness/rt `Obs`
gives id 0 when `elemsize * cap == 0`) -/
def allZeroSize : Val → Bool
  | .scons h t => zeroSize h && allZeroSize t
  | _ => true

mutual
/-- as `canonVal` of U/Canon.lean, but a slice whose elements are zero-size gets id 0 like an empty one -/
partial def canonV (m : IdMap) : Val → IdMap × String
  | .ptr a v =>
    if zeroSize v then
      let (m, s) := canonV m v; (m, s!"(p 0 {s})")
    else
      let (m, i) := m.get (0, a)
      let (m, s) := canonV m v; (m, s!"(p {i} {s})")
  | .slice a sp es =>
    let (m, i) := if es.slen + sp == 0 || allZeroSize es then (m, 0) else m.get (1, a)
    let (m, s) := canonS m es; (m, s!"(sl {i} {sp}{s})")
  | .arr es => let (m, s) := canonS m es; (m, s!"(ar{s})")
  | .struct es => let (m, s) := canonS m es; (m, s!"(st{s})")
  | .map a es =>
    let (m, i) := m.get (2, a)
    let keyed := es.toList.filterMap fun e => match e with
      | .pair k v => some (printVal k, v)
      | _ => none
    let sorted := keyed.foldl (fun acc (k, v) => insertSortedV (k, v) acc) []
    let (m, s) := sorted.foldl (fun (acc : IdMap × String) (kv : String × Val) =>
      let (m', vs) := canonV acc.1 kv.2
      (m', acc.2 ++ s!" ({kv.1} {vs})")) (m, "")
    (m, s!"(m {i}{s})")
  | v => (m, printVal v)
partial def canonS (m : IdMap) : Val → IdMap × String
  | .scons h t =>
    let (m, s) := canonV m h
    let (m, r) := canonS m t
    (m, " " ++ s ++ r)
  | _ => (m, "")
end

def canon (v : Val) : String := ((canonV [] v).2).replace " " ","

def maxAddr (v : Val) : Nat := (addrs v).foldl max 0

def b01 (b : Bool) : String := if b then "1" else "0"

open GoString in
/-- number of elements of a literal spine -/
def elen {τ : Type} : G τ → Nat
  | .econs _ t => elen t + 1
  | _ => 0

open GoString in
mutual
/-- the statement skeleton of a text (leaf literals as `L`, type names dropped): mirrors
`Skeleton` of harness/gostring/skel.go, which computes it from the real text with go/parser -/
partial def skelE {τ : Type} : G τ → String
  | .leaf _ _ => "L"
  | .sliceLit _ es => s!"S{elen es}"
  | .arrayLit _ es => s!"A{elen es}"
  | .mapLit _ es => s!"M{elen es}"
  | .addrOf _ _ => "&L"
  | .addrEmpty _ => "&{}"
  | .call _ body =>
    -- map entries are printed in map iteration order: sort the entry statements (as skel.go does)
    let ss := skelB body
    let isEnt := fun (s : String) => s.startsWith "[L]=" || s.startsWith "k:="
    let ents := (ss.filter isEnt).toArray.qsort (· < ·) |>.toList
    let others := ss.filter (fun s => !isEnt s)
    "f{" ++ ";".intercalate (others.dropLast ++ ents ++ others.getLast?.toList) ++ "}"
  | _ => "BAD"
partial def skelB {τ : Type} : G τ → List String
  | .seq .skip rest => skelB rest
  | .seq (.keyDecl _ e) (.seq (.setKeyVar _ e') rest) => ("k:=" ++ skelE e ++ ";[k]=" ++ skelE e') :: skelB rest
  | .seq s rest => skelS s :: skelB rest
  | .retThis => ["ret"]
  | .retDeref => ["ret*"]
  | .retNil => ["retnil"]
  | .ret e => ["ret=" ++ skelE e]
  | _ => ["BAD"]
partial def skelS {τ : Type} : G τ → String
  | .newStruct _ => "this:=&{}"
  | .newPtr _ => "this:=new"
  | .makeSlice _ n => s!"this:=make({n})"
  | .makeMap _ => "this:=make"
  | .arrZero _ => "this:={}"
  | .setField i _ e => s!".{i}=" ++ skelE e
  | .setDeref e => "*=" ++ skelE e
  | .setIndex i e => s!"[{i}]=" ++ skelE e
  | .setKeyLit _ e => "[L]=" ++ skelE e
  | .keyDecl j e => s!"k{j}:=" ++ skelE e
  | .setKeyVar j e => s!"[k{j}]=" ++ skelE e
  | _ => "BAD"
end

def run (s : DState) (name : String) (args : List SExp) : Option String :=
  let env := s.env
  match name, args with
  | "gostring", [t, x] | "gostringx", [t, x] =>
    some <| match lookupTy s t, parseVal x with
    | some T, some v =>
      if !(hasType env T v) then "ill-typed"
      else if !heapConsistent (objs v) then "ill-formed-heap"
      else if !(GoString.finiteFloats v) then "non-finite"
      else if !(GoString.SupportedGS env T) then "unsupported"
      else
        let text := GoString.goString env GoString.valLex T v
        match GoString.evalG env GoString.valLex text (maxAddr v + 1) with
        | .panic => "model=compile-error"
        | .ok (v', _) =>
          let e := Spec.structEq env T v v'
          let fresh := (addrs v').all fun a => a > maxAddr v
          s!"model={canon v'};skel={skelE text};eq={b01 (e && fresh)}"
    | _, _ => "bad-op"
  | _, _ => none

end OpsGoString
