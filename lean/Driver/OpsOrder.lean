/-
Driver op of the generation-order model (`G/Order`, property C08):

  op <id> genorder (<path> <dir> <named 0|1> (<import>…)) …
      → model=<the paths of the named packages in the order in which Generate processes them, `,`-separated>

The same line is answered by harness-t3/cmd/orderdrive from the real `sort.Slice` + `importedFirst` through
the hook `derive.VerifGenerationOrder`. Two packages with one path are rejected (`bad-op`): a path names one
package object.
-/
import GoderiveModel.U.Wire
import GoderiveModel.G.Order
import Driver.State

open Goderive Goderive.G.Order

namespace OpsOrder

def atoms : List SExp → Option (List String)
  | [] => some []
  | .atom a :: r => (atoms r).map (a :: ·)
  | _ => none

def parsePkg : SExp → Option Pkg
  | .list [.atom p, .atom d, .atom n, .list is] =>
    match atoms is, n with
    | some imports, "0" => some ⟨p, d, imports, false⟩
    | some imports, "1" => some ⟨p, d, imports, true⟩
    | _, _ => none
  | _ => none

def run (_ : DState) (name : String) (args : List SExp) : Option String :=
  if name != "genorder" then none else
  match args.mapM parsePkg with
  | none => some "bad-op"
  | some G =>
    if !decide (WF G) then some "bad-op"
    else some ("model=" ++ ",".intercalate (generationOrder G))

end OpsOrder
