/-
Driver ops of the generator-level family (name table, prefixes, imports, rewrite). `run` returns
`none` for op names it does not own.
-/
import GoderiveModel.U.Wire
import Driver.State

open Goderive

namespace OpsGen

def run (_s : DState) (_name : String) (_args : List SExp) : Option String := none

end OpsGen
