/-
Driver ops of the generator-level family (name table, prefixes, imports). `run` returns `none` for op
names it does not own. Every op line is self-contained (the driver's `run` is stateless), so a whole
operation sequence on a name table is ONE line:

  op <id> tm (cfg PFX (RESERVED…) AUTONAME DEDUP) OP…     OP ::= (set NAME T…) | (get T…) | (gen T…) | (togen)
                                                                | (done) | (nameof T…) | (newname T…) | (names)
        → answers of the ops joined by `;`
  op <id> eq (T…) (T…)                → <eq>,<identical>
  op <id> sortplugins (NAME PFX)…     → sorted prefixes `,`-joined, `|`, plugin names in that order (or `-` when two
                                        prefixes are equal: their relative order is then not determined)
  op <id> dispatch CALLNAME PFX…      → prefix of the handling plugin (after sorting) or `none`
  op <id> regall (flags AUTONAME DEDUP RESERVED…) (plugins (PFX KIND)…) (files (file (call NAME T…)…)…)
        → ok/<names per file>/<changed per file>/<tables> | err:<class>:<plugin prefix>… | panic
  op <id> rho P NAME                  → strings.Replace(NAME, "derive", P, 1)
  op <id> effprefixes P (ov (PLUGIN PFX)…) → effective prefixes of the 33 default plugins, sorted
  op <id> defaultplugins              → the model's table of (plugin, default prefix)
  op <id> reservedwords               → the model's list of keywords + universe names (`G.reservedWordStrings`)
  op <id> imports (NAME PATH)…        → aliases returned by the import closures `,`-joined `|` final table
  op <id> unvendor PATH               → derive.unvendor(PATH)

Names travel as atoms in which every byte other than [A-Za-z0-9_] is written %XX (so invalid UTF-8
produced by byte slicing is representable); the empty name is `%`.
Types: bool int i8 i16 i32 i64 uint u8 u16 u32 u64 uintptr f32 f64 c64 c128 string func iface
       (p T) (sl T) (ar N T) (m K V) (ch T) (chr T) = <-chan T (chs T) = chan<- T (st T…) (stt TAG T…) = struct whose first field bears the tag json:"TAG" (nm PKG NAME T)   — PKG: 0 = the package itself.
       error  (if M…) = interface{ M() … }  (nmm PKG NAME T M…) = named type with methods M() … (Error() string)
-/
import GoderiveModel.U.Wire
import GoderiveModel.G.TypesMap
import Driver.State

open Goderive Goderive.G

namespace OpsGen

def hexv (c : Char) : Option Nat :=
  if '0' ≤ c && c ≤ '9' then some (c.toNat - '0'.toNat)
  else if 'a' ≤ c && c ≤ 'f' then some (c.toNat - 'a'.toNat + 10)
  else if 'A' ≤ c && c ≤ 'F' then some (c.toNat - 'A'.toNat + 10)
  else none

def unescChars : List Char → Option Name
  | [] => some []
  | '%' :: a :: b :: rest => do
    let x ← hexv a; let y ← hexv b; let r ← unescChars rest
    pure ((x * 16 + y) :: r)
  | '%' :: _ => none
  | c :: rest => do
    if c.toNat ≥ 128 then none
    let r ← unescChars rest
    pure (c.toNat :: r)

def unesc (s : String) : Option Name :=
  if s == "%" then some [] else unescChars s.toList

def hexd (n : Nat) : Char :=
  if n < 10 then Char.ofNat ('0'.toNat + n) else Char.ofNat ('A'.toNat + n - 10)

def plainByte (b : Nat) : Bool :=
  (48 ≤ b && b ≤ 57) || (65 ≤ b && b ≤ 90) || (97 ≤ b && b ≤ 122) || b == 95

def esc (n : Name) : String :=
  if n.isEmpty then "%" else
  String.ofList (n.flatMap fun b =>
    if plainByte b then [Char.ofNat b] else ['%', hexd (b / 16 % 16), hexd (b % 16)])

def basicName : String → Option String
  | "bool" => some "bool" | "int" => some "int" | "i8" => some "int8" | "i16" => some "int16"
  | "i32" => some "int32" | "i64" => some "int64" | "uint" => some "uint" | "u8" => some "uint8"
  | "u16" => some "uint16" | "u32" => some "uint32" | "u64" => some "uint64" | "uintptr" => some "uintptr"
  | "f32" => some "float32" | "f64" => some "float64" | "c64" => some "complex64"
  | "c128" => some "complex128" | "string" => some "string"
  | _ => none

def atomsOf' : List SExp → Option (List String)
  | [] => some []
  | .atom a :: r => (atomsOf' r).map (a :: ·)
  | _ => none

mutual
partial def parseGTy : SExp → Option GTy
  | .atom "func" => some .func
  | .atom "iface" => some .iface
  | .atom "error" => some GTy.error
  | .atom a => (basicName a).map fun n => .basic (asc n)
  | .list [.atom "nm", .atom p, .atom n, t] => do
    pure (.named (← p.toNat?) (← unesc n) (← parseGTy t))
  -- a named type with methods M1() M2() …: methods do not enter the identity of the type
  | .list (.atom "nmm" :: .atom p :: .atom n :: t :: ms) => do
    if ms.isEmpty then pure (.named (← p.toNat?) (← unesc n) (← parseGTy t))
    else pure (.namedM (← p.toNat?) (← unesc n) (← parseGTy t))
  -- the same with the methods declared on the pointer: still a declared type with declared methods
  | .list (.atom "nmp" :: .atom p :: .atom n :: t :: ms) => do
    if ms.isEmpty then pure (.named (← p.toNat?) (← unesc n) (← parseGTy t))
    else pure (.namedM (← p.toNat?) (← unesc n) (← parseGTy t))
  | .list (.atom "if" :: ms) => do
    pure (.ifaceM (← (← atomsOf' ms).mapM unesc))
  | .list [.atom "p", t] => (parseGTy t).map .ptr
  | .list [.atom "sl", t] => (parseGTy t).map .slice
  | .list [.atom "ch", t] => (parseGTy t).map .chan
  | .list [.atom "chr", t] => (parseGTy t).map .chanR
  | .list [.atom "chs", t] => (parseGTy t).map .chanS
  | .list [.atom "ar", .atom n, t] => do pure (.array (← n.toNat?) (← parseGTy t))
  | .list [.atom "m", k, v] => do pure (.map (← parseGTy k) (← parseGTy v))
  | .list (.atom "st" :: fs) => (parseGFields fs).map .struct
  | .list (.atom "stt" :: .atom tag :: fs) => do pure (.structT (← unesc tag) (← parseGFields fs))
  | _ => none
partial def parseGFields : List SExp → Option GTy
  | [] => some .fnil
  | f :: rest => do pure (.fcons (← parseGTy f) (← parseGFields rest))
end

def basicAtom (n : Name) : String :=
  let s := esc n
  match s with
  | "int8" => "i8" | "int16" => "i16" | "int32" => "i32" | "int64" => "i64"
  | "uint8" => "u8" | "uint16" => "u16" | "uint32" => "u32" | "uint64" => "u64"
  | "float32" => "f32" | "float64" => "f64" | "complex64" => "c64" | "complex128" => "c128"
  | s => s

/-- wire form with `,` instead of spaces -/
partial def showGTy : GTy → String
  | .basic n => basicAtom n
  | .named 1000 _ _ => "error"
  | .named p n u => s!"(nm,{p},{esc n},{showGTy u})"
  | .namedM p n u => s!"(nm,{p},{esc n},{showGTy u})"
  | .ptr t => s!"(p,{showGTy t})"
  | .slice t => s!"(sl,{showGTy t})"
  | .chan t => s!"(ch,{showGTy t})"
  | .chanR t => s!"(chr,{showGTy t})"
  | .chanS t => s!"(chs,{showGTy t})"
  | .array n t => s!"(ar,{n},{showGTy t})"
  | .map k v => s!"(m,{showGTy k},{showGTy v})"
  | .struct fs => "(st" ++ showFields fs ++ ")"
  | .structT tag fs => "(stt," ++ esc tag ++ showFields fs ++ ")"
  | .func => "func"
  | .iface => "iface"
  | .ifaceM ms => "(if" ++ "".intercalate (ms.map fun m => "," ++ esc m) ++ ")"
  | .fnil => "?"
  | .fcons _ _ => "?"
where showFields : GTy → String
  | .fcons t r => "," ++ showGTy t ++ showFields r
  | _ => ""

def showTyps (ts : List GTy) : String := "[" ++ ",".intercalate (ts.map showGTy) ++ "]"

/-- all (pkg, name) ↦ underlying bindings of named types inside a type; the wire is rejected when one
pair is bound to two different underlying types (the terms would not be canonical) -/
partial def namedBindings : GTy → List ((Nat × Name) × GTy)
  | .named p n u => ((p, n), u) :: namedBindings u
  | .namedM p n u => ((p, n), u) :: namedBindings u
  | .ptr t | .slice t | .chan t | .chanR t | .chanS t | .array _ t | .struct t | .structT _ t => namedBindings t
  | .map k v => namedBindings k ++ namedBindings v
  | .fcons t r => namedBindings t ++ namedBindings r
  | _ => []

def consistent (ts : List GTy) : Bool :=
  let bs := ts.flatMap namedBindings
  bs.all fun (k, u) => bs.all fun (k', u') => k != k' || u == u'

def parseTyps (xs : List SExp) : Option (List GTy) := xs.mapM parseGTy

def R := GTy.rel

def bool01 : String → Option Bool
  | "0" => some false | "1" => some true | _ => none

def atomsOf : List SExp → Option (List String)
  | [] => some []
  | .atom a :: r => (atomsOf r).map (a :: ·)
  | _ => none

def parseCfg : SExp → Option Cfg
  | .list [.atom "cfg", .atom pfx, .list res, .atom a, .atom d] => do
    let rs ← (← atomsOf res).mapM unesc
    pure { pfx := ← unesc pfx, reserved := rs, autoname := ← bool01 a, dedup := ← bool01 d }
  | _ => none

def showErr : Err → String
  | .duplicate h w => s!"err:dup:{esc h}:{esc w}"
  | .conflict n => s!"err:conflict:{esc n}"

/-- one op of a `tm` line: answer and next table; `none` = malformed -/
def tmOp (c : Cfg) (t : Table GTy) : SExp → Option (String × Table GTy × List GTy)
  | .list (.atom "set" :: .atom n :: ts) => do
    let n ← unesc n; let ts ← parseTyps ts
    match setFuncName R c t n ts with
    | .ok (m, t') => pure (s!"ok:{esc m}", t', ts)
    | .error e => pure (showErr e, t, ts)
  | .list (.atom "get" :: ts) => do
    let ts ← parseTyps ts
    let (m, t') := getFuncName R c t ts
    pure (esc m, t', ts)
  | .list (.atom "gen" :: ts) => do
    let ts ← parseTyps ts
    match generating R t ts with
    | some t' => pure ("ok", t', ts)
    | none => pure ("panic", t, ts)
  | .list [.atom "togen"] => some ("{" ++ "".intercalate ((toGenerate R t).map showTyps) ++ "}", t, [])
  | .list [.atom "done"] => some (toString (done R t), t, [])
  | .list (.atom "nameof" :: ts) => do
    let ts ← parseTyps ts
    pure ((match nameOf R t ts with | some n => esc n | none => "none"), t, ts)
  | .list (.atom "newname" :: ts) => do
    let ts ← parseTyps ts
    pure (esc (newName R c t ts), t, ts)
  | .list [.atom "names"] => some ("{" ++ ",".intercalate (t.names.map esc) ++ "}", t, [])
  | _ => none

def tmRun (c : Cfg) : Table GTy → List SExp → List String → List GTy → Option (List String × List GTy)
  | _, [], acc, seen => some (acc.reverse, seen)
  | t, op :: ops, acc, seen =>
    match tmOp c t op with
    | none => none
    | some (a, t', ts) => tmRun c t' ops (a :: acc) (ts ++ seen)

def runTm (args : List SExp) : String :=
  match args with
  | cfg :: ops =>
    match parseCfg cfg with
    | none => "bad-op"
    | some c =>
      match tmRun c {} ops [] [] with
      | none => "bad-op"
      | some (as, seen) => if consistent seen then "model=" ++ ";".intercalate as else "ill-typed"
  | _ => "bad-op"

def pairsOf : List SExp → Option (List (Name × Name))
  | [] => some []
  | .list [.atom a, .atom b] :: r => do pure ((← unesc a, ← unesc b) :: (← pairsOf r))
  | _ => none

def nodupB : List Name → Bool
  | [] => true
  | x :: xs => !xs.contains x && nodupB xs

def runSortPlugins (args : List SExp) : String :=
  match pairsOf args with
  | none => "bad-op"
  | some ps =>
    let s := sortPlugins ps
    let names := if nodupB (ps.map (·.2)) then ",".intercalate (s.map fun p => esc p.1) else "-"
    "model=" ++ ",".intercalate (s.map fun p => esc p.2) ++ "|" ++ names

def runDispatch (args : List SExp) : String :=
  match args with
  | .atom call :: pfxs =>
    match unesc call, (atomsOf pfxs).bind (·.mapM unesc) with
    | some call, some ps =>
      match dispatch (sortPrefixes ps) call with
      | some p => "model=" ++ esc p
      | none => "model=none"
    | _, _ => "bad-op"
  | _ => "bad-op"

/-! registration of a whole package -/

def acceptOf : String → Option (List GTy → Bool)
  | "equal" => some fun ts => match ts with
      | [_] => true
      | [a, b] => a == b
      | _ => false
  | "hash" => some fun ts => ts.length == 1
  | "one" => some fun ts => ts.length == 1
  | "two" => some fun ts => match ts with
      | [a, b] => a == b
      | _ => false
  | "any" => some fun _ => true
  | "some" => some fun ts => ts.length ≥ 1
  | _ => none

def parsePlugins : List SExp → Option (List (Name × Plugin GTy))
  | [] => some []
  | .list [.atom pfx, .atom kind] :: r => do
    let p ← unesc pfx; let a ← acceptOf kind
    pure ((asc kind, { pfx := p, accept := a }) :: (← parsePlugins r))
  | _ => none

def parseCalls : List SExp → Option (List (Call GTy))
  | [] => some []
  | .list (.atom "call" :: .atom n :: ts) :: r => do
    pure ({ name := ← unesc n, args := ← parseTyps ts } :: (← parseCalls r))
  | _ => none

def parseFiles : List SExp → Option (List (List (Call GTy)))
  | [] => some []
  | .list (.atom "file" :: cs) :: r => do pure ((← parseCalls cs) :: (← parseFiles r))
  | _ => none

/-- sort the plugin records with the model's `sortPlugins` (by prefix; records keyed by position) -/
def sortPluginRecs (ps : List (Name × Plugin GTy)) : List (Name × Plugin GTy) :=
  let keyed := (List.range ps.length).zip ps
  let sorted := sortPlugins (keyed.map fun (i, _, p) => (itoa i, p.pfx))
  sorted.filterMap fun (k, _) => (keyed.find? fun (i, _) => itoa i == k).map (·.2)

def showTable (pfx : Name) (t : Table GTy) : String :=
  esc pfx ++ "=" ++ ",".intercalate (t.entries.map fun (n, ts) => esc n ++ showTyps ts)

def showOptName : Option Name → String
  | some n => esc n
  | none => "-"

def runRegAll (args : List SExp) : String :=
  match args with
  | [.list (.atom "flags" :: .atom a :: .atom d :: res), .list (.atom "plugins" :: ps),
     .list (.atom "files" :: fs)] =>
    match bool01 a, bool01 d, (atomsOf res).bind (·.mapM unesc), parsePlugins ps, parseFiles fs with
    | some a, some d, some res, some ps, some files =>
      if !consistent (files.flatMap fun f => f.flatMap (·.args)) then "ill-typed" else
      let flags : Flags := { reserved := res, autoname := a, dedup := d }
      let sorted := sortPluginRecs ps
      let pls := sorted.map (·.2)
      match registerAll R flags pls files with
      | .panic => "model=panic"
      | .error (.add i e) =>
        let pfx := (pls[i]?.map (·.pfx)).getD []
        let cls := match e with | .duplicate _ _ => "dup" | .conflict _ => "conflict"
        s!"model=err:{cls}:{esc pfx}"
      | .error (.rejected i) =>
        let pfx := (pls[i]?.map (·.pfx)).getD []
        s!"model=err:rejected:{esc pfx}"
      | .ok (out, T) =>
        let names := ";".intercalate (out.map fun (ns, _) => ",".intercalate (ns.map showOptName))
        let changed := ",".intercalate (out.map fun (_, ch) => if ch then "1" else "0")
        let tabs := ";".intercalate ((List.range pls.length).zip pls |>.map fun (i, p) => showTable p.pfx (T i))
        s!"model=ok/{names}/{changed}/{tabs}"
    | _, _, _, _, _ => "bad-op"
  | _ => "bad-op"

/-! the import table of the printer (derive/printer.go NewImport; ASCII paths only) -/

def bytesOfString (s : String) : Name := s.toUTF8.toList.map (·.toNat)

def isLetterOrDigit (b : Nat) : Bool := plainByte b

def indexOfSub (pat : Name) : Name → Nat → Option Nat
  | [], _ => none
  | c :: cs, i => if pat.isPrefixOf (c :: cs) then some i else indexOfSub pat cs (i + 1)

/-- last index of `pat` in `s` -/
def lastIndexOf (pat s : Name) : Option Nat :=
  (List.range (s.length + 1)).foldl (fun acc i => if pat.isPrefixOf (s.drop i) then some i else acc) none

def unvendor (path : Name) : Name :=
  let path := match lastIndexOf (asc "/vendor/") path with
    | some i => path.drop (i + 8)
    | none => path
  if (asc "vendor/").isPrefixOf path then path.drop 7 else path

def makeFullpath (path : Name) : Name := path.map fun b => if plainByte b then b else 95

def importStep (tab : List (Name × Name)) (name path : Name) : Option (Name × List (Name × Name)) :=
  let path := unvendor path
  let full := makeFullpath path
  match tab.lookup name with
  | none => some (name, tab ++ [(name, path)])
  | some p =>
    if p == path then some (name, tab) else
    match tab.lookup full with
    | some p2 => if p2 != path then none else some (full, tab)
    | none => some (full, tab ++ [(full, path)])

def runImports (args : List SExp) : String :=
  match pairsOf args with
  | none => "bad-op"
  | some ps =>
    let rec go (tab : List (Name × Name)) (ps : List (Name × Name)) (acc : List String) : String :=
      match ps with
      | [] =>
        let sorted := tab.toArray.qsort (fun a b => ltBytes a.1 b.1) |>.toList
        "model=" ++ ",".intercalate acc.reverse ++ "|" ++ ",".intercalate (sorted.map fun (a, p) => esc a ++ "=" ++ esc p)
      | (n, p) :: rest =>
        match importStep tab n p with
        | none => "model=" ++ ",".intercalate acc.reverse ++ ",panic"
        | some (a, tab') => go tab' rest (esc a :: acc)
    go [] ps []

def runEffPrefixes (args : List SExp) : String :=
  match args with
  | [.atom p, .list (.atom "ov" :: ov)] =>
    match unesc p, pairsOf ov with
    | some p, some ov =>
      let pls := defaultPlugins.map fun (n, q) => (asc n, effectivePrefix p ov (asc n, asc q))
      let s := sortPlugins pls
      "model=" ++ ",".intercalate (s.map fun (n, q) => esc n ++ "=" ++ esc q)
    | _, _ => "bad-op"
  | _ => "bad-op"

def run (_s : DState) (name : String) (args : List SExp) : Option String :=
  match name with
  | "tm" => some (runTm args)
  | "eq" =>
    match args with
    | [.list a, .list b] =>
      match parseTyps a, parseTyps b with
      | some a, some b =>
        if !consistent (a ++ b) then some "ill-typed" else
        some s!"model={eqL R a b},{decide (a = b)}"
      | _, _ => some "bad-op"
    | _ => some "bad-op"
  | "sortplugins" => some (runSortPlugins args)
  | "dispatch" => some (runDispatch args)
  | "regall" => some (runRegAll args)
  | "rho" =>
    match args with
    | [.atom p, .atom n] =>
      match unesc p, unesc n with
      | some p, some n => some ("model=" ++ esc (rho p n))
      | _, _ => some "bad-op"
    | _ => some "bad-op"
  | "effprefixes" => some (runEffPrefixes args)
  | "defaultplugins" =>
    some ("model=" ++ ",".intercalate (defaultPlugins.map fun (n, p) => n ++ "=" ++ p))
  | "imports" => some (runImports args)
  | "reservedwords" => some ("model=" ++ ",".intercalate reservedWordStrings)
  | "unvendor" =>
    match args with
    | [.atom a] => match unesc a with
      | some n => some ("model=" ++ esc (unvendor n))
      | none => some "bad-op"
    | _ => some "bad-op"
  | _ => none

end OpsGen
