/-
Line-protocol driver (core-only `lean_exe`): the harness pipes the same op lines to the real emitted
code and to this program and diffs the answers.

  decl <flags> <ty>            declares the next named type (index = order); flags: letters e p or -
  ty <name> <ty>               binds a type name
  op <id> <opname> <args…>     → prints "<id> <answer>"
-/
import GoderiveModel.U.Wire
import Driver.State
import Driver.OpsLists
import Driver.OpsFuncs
import Driver.OpsMem
import Driver.OpsConc
import Driver.OpsCopy
import Driver.OpsGen
import Driver.OpsGoString
import Driver.OpsReq
import Driver.OpsOrder
import Driver.OpsRegen
import GoderiveModel.U.Typing
import GoderiveModel.S.Equal
import GoderiveModel.Spec.StructEq
import GoderiveModel.S.Compare
import GoderiveModel.S.Hash
import GoderiveModel.Spec.Order
import GoderiveModel.S.Methods
import GoderiveModel.Spec.StructEqM

open Goderive

def argsConsistent (args : List SExp) : Bool :=
  heapConsistent ((args.filterMap parseVal).flatMap objs)

def runOpCore (s : DState) (name : String) (args : List SExp) : String :=
  let env := s.env
  if !argsConsistent args then "ill-formed-heap" else
  match args with
  | t :: vs =>
    match lookupTy s t, vs.mapM parseVal with
    | some T, some vals =>
      if !(vals.all (hasType env T)) then "ill-typed" else
      match name, vals with
      -- on environments without user methods the M models / specs are the plain ones (Props/C02c)
      | "equal", [x, y] => s!"model={showRes (EqualM.top env T x y)} spec={Spec.structEqTopM env T x y}"
      | "equalc", [x, y] => s!"model={showRes (EqualM.top env T x y)} spec={Spec.structEqTopM env T x y}"
      | "equalf", [x, y] => s!"model={showRes (EqualM.field env T x y)} spec={Spec.structEqM env T x y}"
      | "compare", [x, y] =>
        if !mentionsMethods env T then s!"model={showResI (Compare.top env T x y)} spec={Spec.cmpVal x y}"
        else s!"model={showResI (CompareM.top env T x y)}"
      | "comparec", [x, y] =>
        if !mentionsMethods env T then s!"model={showResI (Compare.top env T x y)} spec={Spec.cmpVal x y}"
        else s!"model={showResI (CompareM.top env T x y)}"
      | "comparef", [x, y] =>
        if !mentionsMethods env T then s!"model={showResI (Compare.field env T x y)} spec={Spec.cmpVal x y}"
        else s!"model={showResI (CompareM.field env T x y)}"
      -- consistency of Compare with Equal: `cmp == 0` iff Equal (the emitted functions on the Go side)
      | "cmpeq", [x, y] | "cmpeqv", [x, y] =>
        let c := CompareM.top env T x y
        let e := EqualM.top env T x y
        let m := match c, e with
          | .ok c, .ok e => toString ((c == 0) == e)
          | _, _ => "panic"
        s!"model={m} spec=true"
      -- the curried form agrees with the binary form (one function in the model; two emitted functions in Go)
      | "cmpcb", [x, y] =>
        let m := match CompareM.top env T x y with
          | .ok _ => "true"
          | _ => "panic"
        s!"model={m} spec=true"
      | "hash", [x] => s!"model={showResU (HashM.top env T x)}"
      | "hashf", [x] => s!"model={showResU (HashM.field env T x)}"
      -- Equal ⇒ same hash, on the emitted functions / on the models
      | "hasheq", [x, y] =>
        let m := match EqualM.top env T x y, HashM.top env T x, HashM.top env T y with
          | .ok e, .ok hx, .ok hy => toString (!e || hx == hy)
          | _, _, _ => "panic"
        s!"model={m} spec=true"
      | _, _ => "bad-op"
    | _, _ => "bad-op"
  | _ => "bad-op"

def runOp (s : DState) (name : String) (args : List SExp) : String :=
  if let some r := OpsReq.run s name args then r else
  if let some r := OpsOrder.run s name args then r else
  if let some r := OpsRegen.run s name args then r else
  match OpsLists.run s name args with
  | some r => r
  | none =>
  match OpsFuncs.run s name args with
  | some r => r
  | none =>
  match OpsMem.run s name args with
  | some r => r
  | none =>
  match OpsConc.run s name args with
  | some r => r
  | none =>
  match OpsCopy.run s name args with
  | some r => r
  | none =>
  match OpsGen.run s name args with
  | some r => r
  | none =>
  match OpsGoString.run s name args with
  | some r => r
  | none => runOpCore s name args

def step (s : DState) (line : String) : DState × Option String :=
  match SExp.parseAll (SExp.tokenize line) with
  | none => (s, some "bad-line")
  | some [] => (s, none)
  | some (.atom "decl" :: .atom flags :: [t]) =>
    match parseTy t with
    | some T =>
      let mask := (flags.toList.dropWhile (· != 'm')).drop 1 |>.takeWhile (fun c => c == '0' || c == '1') |>.map (· == '1')
      let toks := flags.splitOn "."
      -- "Ei"/"Ci": the method takes an interface{}; the generator passes the pointer as for a pointer parameter
      let kind (p v : String) : Option UserFn :=
        if toks.contains p || toks.contains (String.ofList (p.toList.take 1) ++ "i") then some .ptr
        else if toks.contains v then some .val else none
      let d : Decl := { under := T, external := flags.contains 'e', priv := flags.contains 'p', privMask := mask,
                        eqM := kind "Ep" "Ev", cmpM := kind "Cp" "Cv", hashM := kind "Hp" "Hv",
                        copyM := kind "Dp" "Dv" }
      ({ s with decls := fixFlags (s.decls.push d) }, none)
    | none => (s, some "bad-decl")
  | some (.atom "ty" :: .atom n :: [t]) =>
    match parseTy t with
    | some T => ({ s with tys := (n, T) :: s.tys }, none)
    | none => (s, some "bad-ty")
  | some (.atom "op" :: .atom id :: .atom name :: args) =>
    (s, some s!"{id} {runOp s name args}")
  | some _ => (s, some "bad-line")

partial def loop (h : IO.FS.Stream) (out : IO.FS.Stream) (s : DState) : IO Unit := do
  let line ← h.getLine
  if line.isEmpty then return ()
  let (s', o) := step s line
  match o with
  | some str => out.putStrLn str
  | none => pure ()
  loop h out s'

def main : IO Unit := do
  let stdin ← IO.getStdin
  let stdout ← IO.getStdout
  loop stdin stdout {}
  stdout.flush
