/-
Line-protocol driver (core-only `lean_exe`): the harness pipes the same op lines to the real emitted
code and to this program and diffs the answers.

  decl <flags> <ty>            declares the next named type (index = order); flags: letters e p or -
  ty <name> <ty>               binds a type name
  op <id> <opname> <args…>     → prints "<id> <answer>"
-/
import GoderiveModel.U.Wire
import GoderiveModel.U.Typing
import GoderiveModel.S.Equal
import GoderiveModel.Spec.StructEq

open Goderive

structure DState where
  decls : Array Decl := #[]
  tys : List (String × Ty) := []
  deriving Inhabited

def DState.env (s : DState) : Env := { decls := s.decls.toList }

/-- recompute the `canEq` flags as a fixpoint (never trusted from the wire) -/
def fixFlags (ds : Array Decl) : Array Decl := Id.run do
  let mut cur := ds.map fun d => { d with canEq := true }
  for _ in [0:ds.size + 1] do
    let env : Env := { decls := cur.toList }
    cur := cur.map fun d => { d with canEq := canEqual env d.under }
  return cur

def showRes (r : Res Bool) : String :=
  match r with
  | .ok true => "true"
  | .ok false => "false"
  | .panic => "panic"

def lookupTy (s : DState) (e : SExp) : Option Ty :=
  match e with
  | .atom a => match s.tys.lookup a with
    | some t => some t
    | none => parseTy e
  | _ => parseTy e

def argsConsistent (args : List SExp) : Bool :=
  heapConsistent ((args.filterMap parseVal).flatMap objs)

def runOp (s : DState) (name : String) (args : List SExp) : String :=
  let env := s.env
  if !argsConsistent args then "ill-formed-heap" else
  match name, args with
  | "equal", [t, x, y] =>
    match lookupTy s t, parseVal x, parseVal y with
    | some T, some x, some y =>
      if !(hasType env T x && hasType env T y) then "ill-typed"
      else
        let m := Equal.top env T x y
        let sp := Spec.structEq env T x y
        s!"model={showRes m} spec={sp}"
    | _, _, _ => "bad-op"
  | "equalc", [t, x, y] =>     -- one-argument curried form: same body
    match lookupTy s t, parseVal x, parseVal y with
    | some T, some x, some y =>
      if !(hasType env T x && hasType env T y) then "ill-typed"
      else s!"model={showRes (Equal.top env T x y)} spec={Spec.structEq env T x y}"
    | _, _, _ => "bad-op"
  | "equalf", [t, x, y] =>     -- the same component compared as a field
    match lookupTy s t, parseVal x, parseVal y with
    | some T, some x, some y =>
      if !(hasType env T x && hasType env T y) then "ill-typed"
      else s!"model={showRes (Equal.field env T x y)} spec={Spec.structEq env T x y}"
    | _, _, _ => "bad-op"
  | _, _ => "bad-op"

def step (s : DState) (line : String) : DState × Option String :=
  match SExp.parseAll (SExp.tokenize line) with
  | none => (s, some "bad-line")
  | some [] => (s, none)
  | some (.atom "decl" :: .atom flags :: [t]) =>
    match parseTy t with
    | some T =>
      let d : Decl := { under := T, external := flags.contains 'e', priv := flags.contains 'p' }
      ({ s with decls := fixFlags (s.decls.push d) }, none)
    | none => (s, some "bad-decl")
  | some (.atom "ty" :: .atom n :: [t]) =>
    match parseTy t with
    | some T => ({ s with tys := (n, T) :: s.tys }, none)
    | none => (s, some "bad-ty")
  | some (.atom "op" :: .atom id :: .atom name :: args) =>
    (s, some s!"{id} {runOp s name args}")
  | some _ => (s, some "bad-line")

partial def loop (h : IO.FS.Stream) (out : IO.FS.Stream) (s : DState) : IO Unit := do
  let line ← h.getLine
  if line.isEmpty then return ()
  let (s', o) := step s line
  match o with
  | some str => out.putStrLn str
  | none => pure ()
  loop h out s'

def main : IO Unit := do
  let stdin ← IO.getStdin
  let stdout ← IO.getStdout
  loop stdin stdout {}
  stdout.flush
