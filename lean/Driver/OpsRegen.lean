/-
Driver op of the pass / write / reload loop (`G/Reload`, property C07):

  op <id> regen (<call>…) (<row>…) (<old>…)
      call = (<name> <plugin> <text> (<arg>…))      arg = (k <type>) | (r <callee name>)
      row  = (<plugin> (<type>…) <result type>|x|g) what the plugin does for these argument types (x: Add fails,
                                                    g: Add accepts, Generate fails)
      old  = (<name> <result type>)                 derived.gen.go as the loader sees it before the run
    → model=<outcome of regen on old> scratch=<outcome of regen on the empty file> agree=<0|1>

All of name / plugin / text / type are natural numbers (vlib/regen.py numbers the identifiers, the call texts
and the Go types of a scenario). An outcome is `ok:none` (file removed), `ok:<name>:<argument type>.….:<result>,…`
(sorted by name), `error:AddError`, `error:GeneratorError`, `error:cannotgenerate`, `error:fuel`.

`agree=1` iff the theorems of Props/C07 force the two outcomes to be equal: the old file declares no
flowing callee (`regen_congr` against the empty file), or the from-scratch file F is a fixpoint of the pass
with nothing left undefined and the old file agrees with F on every flowing callee (`regen_one_pass`).

  op <id> regenall (<pkg>…) (<row>…)
      pkg = (<package> (<call>…) (<old>…))         the packages of one invocation IN GENERATION ORDER (the order is the
                                                    answer of op `genorder`, model G/Order), each with its own old file;
                                                    function names are numbered across the packages
    → model=<package>=<outcome>;…                  per processed package what `Reload.invocation` leaves; the first
                                                    failing package is the last one listed (the run ends there)

The table must be closed: every (plugin, argument types) the loop can ask for — argument types ranging
over what the old file declares and what the rows can produce — has a row; otherwise the answer is
`incomplete=<plugin>:<type>,…;…` and nothing is computed (never a default).
-/
import GoderiveModel.U.Wire
import GoderiveModel.G.Reload
import Driver.State

open Goderive Goderive.Reload

namespace OpsRegen

def nat? : SExp → Option Nat
  | .atom a => a.toNat?
  | _ => none

def parseArg : SExp → Option Arg
  | .list [.atom "k", t] => (nat? t).map .known
  | .list [.atom "r", n] => (nat? n).map .resultOf
  | _ => none

def parseCall : SExp → Option Call
  | .list [n, p, t, .list as] => do
    let n ← nat? n; let p ← nat? p; let t ← nat? t
    let as ← as.mapM parseArg
    pure ⟨n, p, t, as⟩
  | _ => none

abbrev Row := (Nat × List Nat) × Gen

def parseRow : SExp → Option Row
  | .list [p, .list ts, r] => do
    let p ← nat? p
    let ts ← ts.mapM nat?
    match r with
    | .atom "x" => pure ((p, ts), .addFails)
    | .atom "g" => pure ((p, ts), .generateFails)
    | _ => let r ← nat? r; pure ((p, ts), .emits r)
  | _ => none

def parseOld : SExp → Option (Nat × Nat)
  | .list [n, r] => do let n ← nat? n; let r ← nat? r; pure (n, r)
  | _ => none

def genOf (rows : List Row) : GenFn := fun p ts => (rows.lookup (p, ts)).getD .addFails   -- total: the table is closed

/-- all the ways to pick one element from each list -/
def combos : List (List Nat) → List (List Nat)
  | [] => [[]]
  | xs :: rest => xs.flatMap fun x => (combos rest).map (x :: ·)

def possOf (poss : List (Nat × Nat)) (n : Nat) : List Nat :=
  (poss.filter (·.1 == n)).map (·.2)

/-- one round of the closure: the result types the rows give for the argument types known so far;
second component: the (plugin, argument types) without a row -/
def closeRound (calls : List Call) (rows : List Row) (poss : List (Nat × Nat)) :
    List (Nat × Nat) × List (Nat × List Nat) := Id.run do
  let mut poss := poss
  let mut missing : List (Nat × List Nat) := []
  for c in calls do
    let argss := c.args.map fun a => match a with
      | .known t => [t]
      | .resultOf g => possOf poss g
    for ts in combos argss do
      match rows.lookup (c.plugin, ts) with
      | none => if !missing.contains (c.plugin, ts) then missing := missing ++ [(c.plugin, ts)]
      | some (.emits r) => if !poss.contains (c.name, r) then poss := poss ++ [(c.name, r)]
      | some _ => pure ()
  return (poss, missing)

def closure (calls : List Call) (rows : List Row) (old : Derived) : List (Nat × List Nat) := Id.run do
  let mut poss : List (Nat × Nat) := old
  let mut missing : List (Nat × List Nat) := []
  for _ in [0:calls.length + 2] do
    let (p, m) := closeRound calls rows poss
    poss := p
    for x in m do
      if !missing.contains x then missing := missing ++ [x]
  return missing

def insertBy (x : Fn) : List Fn → List Fn
  | [] => [x]
  | h :: t => if x.name ≤ h.name then x :: h :: t else h :: insertBy x t

def showFn (f : Fn) : String :=
  s!"{f.name}:" ++ ".".intercalate (f.ts.map toString) ++ ":" ++ (match f.result with | some r => toString r | none => "g")

def showOutcome : Except String (Option (List Fn)) → String
  | .ok none => "ok:none"
  | .ok (some d) => "ok:" ++ ",".intercalate ((d.foldr insertBy []).map showFn)
  | .error "Add Error" => "error:AddError"
  | .error "Generator Error" => "error:GeneratorError"
  | .error "cannot generate" => "error:cannotgenerate"
  | .error _ => "error:fuel"

/-- the hypotheses of `regen_congr` (against the empty file) or of `regen_one_pass` hold -/
def mustEqualScratch (gen : GenFn) (calls : List Call) (old : Derived) : Bool :=
  agreeOnB calls old [] ||
  match regen gen calls [] with
  | .ok (some regF) =>
    let F := fileOf regF
    (match pass gen F calls with
     | .ok (reg, []) => reg == regF
     | _ => false) && agreeOnB calls old F
  | _ => false

def parsePkg : SExp → Option (PkgRun × Derived)
  | .list [p, .list cs, .list os] => do
    let p ← nat? p
    let calls ← cs.mapM parseCall
    let old ← os.mapM parseOld
    pure (⟨p, calls⟩, old)
  | _ => none

def runAllOp (args : List SExp) : String :=
  match args with
  | [.list ps, .list rs] =>
    match ps.mapM parsePkg, rs.mapM parseRow with
    | some pkgs, some rows =>
      if rows.any (fun r => rows.lookup r.1 != some r.2) then "bad-op" else
      if (pkgs.map (·.1.id)).eraseDups.length != pkgs.length then "bad-op" else
      match closure (pkgs.flatMap (·.1.calls)) rows (pkgs.flatMap (·.2)) with
      | [] =>
        let res := invocation (genOf rows) (pkgs.map fun p => (p.1.id, p.2)) (pkgs.map (·.1))
        "model=" ++ ";".intercalate (res.map fun (p, o) => s!"{p}=" ++ showOutcome o)
      | missing =>
        "incomplete=" ++ ";".intercalate (missing.map fun (p, ts) => s!"{p}:" ++ ",".intercalate (ts.map toString))
    | _, _ => "bad-op"
  | _ => "bad-op"

def run (_ : DState) (name : String) (args : List SExp) : Option String :=
  if name == "regenall" then some (runAllOp args) else
  if name != "regen" then none else
  match args with
  | [.list cs, .list rs, .list os] =>
    match cs.mapM parseCall, rs.mapM parseRow, os.mapM parseOld with
    | some calls, some rows, some old =>
      -- a row given twice with different answers is not a function
      if rows.any (fun r => rows.lookup r.1 != some r.2) then some "bad-op" else
      match closure calls rows old with
      | [] =>
        let gen := genOf rows
        some s!"model={showOutcome (regen gen calls old)} scratch={showOutcome (regen gen calls [])} agree={if mustEqualScratch gen calls old then 1 else 0}"
      | missing =>
        some ("incomplete=" ++ ";".intercalate (missing.map fun (p, ts) => s!"{p}:" ++ ",".intercalate (ts.map toString)))
    | _, _, _ => some "bad-op"
  | _ => some "bad-op"

end OpsRegen
