/-
Driver ops of the "Lists" family (C13 / C14 / C17). `run` returns `none` for op names it does not own.

Op lines (`T` is a name bound by a `ty` line to the *element* / key type unless said otherwise):
  sort T <list>                 keys M <map>            (M bound to the map type)
  min|max T <list> <default>    min2|max2 T <a> <b>
  contains T <list> <item>      unique T <list>         set T <list>
  unionl|intersectl T <this> <that>                      (lists)
  unionm|intersectm T <this> <that>                      (map[T]struct{} values)
  filter|takewhile|all|any T <list> b<bits>              (scripted predicate: k-th call answers bit k)
  fmap F <list> <results>       (Fe / Fr bound to element / result type; k-th call returns results[k])
  fmaps F <string> <results>    (F bound to the result type)
  join T <list of lists>        joins string <list of strings>
  sortcmp T <list>   mincmp|maxcmp T <list> <default>   min2cmp|max2cmp T <a> <b>
                                (sort / min / max against the emitted Compare, decided on the Go side)
  containseq T <list> <item>    uniqueeq|seteq T <list>    unioneq|intersecteq T <this> <that>
                                (consistency of the emitted helpers with the emitted Equal, NaN allowed;
                                 decided on the Go side, the model answers `true`)

Answers have the form `A;B`: `A` is what the property specifies (compared with `spec=`), `B` is what
only the model fixes (nil-ness of results, the input as seen after an in-place call, which of
several Equal elements is returned, and an alias flag: `a` when the result shares its backing array
with the input, `f` when it is fresh memory — for fmap and join the flag is part of `A`: "inputs are
not modified" includes that the result is not a view of an input). Values are printed with `printVal` after erasing addresses and
spare capacity, map entries sorted by printed key, spaces replaced by `_`; `canonN` additionally
maps `-0` to `+0`, which makes it a canonical form of the Equal classes.
-/
import GoderiveModel.U.Wire
import GoderiveModel.U.Typing
import GoderiveModel.S.Lists
import GoderiveModel.Spec.Lists
import GoderiveModel.Spec.StructEq
import GoderiveModel.Spec.StructEqM
import GoderiveModel.Spec.Order
import Driver.State

open Goderive
open Goderive.Lists

namespace OpsLists

/-! ### canonical printing -/

def sortStrings (xs : List String) : List String :=
  (xs.toArray.qsort (fun a b => a < b)).toList

def normFlt (nz : Bool) (w b : Nat) : Nat := if nz && fltMag w b == 0 then 0 else b

def underscore (s : String) : String := s.map (fun c => if c == ' ' then '_' else c)

/-- insert a `pair` into a spine sorted by printed key (in the `_` spelling, as the Go side sorts) -/
partial def insertByKey (e : Val) : Val → Val
  | .scons h t =>
    match e, h with
    | .pair k _, .pair k' _ =>
      if underscore (printVal k) ≤ underscore (printVal k') then .scons e (.scons h t) else .scons h (insertByKey e t)
    | _, _ => .scons e (.scons h t)
  | s => .scons e s

partial def sortByKey : Val → Val
  | .scons e r => insertByKey e (sortByKey r)
  | s => s

/-- erase identity: addresses and spare capacity 0, map entries in printed-key order; `nz`: `-0 ↦ +0` -/
partial def erase (nz : Bool) : Val → Val
  | .flt w b => .flt w (normFlt nz w b)
  | .cplx w a b => .cplx w (normFlt nz w a) (normFlt nz w b)
  | .ptr _ v => .ptr 0 (erase nz v)
  | .slice _ _ es => .slice 0 0 (erase nz es)
  | .arr es => .arr (erase nz es)
  | .struct es => .struct (erase nz es)
  | .map _ es => .map 0 (sortByKey (erase nz es))
  | .pair k v => .pair (erase nz k) (erase nz v)
  | .scons h t => .scons (erase nz h) (erase nz t)
  | v => v

def canonWith (nz : Bool) (v : Val) : String :=
  underscore (printVal (erase nz v))

def canon (v : Val) : String := canonWith false v
def canonN (v : Val) : String := canonWith true v

def bracket (ss : List String) : String := "[" ++ ",".intercalate ss ++ "]"

/-- elements only (nil and empty both `[]`) -/
def showE (xs : List Val) : String := bracket (xs.map canon)
/-- a slice with its nil-ness -/
def showL (l : Sl) : String :=
  match l with
  | none => "nil"
  | some xs => showE xs
def nilness {α : Type} (l : Option α) : String := if l.isNone then "n" else "s"
def showSortedE (pr : Val → String) (xs : List Val) : String := bracket (sortStrings (xs.map pr))

/-- sort each maximal run of consecutive `eqv` elements by printed form (unstable sorts may order
Compare-equal elements either way) -/
def canonRuns (eqv : Val → Val → Bool) (xs : List Val) : List String :=
  let rec go (run : List String) (last : Option Val) (rest : List Val) (fuel : Nat) : List String :=
    match fuel, rest with
    | 0, _ => sortStrings run
    | _, [] => sortStrings run
    | fuel + 1, x :: r =>
      match last with
      | some y => if eqv y x then go (canon x :: run) (some x) r fuel
                  else sortStrings run ++ go [canon x] (some x) r fuel
      | none => go [canon x] (some x) r fuel
  go [] none xs (xs.length + 1)

/-! ### argument decoding -/

abbrev M := Except String

def getTyNamed (s : DState) (n : String) : M Ty :=
  match s.tys.lookup n with
  | some t => pure t
  | none =>
    match parseTy (.atom n) with
    | some t => pure t
    | none => throw "bad-op"

def getTy (s : DState) (e : SExp) : M Ty :=
  match e with
  | .atom a => getTyNamed s a
  | _ => throw "bad-op"

def getVal (env : Env) (T : Ty) (e : SExp) : M Val :=
  match parseVal e with
  | none => throw "bad-op"
  | some v => if hasType env T v then pure v else throw "ill-typed"

def getList (env : Env) (E : Ty) (e : SExp) : M Sl := do
  let v ← getVal env (.slice E) e
  match Sl.ofVal v with
  | some l => pure l
  | none => throw "ill-typed"

def getListOfLists (env : Env) (E : Ty) (e : SExp) : M (Option (List Sl)) := do
  let v ← getVal env (.slice (.slice E)) e
  match v with
  | .nilv => pure none
  | .slice _ _ es =>
    match es.toList.mapM Sl.ofVal with
    | some ls => pure (some ls)
    | none => throw "ill-typed"
  | _ => throw "ill-typed"

def getKeySet (env : Env) (K : Ty) (e : SExp) : M (Option (List Val)) := do
  let v ← getVal env (.map K (.struct .fnil)) e
  match mapKeySet v with
  | some m => pure m
  | none => throw "ill-typed"

/-- spare capacity of a wire slice value (0 for nil) -/
def getSpare (e : SExp) : Nat :=
  match parseVal e with
  | some (.slice _ sp _) => sp
  | _ => 0

/-- "a": the result shares its backing array with the input, "f": fresh memory -/
def aliasFlag (b : Bool) : String := if b then "a" else "f"

def getBits (e : SExp) : M (List Bool) :=
  match e with
  | .atom a =>
    match a.toList with
    | 'b' :: cs => if cs.all (fun c => c == '0' || c == '1') then pure (cs.map (· == '1')) else throw "bad-op"
    | _ => throw "bad-op"
  | _ => throw "bad-op"

def checkHeap (args : List SExp) : M Unit :=
  if heapConsistent ((args.filterMap parseVal).flatMap objs) then pure () else throw "ill-formed-heap"

def strBytes : Val → List Nat
  | .str bs => bs
  | _ => []

/-! ### executable specifications (independent of S/Lists) -/

def padBits (bits : List Bool) (n : Nat) : List Bool := bits ++ List.replicate n false

def specFilter (bits : List Bool) (xs : List Val) : List Val :=
  ((xs.zip (padBits bits xs.length)).filter (·.2)).map (·.1)

def specTakeWhile (bits : List Bool) (xs : List Val) : List Val :=
  ((xs.zip (padBits bits xs.length)).takeWhile (·.2)).map (·.1)

/-- the predicate is called on the elements in order up to and including the first one with answer `stop` -/
def specLogUntil (stop : Bool) (bits : List Bool) (xs : List Val) : List Val :=
  let zs := xs.zip (padBits bits xs.length)
  let k := (zs.takeWhile (fun z => z.2 != stop)).length
  xs.take (k + 1)

/-- the three-way verdict the order clauses refer to: the structural order `Spec.cmpVal`; for element types
that reach a declaration with its own methods "derived Compare" is the method-aware `CompareM.top`
(the clauses of C13 are relative to derived Compare, whose own correctness is C03) -/
def specCmp (env : Env) (E : Ty) : Val → Val → Int :=
  if mentionsMethods env E then fun a b => match CompareM.top env E a b with
    | .ok c => c
    | .panic => 0
  else Spec.cmpVal

/-- likewise the Equal verdict the clauses of C14 refer to -/
def specEq (env : Env) (E : Ty) : Val → Val → Bool :=
  if mentionsMethods env E then Spec.structEqTopM env E else Spec.structEq env E

def specSort (c : Val → Val → Int) (xs : List Val) : List String :=
  canonRuns (fun a b => c a b == 0) (xs.mergeSort (fun a b => c a b ≤ 0))

/-- an element that no other element precedes (`dir = 1`) / follows (`dir = -1`) -/
def specExtreme (c : Val → Val → Int) (dir : Int) (xs : List Val) (dflt : Val) : Val :=
  match xs.find? (fun m => xs.all (fun y => dir * c y m ≥ 0)) with
  | some m => m
  | none => dflt

/-! ### the ops -/

def names : List String :=
  ["sort", "keys", "min", "max", "min2", "max2", "contains", "unique", "set", "unionl", "intersectl",
   "unionm", "intersectm", "filter", "takewhile", "all", "any", "fmap", "fmaps", "join", "joins",
   "containseq", "uniqueeq", "seteq", "unioneq", "intersecteq",
   "sortcmp", "mincmp", "maxcmp", "min2cmp", "max2cmp"]

def ans (model spec : String) : String := s!"model={model} spec={spec}"

def runM (s : DState) (name : String) (args : List SExp) : M String := do
  let env := s.env
  checkHeap args
  match name, args with
  | "sort", [t, l] =>
    let E ← getTy s t
    let xs ← getList env E l
    match sortLessM env E with
    | none => pure (ans "unsupported" "unsupported")
    | some less =>
      let eqv := fun a b => !resTrue (less a b) && !resTrue (less b a)
      let spec := bracket (specSort (specCmp env E) xs.elems)
      let model := match Lists.sort insertionSort less xs with
        | .panic => "panic"
        | .ok out => bracket (canonRuns eqv out.elems) ++ ";" ++ nilness out ++ "," ++ bracket (canonRuns eqv out.elems)
            ++ "," ++ aliasFlag (out.isSome && viewAliases xs.elems.length (getSpare l))
      pure (ans model spec)
  | "keys", [t, m] =>
    let T ← getTy s t
    let v ← getVal env T m
    let spec := match v with
      | .map _ es => showSortedE canon (mapKeys es)
      | _ => "[]"
    let model := match Lists.keys id v with
      | .panic => "panic"
      | .ok out => showSortedE canon out.elems ++ ";" ++ nilness out
    pure (ans model spec)
  | "min", [t, l, d] | "max", [t, l, d] =>
    let E ← getTy s t
    let xs ← getList env E l
    let dv ← getVal env E d
    let isMin := name == "min"
    let r := if isMin then minList (minLtM env E) xs dv else minList (maxGtM env E) xs dv
    let spec := canonN (specExtreme (specCmp env E) (if isMin then 1 else -1) xs.elems dv)
    let model := match r with
      | .panic => "panic"
      | .ok m => canonN m ++ ";" ++ canon m
    pure (ans model spec)
  | "min2", [t, a, b] | "max2", [t, a, b] =>
    let E ← getTy s t
    let av ← getVal env E a
    let bv ← getVal env E b
    let isMin := name == "min2"
    let r := if isMin then min2 (minLtM env E) av bv else min2 (maxGtM env E) av bv
    -- the two-value forms return the second argument on a tie
    let spec := canonN (specExtreme (specCmp env E) (if isMin then 1 else -1) [bv, av] bv)
    let model := match r with
      | .panic => "panic"
      | .ok m => canonN m ++ ";" ++ canon m
    pure (ans model spec)
  | "contains", [t, l, x] =>
    let E ← getTy s t
    let xs ← getList env E l
    let xv ← getVal env E x
    let spec := toString (Spec.containsBy (specEq env E) xs.elems xv)
    let model := match contains (elemEqM env E) xv xs.elems with
      | .panic => "panic"
      | .ok b => toString b ++ ";"
    pure (ans model spec)
  | "unique", [t, l] =>
    let E ← getTy s t
    let xs ← getList env E l
    let useMap := uniqueUsesMapM env E
    let d := Spec.dedupFirst (specEq env E) xs.elems
    let spec := if useMap then showSortedE canonN d else showE d
    let model := match unique useMap id (uniqueHashM env E) (EqualM.top env E) xs with
      | .panic => "panic"
      | .ok (out, after) =>
        if useMap then
          showSortedE canonN out.elems ++ ";" ++ nilness out ++ "," ++ showSortedE canon out.elems ++ "," ++ showL after ++ ",f"
        else showE out.elems ++ ";" ++ nilness out ++ "," ++ showL after
          ++ "," ++ aliasFlag (out.isSome && viewAliases xs.elems.length (getSpare l))
    pure (ans model spec)
  | "set", [t, l] =>
    let E ← getTy s t
    let xs ← getList env E l
    -- the keys of a Go map are a set modulo `==`, whatever Equal method the key type declares
    let spec := showSortedE canonN (Spec.dedupFirst (Spec.structEq env E) xs.elems)
    let out := Lists.set xs
    pure (ans (showSortedE canonN out ++ ";s," ++ showSortedE canon out) spec)
  | "unionl", [t, a, b] =>
    let E ← getTy s t
    let this ← getList env E a
    let that ← getList env E b
    let spec := showE (Spec.unionBy (specEq env E) this.elems that.elems)
    let model := match unionList (elemEqM env E) this that with
      | .panic => "panic"
      | .ok out => showE out.elems ++ ";" ++ nilness out ++ "," ++ showL this ++ "," ++ showL that ++ ","
          ++ aliasFlag (out.isSome && this.isSome &&
              appendAliases this.elems.length (getSpare a) (out.elems.length - this.elems.length)) ++ "f"
    pure (ans model spec)
  | "intersectl", [t, a, b] =>
    let E ← getTy s t
    let this ← getList env E a
    let that ← getList env E b
    let spec := showE (Spec.intersectBy (specEq env E) this.elems that.elems)
    let model := match intersectList (elemEqM env E) this that with
      | .panic => "panic"
      | .ok out => showE out.elems ++ ";" ++ nilness out ++ ",ff"
    pure (ans model spec)
  | "unionm", [t, a, b] =>
    let K ← getTy s t
    let this ← getKeySet env K a
    let that ← getKeySet env K b
    let e := Spec.structEq env K
    let spec := showSortedE canonN (Spec.dedupFirst e (this.getD [] ++ that.getD []))
    let model := match unionMap id this that with
      | .panic => "panic"
      | .ok (out, after) =>
        showSortedE canonN (out.getD []) ++ ";" ++ nilness out ++ "," ++ showSortedE canon (out.getD [])
          ++ "," ++ nilness after ++ "," ++ showSortedE canon (after.getD [])
    pure (ans model spec)
  | "intersectm", [t, a, b] =>
    let K ← getTy s t
    let this ← getKeySet env K a
    let that ← getKeySet env K b
    let e := Spec.structEq env K
    let spec := showSortedE canonN (Spec.dedupFirst e (Spec.intersectBy e (this.getD []) (that.getD [])))
    let out := intersectMap id this that
    pure (ans (showSortedE canonN out ++ ";s," ++ showSortedE canon out) spec)
  -- consistency of the emitted helpers with the emitted Equal (evaluated on the Go side on the emitted
  -- functions themselves, values may hold NaN): the arguments are only type-checked here
  -- consistency of sort / min / max with the emitted Compare, decided on the Go side (element types whose
  -- own Compare method the model does not know): the arguments are only type-checked here
  | "sortcmp", [t, l] =>
    let E ← getTy s t
    let _ ← getList env E l
    pure (ans "true;" "true")
  | "mincmp", [t, l, d] | "maxcmp", [t, l, d] =>
    let E ← getTy s t
    let _ ← getList env E l
    let _ ← getVal env E d
    pure (ans "true;" "true")
  | "min2cmp", [t, a, b] | "max2cmp", [t, a, b] =>
    let E ← getTy s t
    let _ ← getVal env E a
    let _ ← getVal env E b
    pure (ans "true;" "true")
  | "containseq", [t, l, x] =>
    let E ← getTy s t
    let _ ← getList env E l
    let _ ← getVal env E x
    pure (ans "true;" "true")
  | "uniqueeq", [t, l] | "seteq", [t, l] =>
    let E ← getTy s t
    let _ ← getList env E l
    pure (ans "true;" "true")
  | "unioneq", [t, a, b] | "intersecteq", [t, a, b] =>
    let E ← getTy s t
    let _ ← getList env E a
    let _ ← getList env E b
    pure (ans "true;" "true")
  | "filter", [t, l, b] =>
    let E ← getTy s t
    let xs ← getList env E l
    let bits ← getBits b
    let spec := showE (specFilter bits xs.elems) ++ "|" ++ showE xs.elems
    let model := match Lists.filter (Script.call false) xs { script := bits } with
      | .panic => "panic"
      | .ok ((out, after), st) =>
        showE out.elems ++ "|" ++ showE st.log ++ ";" ++ nilness out ++ "," ++ showL after
          ++ "," ++ aliasFlag (out.isSome && viewAliases xs.elems.length (getSpare l))
    pure (ans model spec)
  | "takewhile", [t, l, b] =>
    let E ← getTy s t
    let xs ← getList env E l
    let bits ← getBits b
    let spec := showE (specTakeWhile bits xs.elems) ++ "|" ++ showE (specLogUntil false bits xs.elems)
    let (out, st) := Lists.takeWhile (Script.call false) xs { script := bits }
    pure (ans (showE out.elems ++ "|" ++ showE st.log ++ ";" ++ nilness out ++ ",f") spec)
  | "all", [t, l, b] =>
    let E ← getTy s t
    let xs ← getList env E l
    let bits ← getBits b
    let spec := toString ((padBits bits xs.elems.length).take xs.elems.length |>.all id) ++ "|" ++ showE (specLogUntil false bits xs.elems)
    let (r, st) := Lists.all (Script.call false) xs.elems { script := bits }
    pure (ans (toString r ++ "|" ++ showE st.log ++ ";") spec)
  | "any", [t, l, b] =>
    let E ← getTy s t
    let xs ← getList env E l
    let bits ← getBits b
    let spec := toString ((padBits bits xs.elems.length).take xs.elems.length |>.any id) ++ "|" ++ showE (specLogUntil true bits xs.elems)
    let (r, st) := Lists.any (Script.call false) xs.elems { script := bits }
    pure (ans (toString r ++ "|" ++ showE st.log ++ ";") spec)
  | "fmap", [.atom f, l, rs] =>
    let E ← getTyNamed s (f ++ "e")
    let R ← getTyNamed s (f ++ "r")
    let xs ← getList env E l
    let res ← getList env R rs
    let spec := showE (res.elems.take xs.elems.length) ++ "|" ++ showE xs.elems ++ "|" ++ showL xs ++ "|f"
    let model := match Lists.fmap (Script.call zeroCell) xs { script := res.elems } with
      | .panic => "panic"
      | .ok (out, st) => showE out.elems ++ "|" ++ showE st.log ++ "|" ++ showL xs ++ "|f;" ++ nilness out
    pure (ans model spec)
  | "fmaps", [t, sv, rs] =>
    let R ← getTy s t
    let str ← getVal env (.basic .string) sv
    let res ← getList env R rs
    let runes := Spec.runes (strBytes str)
    let spec := showE (res.elems.take runes.length) ++ "|" ++ showE runes
    let model := match Lists.fmapString (Script.call zeroCell) (strBytes str) { script := res.elems } with
      | .panic => "panic"
      | .ok (out, st) => showE out.elems ++ "|" ++ showE st.log ++ ";" ++ nilness out
    pure (ans model spec)
  | "join", [t, ll] =>
    let E ← getTy s t
    let ls ← getListOfLists env E ll
    let showLL := match ls with
      | none => "nil"
      | some xs => bracket (xs.map showL)
    let spec := (match ls with
      | none => "n"
      | some xs => showE (xs.map Sl.elems).flatten) ++ "|" ++ showLL ++ "|f"
    let out := Lists.join ls
    let a := if ls.isNone then nilness out else showE out.elems
    pure (ans (a ++ "|" ++ showLL ++ "|f;" ++ nilness out) spec)
  | "joins", [_, l] =>
    let xs ← getList env (.basic .string) l
    let bss := xs.elems.map strBytes
    let spec := canon (.str bss.flatten) ++ "|" ++ showL xs
    pure (ans (canon (.str (joinStrings bss)) ++ "|" ++ showL xs ++ ";") spec)
  | _, _ => throw "bad-op"

def run (s : DState) (name : String) (args : List SExp) : Option String :=
  if names.contains name then
    match runM s name args with
    | .ok r => some r
    | .error e => some e
  else none

end OpsLists
