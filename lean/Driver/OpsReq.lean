/-
Driver ops of the helper-request model (`G/Requests`, property C01):

  op <id> reqs <plugin> <T>   → model=<the functions generated for the single call plugin(T): the closure of
                                 the helper requests, sorted, `|`-separated>
  op <id> req1 <plugin> <T>   → model=<the helper requests made while generating plugin(T), sorted, no repeats>

A function is printed as `plugin(type,…)` with the parameter types of the emitted Go function (equal,
compare, deepcopy: two; hash, clone, keys, sort and the curried forms: one) in a space-free spelling of the
wire types: `bool i8 … string`, `n<i>`, `*T`, `[]T`, `[N]T`, `map[K]V`, `struct{T;T}`. `int`/`int64` are
`i64`, `uint`/`uint64`/`uintptr` are `u64` (one basic kind each in `U/Ty`).
-/
import GoderiveModel.U.Wire
import GoderiveModel.G.Requests
import Driver.State

open Goderive Goderive.G.Requests

namespace OpsReq

def showBasic : Basic → String
  | .bool => "bool"
  | .int b s => (if s then "i" else "u") ++ toString b
  | .float b => "f" ++ toString b
  | .complex b => "c" ++ toString b
  | .string => "string"

def showTy : Ty → String
  | .basic b => showBasic b
  | .named i => "n" ++ toString i
  | .ptr t => "*" ++ showTy t
  | .slice t => "[]" ++ showTy t
  | .array n t => "[" ++ toString n ++ "]" ++ showTy t
  | .map k v => "map[" ++ showTy k ++ "]" ++ showTy v
  | .struct fs => "struct{" ++ showTy fs ++ "}"
  | .fnil => ""
  | .fcons t .fnil => showTy t
  | .fcons t r => showTy t ++ ";" ++ showTy r
  | .chan t => "chan(" ++ showTy t ++ ")"
  | .func => "func"
  | .iface => "iface"

def pluginOfName : String → Option Plugin
  | "equal" => some .equal | "equalc" => some .equalC
  | "compare" => some .compare | "comparec" => some .compareC
  | "keys" => some .keys | "sort" => some .sort
  | "deepcopy" => some .deepcopy | "clone" => some .clone | "hash" => some .hash
  | _ => none

/-- plugin name and number of parameters of the emitted function -/
def sigOf : Plugin → String × Nat
  | .equal => ("equal", 2) | .equalC => ("equal", 1)
  | .compare => ("compare", 2) | .compareC => ("compare", 1)
  | .keys => ("keys", 1) | .sort => ("sort", 1)
  | .deepcopy => ("deepcopy", 2) | .clone => ("clone", 1) | .hash => ("hash", 1)

def showKey (k : Key) : String :=
  let (n, a) := sigOf k.1
  let t := showTy k.2
  n ++ "(" ++ (if a == 2 then t ++ "," ++ t else t) ++ ")"

def showKeys (ks : List Key) : String :=
  let ss := (ks.map showKey).mergeSort (fun a b => decide (a ≤ b))
  "model=" ++ "|".intercalate ss

def run (s : DState) (name : String) (args : List SExp) : Option String :=
  if name != "reqs" && name != "req1" then none else
  match args with
  | [.atom p, t] =>
    match pluginOfName p, lookupTy s t with
    | some pl, some T =>
      let env := s.env
      if name == "req1" then some (showKeys (requests pl env T).eraseDups)
      else
        -- `closure env init`, with the universe computed once
        let U := keyUniverse env [(pl, T)]
        match closureStateU env U [(pl, T)] with
        | some st =>
          -- every registered code must denote a key of the universe (it does: `Props/C01r`)
          if st.keys.all (fun c => (dec U c).isSome) then some (showKeys (emittedKeys U st))
          else some "outside-universe"
        | none => some "fuel-exhausted"
    | _, _ => some "bad-op"
  | _ => some "bad-op"

end OpsReq
