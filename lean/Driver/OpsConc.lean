/-
Driver ops of the "Conc" family (tie T5 of C19 / C20). `run` returns `none` for op names it does not own.

  op <id> conc <system> <cfg> <event> <event> …

replays the step log of one execution of the rewritten emitted code (harness/vsched) on the layer-K
transition system of <system>: every logged step must be an ENABLED transition of the model WITH THE
SAME EFFECT (same value moved, same channel, a close observed where the model observes one, the right
goroutine acting), and the state reached at the end must be final.  Answer:
`model=ok steps=<transitions replayed> skipped=<prologue events validated>` or
`model=reject at=<event index> why=<reason>`.

  systems: fmap fmapch dup joinwg-chan joinwg-slice joinsel pipeline do
  cfg    : (cfg (ocap N) [(slice p…)] (ins (CAP item…) …))  channel systems; slice (joinwg): positions as channel indices
           (cfg (n N) (vals v…) (errs e…) (pairs (a b) …))   do   (e = 0: nil error)
  event  : (kind g site g2 site2 object value)            all atoms, as printed by vsched.Event.String

The prologue of the called function (`make`, the first `go`, `return`) and the creation of environment
goroutines are not transitions of the LTS (it starts right after the call): `make` events are validated
against the configuration (capacity expression!), `go` events against the expected sites.
-/
import GoderiveModel.U.Wire
import Driver.State
import GoderiveModel.K.FmapChan
import GoderiveModel.K.Dup
import GoderiveModel.K.JoinWG
import GoderiveModel.K.JoinSelect
import GoderiveModel.K.Pipeline
import GoderiveModel.K.Do

open Goderive
open Goderive.K

namespace OpsConc

structure Ev where
  kind : String
  g : Nat
  site : String
  g2 : Nat
  site2 : String
  ch : String
  val : Nat
  deriving Repr

def parseEv : SExp → Option Ev
  | .list [.atom k, .atom g, .atom s, .atom g2, .atom s2, .atom ch, .atom v] => do
    let g ← g.toNat?
    let g2 ← g2.toNat?
    let v ← v.toNat?
    some { kind := k, g := g, site := s, g2 := g2, site2 := s2, ch := ch, val := v }
  | _ => none

def natList : List SExp → Option (List Nat)
  | [] => some []
  | .atom a :: rest => do
    let n ← a.toNat?
    let r ← natList rest
    some (n :: r)
  | _ => none

structure ChanCfg where
  ocap : Nat
  ins : List (Nat × List Nat)
  /-- joinwg only: the positions handed to the emitted function, as indices into `ins` (a channel may repeat);
  `none` = every channel once, in order -/
  slice : Option (List Nat) := none
  /-- joinsel only: channel arguments that are nil at run time -/
  nils : List Nat := []

def parseIns : List SExp → Option (List (Nat × List Nat))
  | [] => some []
  | .list (.atom c :: items) :: rest => do
    let c ← c.toNat?
    let it ← natList items
    let r ← parseIns rest
    some ((c, it) :: r)
  | _ => none

def itemsOf' (ins : List (Nat × List Nat)) (i : Nat) : List Nat :=
  match ins[i]? with
  | some p => p.2
  | none => []

def parseChanCfg : SExp → Option ChanCfg
  | .list [.atom "cfg", .list [.atom "ocap", .atom oc], .list (.atom "ins" :: ins)] => do
    let oc ← oc.toNat?
    let ins ← parseIns ins
    some { ocap := oc, ins := ins }
  | .list [.atom "cfg", .list [.atom "ocap", .atom oc], .list (.atom "slice" :: sl), .list (.atom "ins" :: ins)] => do
    let oc ← oc.toNat?
    let ins ← parseIns ins
    let sl ← natList sl
    if sl.all (· < ins.length) then some { ocap := oc, ins := ins, slice := some sl } else none
  | .list [.atom "cfg", .list [.atom "ocap", .atom oc], .list (.atom "nils" :: ns), .list (.atom "ins" :: ins)] => do
    let oc ← oc.toNat?
    let ins ← parseIns ins
    let ns ← natList ns
    if ns.all (fun i => i < ins.length && (itemsOf' ins i).isEmpty) then some { ocap := oc, ins := ins, nils := ns } else none
  | _ => none

def parsePairs : List SExp → Option (List (Nat × Nat))
  | [] => some []
  | .list [.atom a, .atom b] :: rest => do
    let a ← a.toNat?
    let b ← b.toNat?
    let r ← parsePairs rest
    some ((a, b) :: r)
  | _ => none

structure DoCfg where
  n : Nat
  vals : List Nat
  errs : List Nat
  pairs : List (Nat × Nat)

def parseDoCfg : SExp → Option DoCfg
  | .list [.atom "cfg", .list [.atom "n", .atom n], .list (.atom "vals" :: vs), .list (.atom "errs" :: es),
           .list (.atom "pairs" :: ps)] => do
    let n ← n.toNat?
    let vs ← natList vs
    let es ← natList es
    let ps ← parsePairs ps
    if vs.length = n ∧ es.length = n then some { n := n, vals := vs, errs := es, pairs := ps } else none
  | _ => none

/-- `"in3"` with prefix `"in"` ↦ 3 -/
def suffixNat (pre s : String) : Option Nat :=
  if s.startsWith pre then (s.drop pre.length).toNat? else none

def itemsOf (ins : List (Nat × List Nat)) (i : Nat) : List Nat :=
  match ins[i]? with
  | some p => p.2
  | none => []

def capOf (ins : List (Nat × List Nat)) (i : Nat) : Nat :=
  match ins[i]? with
  | some p => p.1
  | none => 0

/-- the user function of the fmap scenarios (harness/conc.F) -/
def userF (x : Nat) : Nat := 3 * x + 1

/-- the channel-valued user function of the fmapch scenarios on channel tags (harness/conc.FCh):
items ≥ 1000 are mapped to the nil channel (tag 999999) -/
def userFCh (x : Nat) : Nat := if x ≥ 1000 then 999999 else x

abbrev R := Except String

def need (b : Bool) (msg : String) : R Unit := if b then pure () else throw msg

/-- one model step with the effect check -/
def doStep {σ ℓ : Type} (m : Lts σ ℓ) (effect : σ → ℓ → Option Nat) (s : σ) (l : ℓ) (obs : Option Nat) : R σ :=
  if effect s l != obs then throw s!"effect-differs:model={effect s l}:impl={obs}"
  else match m.step s l with
    | some s' => pure s'
    | none => throw "transition-not-enabled-in-model"

-- result of interpreting one event: (state, true) = a transition was taken, (state, false) = a prologue event was validated

def envGo (e : Ev) (ok : List String) : R Unit :=
  need (e.kind == "go" && ok.any (fun p => e.site2.startsWith p)) s!"unexpected-go:{e.site}->{e.site2}"

-- ---------------------------------------------------------------- fmap

def fmapEv (c : FmapChan.Cfg) (s : FmapChan.State) (e : Ev) : R (FmapChan.State × Bool) := do
  let m := FmapChan.lts c
  let st (l : FmapChan.Label) (obs : Option Nat) : R (FmapChan.State × Bool) := do
    let s' ← doStep m FmapChan.effect s l obs
    pure (s', true)
  match e.kind, e.ch with
  | "make", "in" => need (e.val == c.cap) "cap-of-in"; pure (s, false)
  | "make", "fmap.out" => need (e.val == c.cap) "make-out-capacity-is-not-cap(in)"; pure (s, false)
  | "go", _ => envGo e ["prod0", "fmap#0", "cons0"]; pure (s, false)
  | "send", "in" => need (e.site == "prod0" && s.inp.cap > 0) "send-in"; st .pSend (some e.val)
  | "xfer", "in" => need (e.site == "prod0" && e.site2 == "fmap#0" && s.inp.cap == 0) "xfer-in"; st .pSend (some e.val)
  | "close", "in" => need (e.site == "prod0") "close-in"; st .pClose none
  | "recv", "in" => need (e.site == "fmap#0") "recv-in"; st .fRecv (some e.val)
  | "recvc", "in" => need (e.site == "fmap#0") "recvc-in"; st .fRecv none
  | "send", "fmap.out" => need (e.site == "fmap#0" && s.out.cap > 0) "send-out"; st .fSend (some e.val)
  | "xfer", "fmap.out" => need (e.site == "fmap#0" && e.site2 == "cons0" && s.out.cap == 0) "xfer-out"; st .cRecv (some e.val)
  | "recv", "fmap.out" => need (e.site == "cons0") "recv-out"; st .cRecv (some e.val)
  | "recvc", "fmap.out" => need (e.site == "cons0") "recvc-out"; st .cRecv none
  | "close", "fmap.out" => need (e.site == "fmap#0") "close-out"; st .fClose none
  -- lock-step environment: the consumer acknowledges every result to the producer on "ack" (environment-internal)
  | "xfer", "ack" => need (e.site == "cons0" && e.site2 == "prod0") "ack"; pure (s, false)
  | "make", _ => need (e.site == "main") "make-by-the-emitted-code"; pure (s, false)  -- result channels of a channel-valued f
  | _, _ => throw s!"unknown-event:{e.kind}:{e.ch}"

-- ---------------------------------------------------------------- dup

def dupEv (c : Dup.Cfg) (s : Dup.State) (e : Ev) : R (Dup.State × Bool) := do
  let m := Dup.lts c
  let st (l : Dup.Label) (obs : Option Nat) : R (Dup.State × Bool) := do
    let s' ← doStep m Dup.effect s l obs
    pure (s', true)
  match e.kind, e.ch with
  | "make", "in" => need (e.val == c.cap) "cap-of-in"; pure (s, false)
  | "make", "dup.cc1" => need (e.val == c.cap) "make-cc1-capacity-is-not-cap(c)"; pure (s, false)
  | "make", "dup.cc2" => need (e.val == c.cap) "make-cc2-capacity-is-not-cap(c)"; pure (s, false)
  | "go", _ => envGo e ["prod0", "dup#0", "cons0", "cons1"]; pure (s, false)
  | "send", "in" => need (e.site == "prod0" && s.inp.cap > 0) "send-in"; st .pSend (some e.val)
  | "xfer", "in" => need (e.site == "prod0" && e.site2 == "dup#0" && s.inp.cap == 0) "xfer-in"; st .pSend (some e.val)
  | "close", "in" => need (e.site == "prod0") "close-in"; st .pClose none
  | "recv", "in" => need (e.site == "dup#0") "recv-in"; st .dRecv (some e.val)
  | "recvc", "in" => need (e.site == "dup#0") "recvc-in"; st .dRecv none
  | "send", "dup.cc1" => need (e.site == "dup#0" && s.o1.cap > 0) "send-cc1"; st .dSend1 (some e.val)
  | "send", "dup.cc2" => need (e.site == "dup#0" && s.o2.cap > 0) "send-cc2"; st .dSend2 (some e.val)
  | "xfer", "dup.cc1" => need (e.site == "dup#0" && e.site2 == "cons0" && s.o1.cap == 0) "xfer-cc1"; st .c1Recv (some e.val)
  | "xfer", "dup.cc2" => need (e.site == "dup#0" && e.site2 == "cons1" && s.o2.cap == 0) "xfer-cc2"; st .c2Recv (some e.val)
  | "recv", "dup.cc1" => need (e.site == "cons0") "recv-cc1"; st .c1Recv (some e.val)
  | "recv", "dup.cc2" => need (e.site == "cons1") "recv-cc2"; st .c2Recv (some e.val)
  | "recvc", "dup.cc1" => need (e.site == "cons0") "recvc-cc1"; st .c1Recv none
  | "recvc", "dup.cc2" => need (e.site == "cons1") "recvc-cc2"; st .c2Recv none
  | "close", "dup.cc1" => need (e.site == "dup#0") "close-cc1"; st .dClose1 none
  | "close", "dup.cc2" => need (e.site == "dup#0") "close-cc2"; st .dClose2 none
  | _, _ => throw s!"unknown-event:{e.kind}:{e.ch}"

-- ---------------------------------------------------------------- joinwg (both forms; also inside pipeline)

/-- goroutine id ↦ forwarder index -/
abbrev Roles := List (Nat × Nat)

/-- which goroutine plays which role.  chan-of-chan form: the dispatcher is the first goroutine the function starts
(`join#0`), forwarders are `join#1`, and the dispatcher also waits and closes.  Slice form (since F103 the list is read
before the function returns): the CALLER (`main`) runs the loop — `wait.Add`, `go` — forwarders are `join#0`, and a
last goroutine `join#1` only waits and closes. -/
structure Sites where
  sp : String      -- who performs wait.Add / go
  fwd : String     -- forwarders
  waiter : String  -- who performs wait.Wait / close(out)

def chanSites : Sites := { sp := "join#0", fwd := "join#1", waiter := "join#0" }
def sliceSites : Sites := { sp := "main", fwd := "join#0", waiter := "join#1" }

/-- Interprets an event of the join stage.  `mid` is the name of the outer channel. -/
def joinEv (_c : JoinWG.Cfg) (st : Sites) (mid : String) (posOf : Nat → Nat) (s : JoinWG.State) (roles : Roles) (e : Ev) :
    R (Option (JoinWG.Label × Option Nat × Roles)) := do
  let some' (l : JoinWG.Label) (obs : Option Nat) : R (Option (JoinWG.Label × Option Nat × Roles)) :=
    pure (some (l, obs, roles))
  let fwd (g : Nat) : R Nat :=
    match roles.lookup g with
    | some i => pure i
    | none => throw s!"goroutine-{g}-is-not-a-forwarder"
  if e.ch == mid then
    match e.kind with
    | "recv" => need (e.site == st.sp) "recv-outer"; some' .spNext (some e.val)
    | "recvc" => need (e.site == st.sp) "recvc-outer"; some' .spNext none
    | _ => pure none
  else if e.ch == "join.wait" then
    match e.kind with
    | "add" => need (e.site == st.sp && e.val == 1) "wg-add"; some' .spAdd none
    | "done" => do let i ← fwd e.g; need (e.site == st.fwd) "wg-done"; some' (.fDone i) none
    | "wait" => need (e.site == st.waiter) "wg-wait"; some' .spWait none
    | _ => pure none
  else if e.ch == "join.out" then
    match e.kind with
    | "make" => pure none
    | "xfer" => do
      let i ← fwd e.g
      need (e.site == st.fwd && e.site2 == "cons0") "xfer-out"
      some' (.cTake i) (some e.val)
    | "recvc" => need (e.site == "cons0") "recvc-out"; some' .cSeeClose none
    | "close" => need (e.site == st.waiter) "close-out"; some' .spClose none
    | _ => throw s!"unexpected-on-out:{e.kind}"
  else if e.kind == "go" && e.site2 == st.fwd && e.site == st.sp then
    pure (some (.spGo, none, (e.g2, s.k) :: roles))
  else
    match suffixNat "in" e.ch with
    | some j =>
      let i := posOf j   -- channel j is listened to at the position of its first occurrence
      match e.kind with
      -- the producer of channel j: its own goroutine, or the single round-robin producer "rr" (one of the interleavings
      -- of the independent producers of the model)
      | "send" => need ((e.site == s!"prod{j}" || e.site == "rr") && (s.ch i).cap > 0) "send-in"; some' (.pSend i) (some e.val)
      | "xfer" => do
        let k ← fwd e.g2
        need ((e.site == s!"prod{j}" || e.site == "rr") && k == i && (s.ch i).cap == 0) "xfer-in"
        some' (.pSend i) (some e.val)
      | "close" => need (e.site == s!"prod{j}" || e.site == "rr") "close-in"; some' (.pClose i) none
      | "recv" => do let k ← fwd e.g; need (k == i) "recv-in-by-wrong-forwarder"; some' (.fRecv i) (some e.val)
      | "recvc" => do let k ← fwd e.g; need (k == i) "recvc-in-by-wrong-forwarder"; some' (.fRecv i) none
      | _ => pure none
    | none => pure none

/-- `tagOf p` = the channel at position p, `posOf j` = the first position of channel j, `capOfChan j` its capacity -/
def joinwgEv (c : JoinWG.Cfg) (tagOf posOf capOfChan : Nat → Nat) (nchan : Nat) (sr : JoinWG.State × Roles) (e : Ev) :
    R ((JoinWG.State × Roles) × Bool) := do
  let (s, roles) := sr
  let m := JoinWG.lts c
  -- a value moved over the OUTER channel is a channel: the model speaks of positions, the log of channel tags
  let outerStep (l : JoinWG.Label) (obs : Option Nat) (roles' : Roles) : R ((JoinWG.State × Roles) × Bool) := do
    let eff := JoinWG.effect c s l
    need (eff.map tagOf == obs) s!"outer-channel-carries-another-channel:model={eff.map tagOf}:impl={obs}"
    let s' ← doStep m (JoinWG.effect c) s l eff
    pure ((s', roles'), true)
  let st := if c.chanForm then chanSites else sliceSites
  match ← joinEv c st "outer" posOf s roles e with
  | some (.spNext, obs, roles') => outerStep .spNext obs roles'
  | some (l, obs, roles') =>
    let s' ← doStep m (JoinWG.effect c) s l obs
    pure ((s', roles'), true)
  | none =>
    match e.kind, e.ch with
    | "make", "outer" => need (c.chanForm && e.val == c.ocap) "make-outer"; pure (sr, false)
    | "make", "join.out" => need (e.val == 0) "make-out-is-not-unbuffered"; pure (sr, false)
    | "make", ch =>
      match suffixNat "in" ch with
      | some j => need (j < nchan && e.val == capOfChan j) "make-in"; pure (sr, false)
      | none => throw s!"unknown-make:{ch}"
    | "go", _ =>
      if !c.chanForm && e.site2 == "join#1" then
        -- slice form: the goroutine that waits and closes is started after the loop over the list
        need (e.site == "main" && s.pc == .wait) "waiter-started-before-the-list-was-read"; pure (sr, false)
      else envGo e ["prod", "rr", "oprod", "join#0", "cons0"]; pure (sr, false)
    | "send", "outer" => need (e.site == "oprod" && c.ocap > 0) "send-outer"; outerStep .oSend (some e.val) roles
    | "xfer", "outer" => need (e.site == "oprod" && e.site2 == "join#0" && c.ocap == 0) "xfer-outer"; outerStep .oSend (some e.val) roles
    | "close", "outer" => need (e.site == "oprod") "close-outer"; outerStep .oClose none roles
    | _, _ => throw s!"unknown-event:{e.kind}:{e.ch}"

-- ---------------------------------------------------------------- joinsel

def joinselEv (c : JoinSelect.Cfg) (s : JoinSelect.State) (e : Ev) : R (JoinSelect.State × Bool) := do
  let m := JoinSelect.lts c
  let st (l : JoinSelect.Label) (obs : Option Nat) : R (JoinSelect.State × Bool) := do
    let s' ← doStep m JoinSelect.effect s l obs
    pure (s', true)
  match e.kind, e.ch with
  | "make", "joinsel.out" => need (e.val == 0) "make-out-is-not-unbuffered"; pure (s, false)
  | "go", _ => envGo e ["prod", "rr", "joinsel#0", "cons0"]; pure (s, false)
  | "xfer", "joinsel.out" => need (e.site == "joinsel#0" && e.site2 == "cons0") "xfer-out"; st .cTake (some e.val)
  | "recvc", "joinsel.out" => need (e.site == "cons0") "recvc-out"; st .cSeeClose none
  | "close", "joinsel.out" => need (e.site == "joinsel#0") "close-out"; st .sClose none
  | "write", v =>
    match suffixNat "c" v with
    | some i => need (e.site == "joinsel#0") "write-ci"; st .sNil (some i)
    | none => throw s!"unknown-write:{v}"
  | k, ch =>
    match suffixNat "in" ch with
    | some i =>
      match k with
      | "make" => need (i < c.n && e.val == c.cap i) "make-in"; pure (s, false)
      | "send" => need ((e.site == s!"prod{i}" || e.site == "rr") && (s.ch i).cap > 0) "send-in"; st (.pSend i) (some e.val)
      | "xfer" => need ((e.site == s!"prod{i}" || e.site == "rr") && e.site2 == "joinsel#0" && (s.ch i).cap == 0) "xfer-in"; st (.pSend i) (some e.val)
      | "close" => need (e.site == s!"prod{i}" || e.site == "rr") "close-in"; st (.pClose i) none
      | "recv" => need (e.site == "joinsel#0") "recv-in"; st (.sRecv i) (some e.val)
      | "recvc" => need (e.site == "joinsel#0") "recvc-in"; st (.sRecv i) none
      | _ => throw s!"unknown-event:{k}:{ch}"
    | none => throw s!"unknown-event:{k}:{ch}"

-- ---------------------------------------------------------------- pipeline

def pipelineEv (c : Pipeline.Cfg) (sr : Pipeline.State × Roles) (e : Ev) : R ((Pipeline.State × Roles) × Bool) := do
  let (s, roles) := sr
  let m := Pipeline.lts c
  let st (l : Pipeline.Label) (obs : Option Nat) (roles' : Roles) : R ((Pipeline.State × Roles) × Bool) := do
    let s' ← doStep m (Pipeline.effect c) s l obs
    pure ((s', roles'), true)
  match ← joinEv (Pipeline.jcfg c) chanSites "fmap.out" id s.j roles e with
  | some (l, obs, roles') => st (.j l) obs roles'
  | none =>
    match e.kind, e.ch with
    | "make", "b" => need (e.val == c.bcap) "make-b"; pure (sr, false)
    | "make", "fmap.out" => need (e.val == c.bcap) "make-mid-capacity-is-not-cap(b)"; pure (sr, false)
    | "make", "join.out" => need (e.val == 0) "make-out-is-not-unbuffered"; pure (sr, false)
    | "make", ch =>
      match suffixNat "in" ch with
      | some i => need (e.site == "fmap#0" && i + 1 == s.created && e.val == c.cap i) "make-in"; pure (sr, false)
      | none => throw s!"unknown-make:{ch}"
    | "go", _ => envGo e ["prod", "bprod", "fmap#0", "join#0", "cons0"]; pure (sr, false)
    | "send", "b" => need (e.site == "bprod" && c.bcap > 0) "send-b"; st .bSend (some e.val) roles
    | "xfer", "b" => need (e.site == "bprod" && e.site2 == "fmap#0" && c.bcap == 0) "xfer-b"; st .bSend (some e.val) roles
    | "close", "b" => need (e.site == "bprod") "close-b"; st .bClose none roles
    | "recv", "b" => need (e.site == "fmap#0") "recv-b"; st .mRecv (some e.val) roles
    | "recvc", "b" => need (e.site == "fmap#0") "recvc-b"; st .mRecv none roles
    | "send", "fmap.out" => need (e.site == "fmap#0" && c.bcap > 0) "send-mid"; st .mSend (some e.val) roles
    | "xfer", "fmap.out" => need (e.site == "fmap#0" && e.site2 == "join#0" && c.bcap == 0) "xfer-mid"; st .mSend (some e.val) roles
    | "close", "fmap.out" => need (e.site == "fmap#0") "close-mid"; st .mClose none roles
    | _, _ => throw s!"unknown-event:{e.kind}:{e.ch}"

-- ---------------------------------------------------------------- do

def doEv (c : Do.Cfg) (sr : Do.State × Roles) (e : Ev) : R ((Do.State × Roles) × Bool) := do
  let (s, roles) := sr
  let m := Do.lts c
  let st (l : Do.Label) (roles' : Roles) : R ((Do.State × Roles) × Bool) := do
    match m.step s l with
    | some s' => pure ((s', roles'), true)
    | none => throw "transition-not-enabled-in-model"
  let worker (g : Nat) : R Nat :=
    match roles.lookup g with
    | some i => pure i
    | none => throw s!"goroutine-{g}-is-not-a-worker"
  match e.kind, e.ch with
  | "make", "do.errChan" => need (e.val == 0) "errChan-is-not-unbuffered"; pure (sr, false)
  | "make", _ => need (e.site == "main" && e.val == 0) "make"; pure (sr, false)
  | "go", _ =>
    match suffixNat "do#" e.site2, s.pc with
    | some i, .spawn k => need (e.site == "main" && i == k) "go-worker-out-of-order"; st .spawn ((e.g2, i) :: roles)
    | _, _ => throw s!"unexpected-go:{e.site2}"
  | "xfer", "do.errChan" => do
    let i ← worker e.g
    need (e.site2 == "main") "errChan-receiver"
    need (e.val == (match c.err i with | some x => x | none => 0)) "error-value-sent"
    st (.xfer i) roles
  | "xfer", ch =>
    match suffixNat "rv" ch with
    | some p => do
      let a ← worker e.g
      let b ← worker e.g2
      need (c.pairs[p]? == some (a, b)) "rendezvous-partners"
      st (.rv p) roles
    | none => throw s!"unknown-xfer:{ch}"
  | "write", v =>
    match suffixNat "v" v with
    | some i => do let j ← worker e.g; need (i == j) "write-by-wrong-worker"; st (.wr i) roles
    | none => throw s!"unknown-write:{v}"
  | "read", _ => need (e.site == "main") "read"; st .ret roles
  | _, _ => throw s!"unknown-event:{e.kind}:{e.ch}"

-- ---------------------------------------------------------------- replay loop

def replay {σ : Type} (f : σ → Ev → R (σ × Bool)) (fin : σ → Bool) (s0 : σ) (evs : List Ev) : String :=
  let rec go (s : σ) (evs : List Ev) (idx steps skipped : Nat) : String :=
    match evs with
    | [] => if fin s then s!"model=ok steps={steps} skipped={skipped}" else s!"model=reject at={idx} why=end-state-not-final"
    | e :: rest =>
      if e.kind == "panic" then s!"model=reject at={idx} why=implementation-panicked:{e.ch}" else
      match f s e with
      | .ok (s', true) => go s' rest (idx + 1) (steps + 1) skipped
      | .ok (s', false) => go s' rest (idx + 1) steps (skipped + 1)
      | .error msg => s!"model=reject at={idx} why={msg}:event={e.kind}:{e.site}:{e.ch}:{e.val}"
  go s0 evs 0 0 0

def mkFun {α : Type} (l : List α) (d : α) : Nat → α := fun i => match l[i]? with
  | some x => x
  | none => d

def runSys (sys : String) (cfg : SExp) (evs : List Ev) : String :=
  match sys with
  | "do" =>
    match parseDoCfg cfg with
    | some d =>
      let c : Do.Cfg := { n := d.n, val := mkFun d.vals 0,
                          err := fun i => match d.errs[i]? with
                            | some 0 => none
                            | some e => some e
                            | none => none,
                          pairs := d.pairs }
      let fin (sr : Do.State × Roles) : Bool :=
        sr.1.pc == .done &&
        (match sr.1.result with
         | some (vs, e) => vs == d.vals.map some &&
             (match e with
              | none => d.errs.all (· == 0)
              | some x => x != 0 && d.errs.contains x)
         | none => false)
      replay (doEv c) fin (Do.init c, []) evs
    | none => "bad-op"
  | _ =>
    match parseChanCfg cfg with
    | none => "bad-op"
    | some cc =>
      let n := cc.ins.length
      let items := itemsOf cc.ins
      let caps := capOf cc.ins
      match sys with
      | "fmap" =>
        if n != 1 then "bad-op" else
        let c : FmapChan.Cfg := { items := items 0, cap := caps 0, f := userF }
        replay (fmapEv c) (fun s => s.seen && s.pc == .done && s.got == (items 0).map userF) (FmapChan.init c) evs
      | "fmapch" =>
        if n != 1 then "bad-op" else
        let c : FmapChan.Cfg := { items := items 0, cap := caps 0, f := userFCh }
        replay (fmapEv c) (fun s => s.seen && s.pc == .done && s.got == (items 0).map userFCh) (FmapChan.init c) evs
      | "dup" =>
        if n != 1 then "bad-op" else
        let c : Dup.Cfg := { items := items 0, cap := caps 0 }
        replay (dupEv c) (fun s => s.seen1 && s.seen2 && s.pc == .done && s.got1 == items 0 && s.got2 == items 0)
          (Dup.init c) evs
      | "joinwg-chan" | "joinwg-slice" =>
        -- positions: the slice handed over (default: every channel once); a position whose channel occurred
        -- earlier is `seen` and has no items of its own
        let sl := cc.slice.getD (List.range n)
        let np := sl.length
        let tagOf := mkFun sl 0
        let seen (p : Nat) : Bool := (List.range p).any (fun q => tagOf q == tagOf p)
        let posOf (j : Nat) : Nat := (sl.findIdx? (· == j)).getD np
        let pitems (p : Nat) : List Nat := if seen p then [] else items (tagOf p)
        let c : JoinWG.Cfg := { n := np, items := pitems, cap := fun p => caps (tagOf p),
                                chanForm := sys == "joinwg-chan", ocap := if sys == "joinwg-chan" then cc.ocap else 0,
                                seen := seen }
        replay (joinwgEv c tagOf posOf caps n) (fun sr => sr.1.seen && sr.1.pc == .fin &&
          (List.range np).all (fun i => gotOf sr.1.got i == pitems i &&
            (if seen i then sr.1.st i == .skipped else sr.1.st i == .finished))) (JoinWG.init c, []) evs
      | "joinsel" =>
        let c : JoinSelect.Cfg := { n := n, items := items, cap := caps, nilIn := fun i => cc.nils.contains i }
        replay (joinselEv c) (fun s => s.seen && s.pc == .done &&
          (List.range n).all (fun i => gotOf s.got i == items i)) (JoinSelect.init c) evs
      | "pipeline" =>
        let c : Pipeline.Cfg := { n := n, bcap := cc.ocap, items := items, cap := caps }
        replay (pipelineEv c) (fun sr => sr.1.j.seen && sr.1.j.pc == .fin && sr.1.mpc == .done &&
          (List.range n).all (fun i => gotOf sr.1.j.got i == items i && sr.1.j.st i == .finished)) (Pipeline.init c, []) evs
      | _ => "bad-op"

def run (_s : DState) (name : String) (args : List SExp) : Option String :=
  if name != "conc" then none else
  match args with
  | .atom sys :: cfg :: evs =>
    match evs.mapM parseEv with
    | some es => some (runSys sys cfg es)
    | none => some "bad-op"
  | _ => some "bad-op"

end OpsConc
