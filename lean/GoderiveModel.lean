import GoderiveModel.U.Ty
import GoderiveModel.U.Val
