import GoderiveModel.U.Ty
import GoderiveModel.U.Val
import GoderiveModel.S.EqualSupported
import GoderiveModel.Lemmas.Equal
import GoderiveModel.Props.C02
