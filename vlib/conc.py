"""Shared machinery of C19 / C20 (layer K): T4 regenerated concurrency skeletons, T5 trace validation on
the virtual scheduler + replay on the Lean LTSs, real-runtime stress under the race detector."""
import hashlib
import json
import os
import re
import shutil
import subprocess
import time

from vlib import common

FACTS = os.path.join(common.LEAN, "GoderiveModel", "Generated", "ConcFacts.lean")
SKELETON = os.path.join(common.LEAN, "GoderiveModel", "K", "Skeleton.lean")
TARGETS = ["GoderiveModel.Props.C19", "GoderiveModel.Props.C20", "driver"]
CHANNEL_SYSTEMS = ["fmap", "fmapch", "dup", "joincc", "joinsc", "joinsel", "pipeline"]

TRUSTED = [
    "Go channel / WaitGroup / select semantics as stated in lean/GoderiveModel/K/Lts.lean and implemented by harness/vsched "
    "(buffered FIFO, unbuffered rendezvous as one joint step, receive on closed, panic on send-on-closed / double close); "
    "the Go memory model for the real-runtime runs (race detector)",
    "the translators that read the file goderive emitted on this run: skeleton extractor and rewriter onto vsched "
    "(harness/conc/rewrite, go/ast + go/types), and the event-to-label mapping of lean/Driver/OpsConc.lean",
    "environment model: producers send their items in order and close once; consumers keep receiving until they observe the close; "
    "Do's functions rendezvous pairwise on unbuffered channels in one global order and then return",
]


def _pairs(path):
    """(name, skeleton) pairs of a Lean file holding `("name", "skeleton")` string pairs."""
    if not os.path.exists(path):
        return {}
    src = open(path).read()
    return dict(re.findall(r'\(\s*"([A-Za-z0-9_]+)"\s*,\s*"((?:[^"\\]|\\.)*)"\s*\)', src))


def facts_hash():
    """Repo-tree hash recorded in Generated/ConcFacts.lean by genconc (None: absent / written by hand)."""
    if not os.path.exists(FACTS):
        return None
    m = re.search(r"^-- facts-of-repo-tree: (\S*)", open(FACTS).read(), flags=re.M)
    return m.group(1) if m else None


def write_neutral_facts():
    exp = _pairs(SKELETON)
    body = ",\n".join('  ("%s",\n   "%s")' % (n, exp[n]) for n in sorted(exp))
    src = ("/-\nNEUTRAL facts written by vlib/conc.py: the skeleton extraction failed on the tree under check, so T4 is NOT\n"
           "evaluated on this run (reported as such); this file repeats the expected skeletons so that the project builds.\n-/\n"
           "-- facts-of-repo-tree: none\nnamespace Goderive.Generated\n\ndef skeletons : List (String × String) := [\n"
           + body + "\n]\n\nend Goderive.Generated\n")
    tmp = FACTS + ".tmp"
    with open(tmp, "w") as f:
        f.write(src)
    os.replace(tmp, FACTS)


def prepare(rep):
    """Builds goderive + tools, regenerates the facts (T4) and the rewritten packages from the code
    goderive emits now, builds the two runner programs.  Returns a dict or None (violation recorded)."""
    tools = common.build_tools()
    d, binp = common.build_goderive()
    work = os.path.join(d, "conc-%s" % tools[-8:])
    info = {"work": work, "goderive": binp}
    with common.Lock("conc-" + os.path.basename(d)):
        p = common.sh([os.path.join(tools, "genconc"), "-goderive", binp, "-work", work + ".gen", "-harness", common.HARNESS,
                       "-lean", FACTS, "-repohash", common.repo_hash()], timeout=300)
        info["genconc_rc"], info["genconc_err"] = p.returncode, (p.stderr + p.stdout)[-3000:]
        info["novs"] = p.returncode == 5  # the emitted code cannot be mapped onto vsched: real-runtime search only
        info["facts_fresh"] = facts_hash() == common.repo_hash()
        if not info["facts_fresh"]:
            # no skeletons could be extracted from THIS tree (genconc rc 3/4): the facts file on disk belongs to another
            # tree.  Never compare stale facts: put the expected skeletons there (the Lean project then builds and the
            # theorems are audited); T4 is reported as "not evaluated" by the violation below, not as a difference.
            write_neutral_facts()
        if p.returncode != 0:
            what = {3: "goderive fails on / emits ill-typed code for the fixed package of concurrent combinators (T4 not evaluated)",
                    4: "the emitted code contains constructs the skeleton extractor does not cover (T4 not evaluated: no skeleton comparison on this run)",
                    5: "the emitted code cannot be mapped onto the virtual scheduler"}.get(p.returncode, "genconc failed")
            rep.violation("T4/T5 preparation: %s: %s" % (what, info["genconc_err"][-600:]),
                          {"correspondence": "T4/T5 genconc", "log": info["genconc_err"]}, False)
            if not info["novs"]:
                return None
        gen = work + ".gen"
        h = hashlib.sha256()
        for rel in ("concpkg/derived.gen.go", "concpkgb/derived.gen.go", "vs/concpkg/derived.gen.go",
                    "vs/concpkgb/derived.gen.go", "cmd/vsrun/main.go", "cmd/racerun/main.go"):
            if os.path.exists(os.path.join(gen, rel)):
                h.update(open(os.path.join(gen, rel), "rb").read())
        h.update(b"novs" if info["novs"] else b"vs")
        key = h.hexdigest()[:12]
        info["emitted_hash"] = key
        bind = os.path.join(d, "conc-bin-%s-%s" % (tools[-8:], key))
        info["bin"] = bind
        if not os.path.exists(os.path.join(bind, ".done")):
            os.makedirs(bind, exist_ok=True)
            p = common.sh(["go", "build", "-o", os.path.join(bind, "vsrun"), "./cmd/vsrun"], cwd=gen, timeout=900) \
                if not info["novs"] else subprocess.CompletedProcess([], 0, "", "")
            if p.returncode != 0:
                rep.violation("T5: the rewritten emitted code does not compile against vsched: " + p.stderr[-800:],
                              {"correspondence": "T5 rewrite", "log": p.stderr[-3000:]}, False)
                return None
            p = common.sh(["go", "build", "-race", "-o", os.path.join(bind, "racerun"), "./cmd/racerun"], cwd=gen, timeout=900)
            if p.returncode != 0:
                rep.violation("the emitted code of the fixed package does not compile: " + p.stderr[-800:],
                              {"cmd": "go build -race ./cmd/racerun", "log": p.stderr[-3000:]}, True)
                return None
            # the same two programs with the emitted packages compiled as a module that says `go 1.21` would be
            # (per-loop, not per-iteration, loop variables): code that is only correct under the go 1.22 semantics
            lang = ["-gcflags=concwork/...=-lang=go1.21"]
            if not info["novs"]:
                p = common.sh(["go", "build"] + lang + ["-o", os.path.join(bind, "vsrun21"), "./cmd/vsrun"], cwd=gen, timeout=900)
                info["lang21_err"] = p.stderr[-800:] if p.returncode != 0 else ""
            p = common.sh(["go", "build", "-race"] + lang + ["-o", os.path.join(bind, "racerun21"), "./cmd/racerun"], cwd=gen, timeout=900)
            if p.returncode != 0:
                info["lang21_err"] = p.stderr[-800:]
            open(os.path.join(bind, ".done"), "w").close()
            for x in os.listdir(d):
                if x.startswith("conc-bin-") and os.path.join(d, x) != bind:
                    shutil.rmtree(os.path.join(d, x), ignore_errors=True)
        info["gen"] = gen
        # conditional probe (C20): argument functions with a custom error result type
        ptxt = open(os.path.join(gen, "probe.txt")).read() if os.path.exists(os.path.join(gen, "probe.txt")) else "refused\n"
        info["probe"] = {"accepted": ptxt.startswith("accepted"), "goderive": ptxt[:400]}
        if info["probe"]["accepted"]:
            pp = common.sh(["go", "run", "."], cwd=os.path.join(gen, "probe"), timeout=600)
            info["probe"].update({"rc": pp.returncode, "out": (pp.stdout + pp.stderr)[-1500:]})
        info["skeletons"] = dict(l.rstrip("\n").split(" ", 1) for l in open(os.path.join(gen, "skeletons.txt")) if l.strip())
    return info


def proof_part(rep, prop):
    """common.proof_part with the build restricted to the layer-K targets (so that a half-edited file of
    another property cannot fail this check); distinguishes a skeleton mismatch (T4) from a broken proof."""
    orig = common.lean_build
    logs = {}

    def targeted(targets=None):
        ok, log = orig(TARGETS)
        logs["ok"], logs["log"] = ok, log
        return ok, log

    common.lean_build = targeted
    try:
        before = len(rep.violations)
        ok = common.proof_part(rep, prop, thorough_checker=(rep.tier == "thorough"))
    finally:
        common.lean_build = orig
    rep.cov["checker_cmd"] = ("cd lean && lake build %s && lake env lean .work/audit/%s.lean  "
                              "# #print axioms of every theorem in Props/%s.lean; skeleton_matches (T4) is decided in K/Skeleton.lean"
                              % (" ".join(TARGETS), prop, prop))
    rep.cov["trusted_base"] = list(common.TRUSTED_COMMON) + TRUSTED
    skel_err = any("error" in l and "K/Skeleton.lean" in l for l in logs.get("log", "").splitlines())
    if not logs.get("ok", True) and skel_err and facts_hash() not in (common.repo_hash(), None):
        rep.violations = rep.violations[:before]
        rep.violation("T4 not evaluated: Generated/ConcFacts.lean belongs to another tree (%s, under check: %s)" % (
            facts_hash(), common.repo_hash()), {"fact": "stale ConcFacts.lean"}, False)
    elif not logs.get("ok", True) and skel_err:
        # rewrite the generic message into the specific one
        gen, exp = _pairs(FACTS), _pairs(SKELETON)
        diff = [n for n in sorted(set(gen) | set(exp)) if gen.get(n) != exp.get(n)]
        what = ("T4: the channel-operation skeleton goderive emits now differs from the one the LTSs were written for "
                "(functions: %s); first: emitted=%s expected=%s" % (
                    ", ".join(diff) or "?", gen.get(diff[0], "<absent>")[:300] if diff else "?",
                    exp.get(diff[0], "<absent>")[:300] if diff else "?"))
        rep.violations = rep.violations[:before]
        rep.violation(what, {"fact": "K/Skeleton.lean skeleton_matches", "differing": diff,
                             "emitted": {n: gen.get(n) for n in diff}, "expected": {n: exp.get(n) for n in diff}}, False)
    return ok


def _run_vsrun(info, tier, seed, systems, out, timeout, maxsec=0, binname="vsrun"):
    shutil.rmtree(out, ignore_errors=True)
    os.makedirs(out)
    t = time.time()
    try:
        p = common.sh([os.path.join(info["bin"], binname), "-mode", tier, "-seed", str(seed), "-out", out,
                       "-systems", ",".join(systems), "-maxsec", str(maxsec)], timeout=timeout)
        rc, err = p.returncode, p.stderr
    except subprocess.TimeoutExpired:
        rc, err = -1, "timeout"
    return rc, err, round(time.time() - t, 1)


def sched_part(rep, info, systems, prop, tier=None, search_only=False, timeout=3000, maxsec=0, binname="vsrun", label=""):
    """T5: runs the rewritten emitted code on the virtual scheduler (random schedules, DFS, sleep-set DFS),
    checks the observable clauses on every execution (search) and replays every step log on the Lean
    LTS (correspondence)."""
    tier = tier or rep.tier
    out = os.path.join(info["work"] + ".run", "%s-%s-%d%s" % (prop, tier, rep.seed, binname[5:]))
    rc, err, secs = _run_vsrun(info, tier, rep.seed, systems, out, timeout, maxsec, binname)
    if rc != 0 and not os.path.exists(os.path.join(out, "summary.json")):
        if search_only:
            return 0
        raise common.CheckError("vsrun failed (rc=%s): %s" % (rc, err[-1500:]))
    summ = json.load(open(os.path.join(out, "summary.json")))
    found = 0
    bad_ids = set()
    for v in summ.get("violations") or []:
        found += 1
        rep.violation("schedule violating the property on the emitted code%s (%s): %s" % (
            label, v["replay"]["config"]["sys"], "; ".join(v["what"])[:600]),
            {"kind": "sched", "replay": v["replay"], "violated": v["what"], "trace": v["trace"], "binary": binname}, True)
        if found >= 5:
            break
    if search_only:
        rep.cov["evaluations"] += summ.get("executions", 0)
        if label:
            d = rep.cov.setdefault("lang_go1_21_runs", {"scheduler_executions": 0})
            d["scheduler_executions"] += summ.get("executions", 0)
        shutil.rmtree(out, ignore_errors=True)
        return found
    if summ.get("unmodelled_executions"):
        # two calls of one generated Do in flight: checked by the observable clauses only (outside the single-call LTS)
        rep.cov["unmodelled_executions"] = rep.cov.get("unmodelled_executions", 0) + summ["unmodelled_executions"]
        rep.cov["evaluations"] += summ["unmodelled_executions"]
    # replay on the Lean LTS
    t = time.time()
    with open(os.path.join(out, "ops.txt")) as fin, open(os.path.join(out, "model.txt"), "w") as fout:
        pr = subprocess.run([common.driver_path()], stdin=fin, stdout=fout, stderr=subprocess.PIPE, timeout=3600)
    if pr.returncode != 0:
        raise common.CheckError("Lean driver failed: " + pr.stderr.decode(errors="replace")[-1000:])
    cov = rep.cov
    ok = steps = skipped = 0
    rejected = []
    distinct = set()
    with open(os.path.join(out, "ops.txt")) as fo, open(os.path.join(out, "model.txt")) as fm, \
            open(os.path.join(out, "index.jsonl")) as fi:
        for op, lm, li in zip(fo, fm, fi):
            i, d = common.parse_kv(lm)
            if d.get("model") == "ok":
                ok += 1
                steps += int(d.get("steps", 0))
                skipped += int(d.get("skipped", 0))
                if "(xfer " in op or "(recv " in op:
                    distinct.add(hashlib.sha1(op.split(" ", 2)[2].encode()).digest()[:10])
            else:
                ent = json.loads(li)
                if ent.get("outcome") == "ok" or not found:
                    rejected.append((ent, lm.strip(), op))
    n = summ["executions"]
    if ok + len(rejected) != n and not found:
        raise common.CheckError("replay out of step: %d executions, %d answers" % (n, ok + len(rejected)))
    cov["evaluations"] += n
    cov["traces_validated_against_impl"] += ok
    cov["transitions"] = cov.get("transitions", 0) + steps
    cov["states"] = cov.get("states", 0) + steps + ok
    cov["prologue_events_validated"] = cov.get("prologue_events_validated", 0) + skipped
    cov["distinct_nontrivial"] += len(distinct)
    cov["disagreements_checked"] += n
    cov.setdefault("scheduler", {})
    tot = {"schedules_explored": 0, "configurations": 0, "dfs_configs_exhaustive": 0, "por_dfs_configs_exhaustive": 0,
           "dfs_configs": 0, "por_dfs_configs": 0}
    for sysname, st in summ["systems"].items():
        cov["scheduler"][sysname] = st
        tot["schedules_explored"] += st["random_schedules"] + st["dfs_schedules"] + st["por_dfs_schedules"]
        tot["configurations"] += st["distinct_configs"]
        for k in ("dfs_configs_exhaustive", "por_dfs_configs_exhaustive", "dfs_configs", "por_dfs_configs"):
            tot[k] += st[k]
    cov.update(tot)
    cov["exhaustive"] = False
    cov["exhaustive_note"] = ("%d of %d small configurations: ALL interleavings enumerated by DFS; %d of %d: all interleavings up to "
                              "commutation of independent steps (sleep sets); the theorems, not the enumeration, carry the "
                              "unbounded claim" % (tot["dfs_configs_exhaustive"], tot["dfs_configs"],
                                                   tot["por_dfs_configs_exhaustive"], tot["por_dfs_configs"]))
    cov["vsched_s"], cov["lean_replay_s"] = secs, round(time.time() - t, 1)
    for s in (summ.get("samples") or [])[:3]:
        cov["samples"].append({"kind": "T5 trace", "config": s["config"], "choices": s["choices"], "outcome": s["outcome"],
                               "trace": s["trace"][:60], "model": "ok"})
    if rejected and not found:
        ent, lm, op = rejected[0]
        rep.violation("correspondence T5 broken: %d step logs of the emitted code are not runs of the Lean LTS "
                      "(observable clauses still hold on them); first: %s" % (len(rejected), lm[:300]),
                      {"kind": "sched", "correspondence": "T5 " + ent["config"]["sys"],
                       "replay": {"config": ent["config"], "choices": ent["choices"], "por": ent.get("por", False)},
                       "model_answer": lm, "op": op.strip()[:4000]}, False)
    shutil.rmtree(out, ignore_errors=True)
    return found


def race_part(rep, info, systems, prop, tier=None, timeout=1500, maxsec=0, binname="racerun", label=""):
    """Real runtime: the unrewritten emitted code under the race detector, same scenarios, many
    repetitions with GOMAXPROCS varied; outcome checked against the same observable clauses."""
    tier = tier or rep.tier
    out = os.path.join(info["work"] + ".run", "%s-race-%s-%d%s" % (prop, tier, rep.seed, binname[7:]))
    shutil.rmtree(out, ignore_errors=True)
    os.makedirs(out)
    env = dict(common.GOENV)
    env["GORACE"] = "halt_on_error=0"
    t = time.time()
    try:
        p = common.sh([os.path.join(info["bin"], binname), "-mode", tier, "-seed", str(rep.seed), "-out", out,
                       "-systems", ",".join(systems), "-maxsec", str(maxsec)], env=env, timeout=timeout)
        rc, err = p.returncode, p.stderr
    except subprocess.TimeoutExpired:
        rc, err = -1, "timeout after %ds" % timeout
    found = 0
    cur = None
    if os.path.exists(os.path.join(out, "current.json")):
        try:
            cur = json.load(open(os.path.join(out, "current.json")))
        except ValueError:
            cur = None
    if "DATA RACE" in err:
        found += 1
        rep.violation("data race reported by the race detector in the emitted code: " + err[err.index("DATA RACE") - 20:][:900],
                      {"kind": "race", "replay": {"config": cur, "choices": []}, "report": err[-6000:]}, True)
    summ = None
    if os.path.exists(os.path.join(out, "race_summary.json")):
        summ = json.load(open(os.path.join(out, "race_summary.json")))
        for v in summ.get("violations") or []:
            found += 1
            rep.violation("real-runtime execution%s violating the property (%s): %s" % (label, v["config"]["sys"], "; ".join(v["what"])[:600]),
                          {"kind": "race", "replay": {"config": v["config"], "choices": []}, "violated": v["what"]}, True)
        rep.cov["evaluations"] += summ["executions"]
        key = "race_runs" if not label else "race_runs_lang_go1_21"
        rep.cov[key] = {"executions": summ["executions"], "gomaxprocs": summ["gomaxprocs"],
                        "per_system": summ["systems"], "wall_s": round(time.time() - t, 1),
                        "race_reports": err.count("DATA RACE")}
    elif not found:
        found += 1
        rep.violation("the emitted code crashed / hung on the real runtime (rc=%s): %s" % (rc, err[-700:]),
                      {"kind": "race", "replay": {"config": cur, "choices": []}, "stderr": err[-6000:]}, True)
    shutil.rmtree(out, ignore_errors=True)
    return found


def probe_part(rep, info):
    """Do over functions whose second result is a custom error type (func() (int, *NotFound)): the current
    generator refuses them (recorded); a generator that accepts them must still return a nil error when all
    functions succeeded (a typed nil stored in an error variable is not nil) and one of the returned errors otherwise."""
    pr = info.get("probe") or {"accepted": False}
    if not pr["accepted"]:
        rep.cov["custom_error_type_probe"] = "refused by goderive (functions must return the predeclared error): " + \
            pr.get("goderive", "").split("\n", 1)[-1].strip()[:200]
        return 0
    rep.cov["evaluations"] += 2
    if pr.get("rc") == 0:
        rep.cov["custom_error_type_probe"] = "accepted by goderive; all-succeed returns nil, failing returns one of the errors"
        return 0
    rep.cov["custom_error_type_probe"] = "accepted by goderive and VIOLATES the error rule"
    rep.violation("Do over func() (int, *NotFound), func() (int, error): " + pr.get("out", "")[:700],
                  {"kind": "probe", "replay": {"config": {"sys": "do-probe", "f0": "func() (int, *NotFound) returning (7, nil)",
                                                          "f1": "func() (int, error) returning (8, nil)"}, "choices": []},
                   "output": pr.get("out", "")}, True)
    return 1


def run(rep, prop, systems):
    # ConcFacts.lean and the build of K/Skeleton are shared by every check run (also runs for another VERIF_REPO
    # tree): writing the facts, building and comparing happen under one global lock
    with common.Lock("conc-facts"):
        info = prepare(rep)
        ok_proof = proof_part(rep, prop)
    if info is None:
        return
    rep.cov["programs"] += 2
    rep.cov["skeletons_checked"] = len(info["skeletons"])
    rep.cov["emitted_hash"] = info["emitted_hash"]
    found = 0
    if prop == "C20":
        found += probe_part(rep, info)
    driver_ok = os.path.exists(common.driver_path())
    if info.get("novs"):
        rep.notes.append("emitted code not mappable onto vsched: scheduler exploration skipped, real-runtime search only")
    elif driver_ok:
        # thorough tier: the exhaustive search gets a time budget of its own below the hard timeout, so that a loaded
        # machine ends it gracefully (what was explored is validated and counted) instead of failing the check
        found += sched_part(rep, info, systems, prop, maxsec=2400 if rep.tier == "thorough" else 0)
    else:
        rep.violation("Lean driver not built; trace validation impossible", {"correspondence": "T5"}, False)
    found += race_part(rep, info, systems, prop)
    if prop == "C19" and not info.get("lang21_err"):
        # the emitted join / pipeline once more, compiled with the loop-variable semantics of a `go 1.21` module
        lab = " compiled with -lang=go1.21 (loop variables per loop)"
        l21 = ["joincc", "joinsc", "pipeline"]
        if not info.get("novs") and os.path.exists(os.path.join(info["bin"], "vsrun21")):
            for sysname in l21:  # a time slice per system, so that every one of them is reached
                if not found:
                    found += sched_part(rep, info, [sysname], prop, search_only=True, timeout=300,
                                        maxsec=7 if rep.tier == "quick" else 60, binname="vsrun21", label=lab)
        if os.path.exists(os.path.join(info["bin"], "racerun21")):
            found += race_part(rep, info, l21, prop, timeout=300, maxsec=12 if rep.tier == "quick" else 90, binname="racerun21", label=lab)
    elif prop == "C19":
        rep.notes.append("go1.21 build of the emitted code failed: " + info.get("lang21_err", "")[:300])
    broken = [v for v in rep.violations if not v[2]]
    if broken and not found and rep.tier == "quick":
        # something no longer checks and no failing schedule was seen: search harder (thorough pool)
        rep.notes.append("search: thorough scheduler exploration and race stress after a broken proof / fact / correspondence")
        if not info.get("novs"):
            found += sched_part(rep, info, systems, prop, tier="thorough", search_only=True, timeout=400, maxsec=120)
        if not found:
            found += race_part(rep, info, systems, prop, tier="thorough", timeout=400, maxsec=90)
    return ok_proof


def replay(rep, path, prop, systems):
    r = json.load(open(path))
    info = prepare(rep)
    if info is None:
        return rep.finish()
    rp = r.get("replay")
    if not rp or not rp.get("config"):
        print("replay: %s names no schedule (%s); re-running the whole check" % (path, r.get("what", "")[:200]))
        rep.seed, rep.tier = r.get("seed", rep.seed), r.get("tier", rep.tier)
        run(rep, prop, systems)
        return rep.finish()
    if r.get("kind") == "probe":
        print((info.get("probe") or {}).get("out", "probe refused by goderive"))
        probe_part(rep, info)
        return rep.finish()
    if r.get("kind") == "race":
        env = dict(common.GOENV)
        env["GORACE"] = "halt_on_error=0"
        p = common.sh([os.path.join(info["bin"], "racerun"), "-replay", path], env=env, timeout=1200)
        print(p.stdout[-3000:])
        if p.returncode != 0 or "DATA RACE" in p.stderr:
            print(p.stderr[-3000:])
            rep.violation("replayed configuration fails on the real runtime: " + (p.stderr[-400:] or p.stdout[-400:]),
                          {"kind": "race", "replay": rp}, True)
        rep.cov["evaluations"] += 1
        return rep.finish()
    p = common.sh([os.path.join(info["bin"], "vsrun"), "-replay", path], timeout=600)
    print(p.stdout[-8000:])
    ops = [l for l in p.stdout.splitlines() if l.startswith("op 1 conc ")]
    if ops and os.path.exists(common.driver_path()):
        pr = subprocess.run([common.driver_path()], input=(ops[0] + "\n").encode(), stdout=subprocess.PIPE, timeout=600)
        print("Lean LTS replay of this trace: " + pr.stdout.decode().strip())
        if "model=ok" not in pr.stdout.decode() and p.returncode == 0:
            rep.violation("the replayed step log is not a run of the Lean LTS: " + pr.stdout.decode().strip()[:300],
                          {"kind": "sched", "replay": rp}, False)
    rep.cov["evaluations"] += 1
    if p.returncode == 1:
        viol = [l for l in p.stdout.splitlines() if l.startswith("VIOLATED")]
        rep.violation("replayed schedule violates the property on the emitted code: " + "; ".join(viol)[:600],
                      {"kind": "sched", "replay": rp}, True)
    elif p.returncode != 0:
        raise common.CheckError("vsrun -replay failed: " + p.stderr[-800:])
    return rep.finish()
