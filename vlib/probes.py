"""Replay of recorded known findings that no generator of a check produces by itself.

vlib/data/known/<id>/ holds a tiny module (files end in .txt, as in vlib/data/sites) and a script
`run.sh <goderive>` that runs the real goderive on it and answers
    exit 0   the finding reproduces exactly as recorded (the script prints one line saying what it saw)
    exit 3   the program behaves as the property demands now (the finding is gone)
    other    the program fails in ANOTHER way than recorded: a different violation
Probes exist for `known` findings and, as regression witnesses, for `fixed` ones whose input no corpus can express.
A finding is replayed by the check of its property: reproduced and listed as `known` in known_findings.json ->
KNOWN-FINDING line; reproduced and not listed as known (e.g. marked fixed: the defect is back) -> VIOLATION with the
probe as replay; gone -> a note (nothing is suppressed); failing differently -> VIOLATION."""
import json
import os
import shutil
import tempfile

from vlib import common

DATA = os.path.join(os.path.dirname(os.path.abspath(__file__)), "data", "known")


def _instantiate(src, dst):
    for d, _, fs in os.walk(src):
        for f in fs:
            rel = os.path.relpath(os.path.join(d, f), src)
            out = os.path.join(dst, rel[:-4] if rel.endswith(".txt") else rel)
            os.makedirs(os.path.dirname(out), exist_ok=True)
            shutil.copyfile(os.path.join(d, f), out)


def run(rep, prop):
    """Replays every probe whose finding belongs to `prop`."""
    if not os.path.isdir(DATA):
        return
    kf = {f.get("id"): f for f in json.load(open(os.path.join(common.VERIF, "known_findings.json")))["findings"]}
    _, binp = common.build_goderive()
    stats = rep.cov.setdefault("known_finding_probes", {})
    for fid in sorted(os.listdir(DATA)):
        f = kf.get(fid)
        if not f or f.get("property") != prop:
            continue
        root = tempfile.mkdtemp(prefix="verif-probe-")
        try:
            _instantiate(os.path.join(DATA, fid), root)
            p = common.sh(["bash", "run.sh", binp], cwd=root, timeout=300)
            out = (p.stdout + p.stderr).strip()
            last = out.splitlines()[-1][:300] if out else ""
            rep.cov["evaluations"] = rep.cov.get("evaluations", 0) + 1
            if p.returncode == 0:
                stats[fid] = "reproduced"
                if f.get("status") == "known":
                    rep.known.append("%s %s (replayed: %s)" % (fid, f.get("what", "")[:300], last))
                else:
                    rep.violation("%s is recorded as %s but reproduces on this tree: %s" % (fid, f.get("status"), last),
                                  {"probe": fid, "finding": f, "output": out[-3000:]}, True)
            elif p.returncode == 3:
                stats[fid] = "gone"
                if f.get("status") == "known":
                    rep.notes.append("known finding %s no longer reproduces on this tree (%s)" % (fid, last))
            else:
                stats[fid] = "differs"
                rep.violation("the program of known finding %s fails in another way than recorded (exit %d): %s" % (fid, p.returncode, out[-600:]),
                              {"probe": fid, "finding": f, "output": out[-3000:]}, True)
        finally:
            shutil.rmtree(root, ignore_errors=True)
