"""C13 — ordering helpers (derived Sort, Keys, Min, Max).
Proof: Props/C13.lean (sort = sorted permutation through the `sorter` contract, with insertion and
merge sort proved to satisfy it; keys = every key once under any iteration order; min/max loops return
an element nothing precedes/follows, or the default; two-value forms).
Tie: T1 on the list corpus of harness/cmd/genlists (ops sort keys min max min2 max2).

This module also holds the machinery shared by the three list-family checks (C13, C14, C17)."""
import hashlib
import json
import os

from vlib import common

PLUGINS = ["sort", "keys", "min", "max"]
OPS = {"sort", "keys", "min", "max", "min2", "max2", "sortcmp", "mincmp", "maxcmp", "min2cmp", "max2cmp"}
GEN = "genlists"

ASSUMPTIONS = [
    "values are finite trees (acyclic) and NaN-free, as the properties quantify",
    "the lists handed to one call do not share backing arrays with each other",
    "Equal / Hash / Compare facts used by the helper theorems (Compare is a strict weak order consistent "
    "with Equal, Equal implies same Hash, Equal is an equivalence) are hypotheses here; they are the "
    "theorems of Props/C02-C04 and are exercised on the same corpus values by the ties of those checks",
]


# ------------------------------------------------------------------ tiny wire reader (for counting only)

def _parse(tokens, pos):
    t = tokens[pos]
    if t != "(":
        return t, pos + 1
    out = []
    pos += 1
    while tokens[pos] != ")":
        e, pos = _parse(tokens, pos)
        out.append(e)
    return out, pos + 1


def parse_args(s):
    tokens = s.replace("(", " ( ").replace(")", " ) ").split()
    out, pos = [], 0
    while pos < len(tokens):
        e, pos = _parse(tokens, pos)
        out.append(e)
    return out


def list_len(e):
    """number of elements of a wire slice value, 0 for nil / non-slices"""
    if isinstance(e, list) and e and e[0] == "sl":
        return len(e) - 3
    if isinstance(e, list) and e and e[0] == "m":
        return len(e) - 2
    if isinstance(e, list) and e and e[0] == "s":
        return (len(e[1]) // 2) if len(e) > 1 else 0
    return 0


def default_nontrivial(f, impl, model, spec):
    """non-trivial: the container arguments hold at least two elements in total (a loop body ran twice),
    or, for the two-value forms, the two arguments are not the same value"""
    args = parse_args(f[4]) if len(f) > 4 else []
    if f[2] in ("min2", "max2"):
        return len(args) == 2 and args[0] != args[1]
    return sum(list_len(a) for a in args) >= 2


def known_findings():
    try:
        return {x["id"]: x for x in json.load(open(os.path.join(common.VERIF, "known_findings.json")))["findings"]}
    except (OSError, ValueError, KeyError):
        return {}


def compare_lists(rep, info, opnames, classify=None, nontrivial=default_nontrivial):
    """Diffs impl / model / spec. Answers are `A;B`: A is what the property fixes (compared with the
    spec), B what only the model fixes. impl.A != spec is a VIOLATION with the op line as failing input
    (or a KNOWN-FINDING when classify() maps it to a listed, unfixed finding whose witness class it is);
    impl != model with the spec part satisfied is a broken correspondence (no failing input)."""
    cdir = info["dir"]
    if info.get("goderive_rc") != 0:
        rep.violation("goderive failed on the supported corpus (exit %s%s): %s" % (
            info.get("goderive_rc"), ", timeout" if info.get("goderive_timeout") else "", info.get("goderive_err", "")[-500:]),
            {"corpus": cdir, "cmd": "goderive " + " ".join("./" + p for p in info["pkgs"])}, True)
        return {}
    if info.get("build_rc") != 0:
        rep.violation("emitted derived.gen.go does not compile: " + info.get("build_err", "")[:800],
                      {"corpus": cdir, "cmd": "go build ."}, True)
        return {}
    if info.get("impl_rc") != 0 or info.get("model_rc") != 0:
        raise common.CheckError("corpus program / model driver failed: impl rc %s (%s), model rc %s" % (
            info.get("impl_rc"), info.get("impl_err", "")[-300:], info.get("model_rc")))
    rep.cov["programs"] += len(info["pkgs"])
    per_op = {}
    mism_model, mism_spec = [], []
    distinct = set()
    n = 0
    with open(os.path.join(cdir, "ops.txt")) as fo, open(os.path.join(cdir, "impl.txt")) as fi, \
            open(os.path.join(cdir, "model.txt")) as fm:
        ops, impls, models = fo.readlines(), fi.readlines(), fm.readlines()
    if not (len(ops) == len(impls) == len(models)):
        raise common.CheckError("line protocol out of step: %d ops, %d impl answers, %d model answers" % (
            len(ops), len(impls), len(models)))
    for op, li, lm in zip(ops, impls, models):
        f = op.rstrip("\n").split(" ", 4)
        if f[2] not in opnames:
            continue
        n += 1
        per_op[f[2]] = per_op.get(f[2], 0) + 1
        i1, di = common.parse_kv(li)
        i2, dm = common.parse_kv(lm)
        if i1 != f[1] or i2 != f[1]:
            raise common.CheckError("line protocol out of step at op %s (%s / %s)" % (f[1], i1, i2))
        impl, model, spec = di.get("impl"), dm.get("model"), dm.get("spec")
        if model is None or impl is None or impl == "no-such-op":
            raise common.CheckError("op %s not answered: impl %s / model %s" % (f[1], li.strip()[:200], lm.strip()[:200]))
        if nontrivial(f, impl, model, spec):
            distinct.add(hashlib.sha1(op.split(" ", 2)[2].encode()).digest()[:8])
        if len(rep.cov["samples"]) < 6 and n % 397 == 1:
            rep.cov["samples"].append({"op": op.strip()[:400], "impl": impl, "model": model, "spec": spec})
        if spec is not None and impl.split(";", 1)[0] != spec:
            mism_spec.append((op, impl, model, spec))
        elif impl != model:
            mism_model.append((op, impl, model, spec))
    rep.cov["evaluations"] += n
    rep.cov["distinct_nontrivial"] += len(distinct)
    rep.cov["disagreements_checked"] += n
    rep.cov.setdefault("ops_compared", {}).update(per_op)
    missing = sorted(o for o in opnames if o not in per_op)
    if missing:
        raise common.CheckError("the corpus holds no ops named %s" % missing)
    known_hit = {}
    for op, impl, model, spec in mism_spec:
        k = classify(op, impl, model, spec) if classify else None
        if k:
            known_hit.setdefault(k, [0, op, impl, spec])
            known_hit[k][0] += 1
            continue
        if len(rep.violations) > 5:
            continue
        rep.violation("emitted code disagrees with the specification: impl=%s spec=%s model=%s on %s" % (
            impl[:300], spec[:300], model[:300], op.strip()[:300]),
            {"corpus_seed": rep.seed, "op": op.strip(), "impl": impl, "model": model, "spec": spec,
             "plugins": info.get("plugins"), "gen": GEN, "types": os.path.join(cdir, "prelude.txt")}, True)
    if mism_model:
        op, impl, model, spec = mism_model[0]
        rep.violation("correspondence T1 broken: emitted code and Lean model differ on %d ops (specified part still satisfied on them), first: impl=%s model=%s on %s" % (
            len(mism_model), impl[:300], model[:300], op.strip()[:300]),
            {"correspondence": "T1 " + ",".join(sorted(opnames)), "op": op.strip(), "impl": impl, "model": model,
             "spec": spec, "plugins": info.get("plugins"), "gen": GEN}, False)
    return known_hit


def run_family(rep, prop, plugins, opnames, rule, classify=None, known_text=None):
    rep.cov["rule"] = rule
    rep.assumptions += ASSUMPTIONS
    # Props/Cxx.lean is not reachable from the default lake targets: build it (and the driver) explicitly
    ok, log = common.lean_build(["GoderiveModel.Props." + prop, "driver"])
    if not ok:
        err = [l for l in log.splitlines() if "error" in l][:10]
        rep.violation("lake build GoderiveModel.Props.%s driver failed: %s" % (prop, " | ".join(err)),
                      {"theorem": "lake build GoderiveModel.Props." + prop, "log": log[-6000:]}, False)
    common.proof_part(rep, prop, thorough_checker=(rep.tier == "thorough"))
    rep.cov["checker_cmd"] = "cd lean && lake build GoderiveModel.Props.%s driver && %s" % (prop, rep.cov["checker_cmd"][len("cd lean && "):])
    rep.cov["trusted_base"] += [
        "sort.Slice / sort.Ints / sort.Strings / sort.Float64s behave as the `sorter` contract says (permutation; sorted when less is a strict weak order): exercised, not proved",
        "Go map iteration is some permutation of the entries; Go's []rune / range decoding equals U/Utf8.decodeRunes (validated on every fmaps op)",
    ]
    info = common.prepare_corpus(rep.tier, rep.seed, plugins, gen=GEN)
    info["plugins"] = plugins
    rep.cov["corpus"] = info["stats"]
    hits = compare_lists(rep, info, opnames, classify=classify)
    kf = known_findings()
    for k, (cnt, op, impl, spec) in sorted((hits or {}).items()):
        entry = kf.get(k)
        if entry is None:
            # classes are matched through the witness_class lists of the known findings
            for e in kf.values():
                if k in (e.get("witness_class") or []):
                    entry = e
                    break
        what = (known_text or {}).get(k, k)
        if entry and entry.get("status") == "known":
            rep.known.append("%s %s: replayed on %d ops, e.g. impl=%s spec=%s on %s" % (k, what, cnt, impl[:80], spec[:80], op.strip()[:160]))
        else:
            rep.violation("emitted code disagrees with the specification (%s, %d ops; not listed as a known finding): impl=%s spec=%s on %s" % (
                what, cnt, impl[:200], spec[:200], op.strip()[:300]),
                {"corpus_seed": rep.seed, "op": op.strip(), "impl": impl, "spec": spec, "finding_class": k,
                 "plugins": plugins, "gen": GEN}, True)
    return info


def replay_family(rep, path, run):
    r = json.load(open(path))
    print("replay: re-running the corpus of seed %s and reporting op: %s" % (r.get("seed"), r.get("op", r.get("what"))))
    rep.seed, rep.tier = r.get("seed", rep.seed), r.get("tier", rep.tier)
    run(rep)
    rc = rep.finish()
    op = r.get("op")
    if op:
        # show how the named op line fares on the current tree
        info = common.prepare_corpus(rep.tier, rep.seed, r.get("plugins", PLUGINS), gen=r.get("gen", GEN))
        cdir = info["dir"]
        try:
            with open(os.path.join(cdir, "ops.txt")) as fo, open(os.path.join(cdir, "impl.txt")) as fi, \
                    open(os.path.join(cdir, "model.txt")) as fm:
                for o, li, lm in zip(fo, fi, fm):
                    if o.strip().split(" ", 2)[2:] == op.split(" ", 2)[2:]:
                        print("replayed op: %s\n  %s\n  %s" % (o.strip()[:300], li.strip()[:300], lm.strip()[:300]))
                        break
        except OSError:
            pass
    return rc


RULE = ("39 element types (unsigned 64-bit kinds incl. named and as map keys with values at and above 1<<63; basics incl. +0/-0 floats, bool and complex128, named basics incl. a named bool, []byte / named []byte / []string / [2]int elements with nil, empty and different-length inner slices whose lexicographic order differs from the derived length-first order, comparable struct, pointers to structs incl. recursive and "
        "imported, slices, struct with pointers, named floats inside non-comparable elements; more on thorough) and 9 key types (incl. float32 / float64 / named float / complex128 keyed maps with one and two NaN keys among ordinary keys, zeros and infinities: keys ops only) x a boundary-biased list pool per type "
        "(nil, empty, singleton, duplicates fresh and aliased, both orders of pairs, all 6 orders of triples, Equal-but-not-identical "
        "variants, for slice-typed elements prefix views of ONE backing array with different lengths mixed with independent copies and nil, whole pool / reversed / sorted / reverse-sorted, nil elements, seeded random lists up to length 7 (12 thorough)); "
        "sort on every list, min/max on every list with two defaults, min2/max2 on all ordered pool pairs and identity variants, keys on "
        "nil/empty/singleton/both-insertion-order/larger maps; distinct = distinct op lines whose containers hold >= 2 elements in "
        "total (two-value forms: the arguments differ)")


def run(rep):
    run_family(rep, "C13", PLUGINS, OPS, RULE)


def replay(rep, path):
    return replay_family(rep, path, run)
