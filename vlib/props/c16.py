"""C16 — error-propagating helpers stop at, and return, the first error.

Proof: Props/C16.lean (compose as the emitted straight-line chain = "first failing stage" spec for
every arity and failing position, traverse, the error forms of fmap and join, toerror; `zero_ok` and
the witnesses that derive.Zero is wrong for named basics, structs and arrays and that compose cannot
print a stage without non-error results).
Tie: T1 + compile oracle on a corpus of *chains*: one small package per chain class; instrumented
stages (call log with argument vectors, results computed from the arguments, failure with a
distinguished error object on demand); per package goderive exit status, whether the emitted helper
type-checks, and the observable outcome (results, identity of the returned error, call log) are
compared with the Lean model and the specification. The machinery is in c15.py."""
from vlib.props import c15 as fam

PLUGINS = ["compose", "fmap", "join", "traverse", "toerror"]
OPS = {"build", "compose", "fmape", "joine", "bind", "traverse", "toerror"}


def run(rep):
    rep.cov["rule"] = ("chain classes: compose over 2..4 stages with 0..3 parameters and 0..3 non-error results per stage "
                       "(well-typed-zero types only / a result-less stage at every position / every type of the 16-entry table "
                       "(basic, named basic, struct, array, pointer, slice, map, interface, named slice) as a final result / random) "
                       "x every failing stage or none x 2 error objects x 2 argument vectors; fmap and join error forms and join.fmap "
                       "with 0..3 results of every type x every failing stage x error objects; traverse to every result type over "
                       "nil and lists of length 0..4 with the failure at every index; toerror over 8 naming schemes x 1..3 parameters "
                       "x 0..2 results x ok/not ok x 2 error objects; 9 types in place of `error` (custom error types with value / pointer "
                       "receiver, pointer to one, named interface, four near-miss method shapes) as last result of compose/traverse/fmap/join "
                       "stages and as the error value of join/toerror (accept/refuse vs exit status, compile, behaviour incl. the nil custom "
                       "error); one package per class. Helpers that return a function (compose, "
                       "toerror, fmap's error form with >= 2 results, and `fn, e := deriveFmap(f, g); deriveJoin(fn, e)`) are observed "
                       "at three moments: the call log when the helper returns, and two invocations of the returned function with a "
                       "fresh log each (compose/toerror: nothing before, the whole chain once per invocation; fmap: g then f exactly "
                       "once before it returns, nothing per invocation, same results). distinct_nontrivial = distinct "
                       "(helper, chain, failure choice, arguments) ops executed on a helper that compiled")
    rep.assumptions += [
        "values are abstract payloads (0 = the zero value of the type); error identity is observed by comparing error objects",
"the specification is the property text also for the LAST stage: zero values beside whichever error comes first; failing "
        "stages of the corpus always return NON-zero values beside their error (every position, also the only stage)",
        "'exactly once' for compose and toerror means once per invocation of the returned function (building it evaluates nothing); "
        "for fmap's error form with a multi-result f it means once, before deriveFmap returns, however often the returned function is invoked",
        "successful Traverse returns a non-nil slice also for a nil or empty list (what `make` gives): model and specification follow the code there, and nil-ness is observed",
        "toerror: no parameter is called success or out<i> (would collide with the helper's locals; outside the corpus)",
    ]
    fam.run_family(rep, "C16", PLUGINS, OPS)


def replay(rep, path):
    return fam.replay_family(rep, "C16", PLUGINS, OPS, path)
