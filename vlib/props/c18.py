"""C18 — Mem is observationally the original function, evaluated once per argument.

Proof: Props/C18.lean over the state-machine model S/Mem.lean of the four emitted shapes (flag /
single comparable key / comparable input struct / hash buckets with Equal scan) x result storage
(none / value / output struct): refinement to "call f" and at-most-once per class, for call
sequences of any length.
Tie: T1 with whole call sequences (ops memseq / memraw): the real goderive generates deriveMem for
every signature of the corpus (cmd/genmem), the compiled program plays each sequence against
`deriveMem…(f)` with an instrumented deterministic f, the Lean driver plays it on the model and on
the specification (f itself; class of every call under structural equality of the argument tuples).
"""
import hashlib
import json
import os
import shutil

from vlib import common

PLUGINS = ["mem"]
OWN_LEAN = ("S/Mem.lean", "Spec/Mem.lean", "Lemmas/Mem.lean", "Props/C18.lean")
TARGETS = ["GoderiveModel.Props.C18", "driver"]


def proof_part(rep):
    """Like common.proof_part, but builds only the targets this property rests on (Props.C18 and the
    driver with everything they import)."""
    prop = "C18"
    hits = [h for h in common.lean_grep_forbidden() if any(o in h for o in OWN_LEAN)]
    ok, log = common.lean_build(TARGETS)
    names = common.prop_theorems(prop)
    rep.cov["checker_cmd"] = ("cd lean && lake build %s && lake env lean .work/audit/C18.lean  "
                              "# #print axioms of every theorem in Props/C18.lean" % " ".join(TARGETS))
    rep.cov["trusted_base"] = list(common.TRUSTED_COMMON)
    rep.cov["obligations"] = len(names)
    if hits:
        rep.violation("forbidden construct in Lean sources: " + "; ".join(hits[:5]), {"lean": hits}, False)
    if not ok:
        err = [l for l in log.splitlines() if "error" in l][:10]
        rep.violation("lake build failed: the Lean development no longer checks: " + " | ".join(err),
                      {"theorem": "lake build " + " ".join(TARGETS), "log": log[-6000:]}, False)
        return False
    if not names:
        rep.violation("no property theorems found for C18", {"theorem": "Props/C18.lean"}, False)
        return False
    ax = common.lean_audit(prop)
    good = 0
    rep.cov["theorems"] = {}
    for n in names:
        a = ax.get(n)
        rep.cov["theorems"][n] = a
        if a is None:
            rep.violation("theorem %s not found by the audit" % n, {"theorem": n}, False)
        elif set(a) - common.ALLOWED_AXIOMS:
            rep.violation("theorem %s depends on non-allowed axioms %s" % (n, a), {"theorem": n, "axioms": a}, False)
        else:
            good += 1
    rep.cov["discharged"] = good
    if rep.tier == "thorough":
        okc, logc = common.leanchecker("GoderiveModel.Props.C18")
        rep.cov["leanchecker"] = "ok" if okc else logc
        rep.cov["checker_cmd"] += " && lake env leanchecker GoderiveModel.Props.C18"
        if not okc:
            rep.violation("leanchecker rejects GoderiveModel.Props.C18", {"theorem": "leanchecker", "log": logc}, False)
    return good == len(names)


def package_status(info):
    """goderive exit status and `go vet` verdict per generated package (cached next to the corpus)."""
    cdir = info["dir"]
    path = os.path.join(cdir, "pkgstatus.json")
    with common.Lock("corpus-" + os.path.basename(cdir)):
        if os.path.exists(path):
            st = json.load(open(path))
            if st.get("tag") == info.get("tag"):
                return st["pkgs"]
        _, binp = common.build_goderive()
        out = {}
        for p in info["pkgs"]:
            rc, err, to = common.run_goderive(binp, cdir, ["./" + p], timeout=120, mem_gb=4)
            ent = {"goderive_rc": rc, "goderive_timeout": to}
            if rc != 0:
                ent["goderive_err"] = err[-500:]
            v = common.sh(["go", "vet", "./" + p], cwd=cdir, timeout=600)
            ent["vet_rc"] = v.returncode
            if v.returncode != 0:
                ent["vet_err"] = v.stderr[-800:]
            out[p] = ent
        json.dump({"tag": info.get("tag"), "pkgs": out}, open(path, "w"), indent=1)
        return out


def emitted_shapes(info):
    """Which of the four shapes the real generator emitted for every signature G<k>, read off the
    text of deriveMem_<k> in the derived.gen.go files."""
    import re
    out = {}
    for p in info["pkgs"]:
        try:
            src = open(os.path.join(info["dir"], p, "derived.gen.go")).read()
        except OSError:
            continue
        for m in re.finditer(r"^func deriveMem_(\d+)\(.*?^}$", src, flags=re.S | re.M):
            body = m.group(0)
            if "map[uint64][]mem" in body:
                sh = "bucket"
            elif "memoized := false" in body:
                sh = "flag"
            elif "make(map[input]" in body:
                sh = "input"
            elif "m := make(map[" in body:
                sh = "single"
            else:
                sh = "unknown"
            out["G" + m.group(1)] = sh
    return out


def split_answer(a):
    """'<results>|<log>' -> (results string, [call indexes that reached f]) or None"""
    if a is None or "|" not in a:
        return None
    res, log = a.split("|", 1)
    idx = []
    if log:
        for e in log.split(","):
            head = e.split(":", 1)[0]
            if not head.isdigit():
                return None
            idx.append(int(head))
    return res, idx


def judge(impl, spec):
    """The property on one sequence: every answer is f's answer, and f ran at most once per class.
    Returns None when it holds, else a description."""
    si, ss = split_answer(impl), spec.split("|", 1) if spec and "|" in spec else None
    if si is None or ss is None:
        return "unreadable answer (impl=%s)" % (impl if impl is None else impl[:80])
    res, idx = si
    if res != ss[0]:
        return "an answer differs from what f returns"
    classes = [int(x) for x in ss[1].split(",")] if ss[1] else []
    if any(i >= len(classes) for i in idx):
        return "f was called for a call index outside the sequence"
    called = [classes[i] for i in idx]
    if len(set(called)) != len(called):
        dup = sorted(c for c in set(called) if called.count(c) > 1)
        return "f was invoked more than once for the class of call(s) %s" % dup
    return None


def compare(rep, info):
    cdir = info["dir"]
    if info.get("goderive_rc") != 0:
        rep.violation("goderive failed on the Mem corpus (exit %s%s): %s" % (
            info.get("goderive_rc"), ", timeout" if info.get("goderive_timeout") else "", info.get("goderive_err", "")[-500:]),
            {"corpus": cdir, "cmd": "goderive " + " ".join("./" + p for p in info["pkgs"])}, True)
        return
    if info.get("build_rc") != 0:
        rep.violation("emitted deriveMem code does not compile: " + info.get("build_err", "")[:800],
                      {"corpus": cdir, "cmd": "go build ."}, True)
        return
    rep.cov["programs"] += len(info["pkgs"])
    n = 0
    distinct = set()
    shapes, colliding, saved_calls, total_calls, raw_witness, raw_differs = {}, 0, 0, 0, 0, 0
    spec_bad, model_bad = [], []
    sampled = set()
    real_shapes, shape_bad, sigs_seen = emitted_shapes(info), {}, set()
    with open(os.path.join(cdir, "ops.txt")) as fo, open(os.path.join(cdir, "impl.txt")) as fi, \
            open(os.path.join(cdir, "model.txt")) as fm:
        for op, li, lm in zip(fo, fi, fm):
            f = op.rstrip("\n").split(" ", 4)
            if f[2] not in ("memseq", "memraw"):
                continue
            n += 1
            i1, di = common.parse_kv(li)
            i2, dm = common.parse_kv(lm)
            if i1 != f[1] or i2 != f[1]:
                raise common.CheckError("line protocol out of step at op %s (%s / %s)" % (f[1], i1, i2))
            impl, model, spec = di.get("impl"), dm.get("model"), dm.get("spec")
            if model is None:
                raise common.CheckError("model driver rejected op %s: %s" % (f[1], lm.strip()[:200]))
            shapes[dm.get("shape", "?")] = shapes.get(dm.get("shape", "?"), 0) + 1
            if real_shapes.get(f[3]) != dm.get("shape") and f[3] not in shape_bad:
                shape_bad[f[3]] = (real_shapes.get(f[3]), dm.get("shape"), op)
            sigs_seen.add(f[3])
            if dm.get("coll", "0") != "0":
                colliding += 1
            if f[2] == "memseq":
                if spec is None:
                    raise common.CheckError("no spec answer for op %s" % f[1])
                why = judge(impl, spec)
                if why:
                    spec_bad.append((op, impl, model, spec, why))
                classes = spec.split("|", 1)[1].split(",") if spec.split("|", 1)[1] else []
                total_calls += len(classes)
                saved_calls += len(classes) - len(set(classes))
                # non-trivial: some class is called at least twice (memoisation is exercised)
                if len(set(classes)) < len(classes):
                    distinct.add(hashlib.sha1(op.split(" ", 2)[2].encode()).digest()[:8])
            else:
                classes = []
                # an f that tells +0 from -0: only model = code is compared (the two clauses of the
                # property contradict each other for such an f); count the sequences where the
                # memoised answer indeed differs from nothing-memoised
                raw_witness += 1
                if impl is not None and dm.get("direct") is not None and impl.split("|")[0] != dm["direct"]:
                    raw_differs += 1
                    if "raw-f" in sampled and "raw-f-differs" not in sampled:
                        sampled.add("raw-f-differs")
                        rep.cov["samples"].append({"kind": "raw-f: memoised answer differs from f (f tells +0 from -0)",
                                                   "op": op.strip()[:900], "impl": impl[:500], "f_itself": dm["direct"][:500]})
            if impl != model:
                model_bad.append((op, impl, model, spec))
            # samples: per shape the first sequence that answers some call from the table, the first
            # sequence that meets a hash collision, the first with an f that does not respect ==
            tag = None
            if f[2] == "memraw":
                tag = "raw-f"
            elif dm.get("coll", "0") != "0":
                tag = "collision"
            elif len(set(classes)) < len(classes) and len(classes) >= 4:
                tag = dm.get("shape", "?")
            shows_results = "(" in (impl or "").split("|")[0].replace("()", "")
            if tag and tag not in sampled and len(op) < 1500 and (shows_results or tag == "raw-f"):
                sampled.add(tag)
                rep.cov["samples"].append({"kind": tag, "op": op.strip()[:900], "impl": (impl or "")[:500],
                                           "model": model[:500], "spec": (spec or "")[:500]})
    rep.cov["evaluations"] += n
    rep.cov["distinct_nontrivial"] += len(distinct)
    rep.cov["disagreements_checked"] += n
    rep.cov["traces_validated_against_impl"] += n
    rep.cov["shapes_played"] = shapes
    rep.cov["sequences_with_hash_collisions"] = colliding
    rep.cov["calls_played"] = total_calls
    rep.cov["calls_answered_from_table"] = saved_calls
    rep.cov["raw_f_sequences"] = raw_witness
    rep.cov["raw_f_sequences_where_memoised_answer_differs_from_f"] = raw_differs
    for op, impl, model, spec, why in spec_bad[:6]:
        rep.violation("deriveMem violates the property on a call sequence: %s; sequence: %s; impl=%s spec=%s" % (
            why, op.strip()[:300], (impl or "")[:160], spec[:160]),
            {"corpus_seed": rep.seed, "op": op.strip(), "impl": impl, "model": model, "spec": spec, "why": why,
             "types": os.path.join(cdir, "prelude.txt")}, True)
    rep.cov["signatures_played"] = len(sigs_seen)
    rep.cov["signatures_shape_checked_against_emitted_text"] = len(sigs_seen) - len(shape_bad)
    if shape_bad:
        g, (real, mod, op) = sorted(shape_bad.items())[0]
        rep.violation("correspondence T1 broken: the generator emitted shape %s for %d signatures where the model's shapeOf says otherwise, first %s: model %s" % (
            real, len(shape_bad), g, mod), {"correspondence": "T1 shapeOf", "op": op.strip(), "emitted": real, "model": mod}, False)
    bad_ops = set(x[0] for x in spec_bad)
    rest = [m for m in model_bad if m[0] not in bad_ops]
    if rest:
        op, impl, model, spec = rest[0]
        rep.violation("correspondence T1 broken: emitted deriveMem and the Lean model differ on %d sequences (spec still satisfied on them), first: impl=%s model=%s on %s" % (
            len(rest), (impl or "")[:200], model[:200], op.strip()[:300]),
            {"correspondence": "T1 memseq,memraw", "op": op.strip(), "impl": impl, "model": model, "spec": spec}, False)


def run(rep):
    rep.cov["rule"] = (
        "signatures: parameter lists of length 0..3 over comparable (int, string, float64, bool, named basics, comparable "
        "structs incl. one with float fields) and non-comparable ([]int, *S1, map[string]int, S2, []float64, []string) types "
        "(all single types; fixed and seeded pairs / triples, mixed and pure) x result arities 0..3 over 8 result types; per "
        "signature call sequences: identical repeats, interleavings of distinct tuples, Equal-but-not-identical copies (fresh "
        "addresses, other spare capacity, reversed map insertion order, flipped signed zeros), constructed hash collisions "
        "(invalid-UTF-8 strings, 31-weighted sums), seeded random sequences up to length 10 (40 thorough); distinct_nontrivial "
        "= distinct memseq lines in which some class of argument tuples is called at least twice")
    rep.assumptions += [
        "f is deterministic and respects the key equality (Equal / == arguments give the same results): for an f that tells "
        "+0 from -0 the two clauses of the property contradict each other (theorem refines_needs_respect); such an f is "
        "played too (op memraw) but only compared model vs code",
        "results are compared structurally (pointer identity of results erased): the memoised function returns the stored "
        "result object of the first call of a class",
        "arguments are finite trees and NaN-free (NaN keys are never found again by a Go map nor by derived Equal)",
        "the bucket shape relies on derived Hash respecting derived Equal (C04) — hypothesis hhash of mem_at_most_once; "
        "the corpus exercises it with signed zeros, permuted maps and spare capacity",
        "f's call log is the only observation of 'invoked at most once'; f is single-threaded (deriveMem is not "
        "goroutine-safe and the property does not claim it)",
    ]
    proof_part(rep)
    # .work/repo-<hash>/ is pruned by concurrent checks that run against other trees (mutation
    # self-tests): when the corpus directory disappears under us, prepare it again
    for attempt in range(4):
        try:
            info = common.prepare_corpus(rep.tier, rep.seed, PLUGINS, gen="genmem")
            if not os.path.exists(os.path.join(info["dir"], "ops.txt")):
                raise FileNotFoundError(info["dir"])
            rep.cov["corpus"] = info["stats"]
            st = package_status(info)
            rep.cov["packages"] = {p: {"goderive_rc": e["goderive_rc"], "vet_rc": e["vet_rc"]} for p, e in st.items()}
            pkg_violations = []
            for p, e in st.items():
                if e["goderive_rc"] != 0:
                    pkg_violations.append(("goderive exits %s on package %s of the Mem corpus: %s" % (
                        e["goderive_rc"], p, e.get("goderive_err", "")[-300:]),
                        {"corpus": info["dir"], "cmd": "goderive ./" + p}))
                elif e["vet_rc"] != 0:
                    pkg_violations.append(("emitted deriveMem code of package %s does not pass go vet: %s" % (p, e.get("vet_err", "")[:500]),
                                           {"corpus": info["dir"], "cmd": "go vet ./" + p}))
            saved = (dict(rep.cov), list(rep.violations))
            try:
                for what, obj in pkg_violations:
                    rep.violation(what, obj, True)
                compare(rep, info)
            except FileNotFoundError:
                rep.cov, rep.violations = saved
                raise
            return
        except FileNotFoundError as e:
            if attempt == 3:
                raise common.CheckError("corpus directory keeps disappearing (concurrent pruning of .work): %s" % e)
            shutil.rmtree(common.corpus_dir(rep.tier, rep.seed, PLUGINS, "genmem"), ignore_errors=True)


def replay(rep, path):
    import subprocess
    r = json.load(open(path))
    print("replay: re-running the Mem corpus of seed %s; failing sequence: %s" % (r.get("seed"), r.get("op", r.get("what"))))
    rep.seed, rep.tier = r.get("seed", rep.seed), r.get("tier", rep.tier)
    run(rep)
    op = r.get("op")
    if op and op.startswith("op "):
        # play the recorded sequence alone on the current emitted code and on the model
        cdir = common.corpus_dir(rep.tier, rep.seed, PLUGINS, "genmem")
        try:
            pi = subprocess.run([os.path.join(cdir, "corpus.bin")], input=(op + "\n").encode(), stdout=subprocess.PIPE, timeout=120)
            pre = open(os.path.join(cdir, "prelude.txt")).read()
            pm = subprocess.run([common.driver_path()], input=(pre + op + "\n").encode(), stdout=subprocess.PIPE, timeout=120)
            _, di = common.parse_kv(pi.stdout.decode().strip())
            _, dm = common.parse_kv(pm.stdout.decode().strip())
            print("replay: impl =%s" % di.get("impl"))
            print("replay: model=%s" % dm.get("model"))
            print("replay: spec =%s" % dm.get("spec"))
            if dm.get("spec") is not None:
                why = judge(di.get("impl"), dm["spec"])
                print("replay: the property %s on this sequence%s" % ("FAILS" if why else "holds", (": " + why) if why else ""))
        except (OSError, subprocess.SubprocessError, ValueError) as e:
            print("replay: could not play the single sequence: %s" % e)
    return rep.finish()
