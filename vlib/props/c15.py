"""C15 — Curry, Uncurry, Flip, Apply, Tuple only re-plumb arguments.

Proof: Props/C15.lean (the emitted wrapper as a term with named binding, evaluated against a logging
function: positional plumbing under the naming side condition, uncurry . curry, tuple, distinctness
of the param_<i> renaming, and the witnesses that the side condition is needed today).
Tie: T1 + compile oracle on a corpus of *signatures*: one small package per (signature class,
combinator); per package the exit status of the real goderive, whether the emitted wrapper
type-checks (go build of that package alone), and the behaviour of the wrapper on random arguments
(results and call log of an instrumented function) are compared with the Lean model and the
specification.

This module also holds the machinery shared with C16 (`run_family`)."""
import concurrent.futures
import hashlib
import json
import os
import shutil
import subprocess
import time

from vlib import common

PLUGINS = ["curry", "uncurry", "flip", "apply", "tuple"]
OPS = {"build", "curry", "flip", "apply", "uncurry", "uncurrycurry", "tuple", "nest3", "nest4"}
GEN = "genfuncs"

# ---------------------------------------------------------------- probing the model variant flags
# One witness package per known defect class; the flag is "fixed" iff the real goderive succeeds on it
# and the emitted file type-checks. Order = the digits of genfuncs' -cfg flag.
ERRS = "type Errs []string\n\nfunc (e Errs) Error() string { return \"x\" }\n\n"
PROBES = [
    ("unnamedFixed", "F6", "package w\n\nvar F func(int, string) int\n\nvar W = deriveCurry(F)\n"),
    ("shadowFixed", "F6", "package w\n\nvar F func(f int, b string) int\n\nvar W = deriveCurry(F)\n"),
    ("crossFixed", "F6", "package w\n\nvar F func(a int) func(a string) int\n\nvar W = deriveUncurry(F)\n"),
    ("voidFixed", "F25", "package w\n\nvar F func(a int, b string)\n\nvar W = deriveCurry(F)\n"),
    ("prefixFixed", "F6b", "package w\n\nvar F func(innerParam_0 int) func(_ string) int\n\nvar W = deriveUncurry(F)\n"),
    ("universeFixed", "universe", "package w\n\nvar F func(string int, b string) int\n\nvar W = deriveCurry(F)\n"),
    ("resultsFixed", "resultname", "package w\n\nvar F func(a int, b string) (f int)\n\nvar W = deriveCurry(F)\n"),
    ("resultOuterFixed", "resultparam", "package w\n\nvar F func(a int) func(b string) (a int)\n\nvar W = deriveUncurry(F)\n"),
    ("qualFixed", "F102", "package w\n\nimport \"unsafe\"\n\nvar F func(unsafe int, p unsafe.Pointer) int\n\nvar W = deriveCurry(F)\n"),
    ("zeroFixed", "F5", "package w\n\ntype NI int\ntype S struct{ A int }\n\n"
     "func F0(a int) (NI, error) { return 0, nil }\n"
     "func F1(a NI) (S, [2]int, NI, error) { return S{}, [2]int{}, 0, nil }\n\nvar W = deriveCompose(F0, F1)\n"),
    ("lhsFixed", "F5", "package w\n\nfunc F0(a int) error { return nil }\nfunc F1() (int, error) { return 0, nil }\n"
     "func F2(a int) error { return nil }\n\nvar W = deriveCompose(F0, F1)\nvar V = deriveComposeV(F1, F2)\n"),
    # a custom error type as last result: the helper must be usable (or the call refused: then the model's accept bit is wrong and shows up in the corpus)
    ("errTypeFixed", "errtype", "package w\n\n" + ERRS + "func F0(a int) (int, Errs) { return a, nil }\nfunc F1(a int) (int, error) { return a, nil }\n\nvar W = deriveCompose(F0, F1)\n"),
    # Error on the pointer receiver, used by value: fixed = REFUSED by goderive
    ("errRecvFixed", "errrecv", "package w\n\ntype E5 []int\n\nfunc (e *E5) Error() string { return \"\" }\n\nfunc F(a int) (int, bool) { return a, true }\n\nvar e5 E5\nvar W = deriveToError(e5, F)\n"),
    # typed nil handed to join: fixed = the program calls f and gets a nil error
    ("typedNilFixed", "typednil", "package main\n\n" + ERRS + "var called bool\n\nfunc F() (int, error) { called = true; return 1, nil }\n\n"
     "func main() {\n\tvar e0 Errs\n\tv, err := deriveJoin(F, e0)\n\tif called && v == 1 && err == nil {\n\t\tprintln(\"ok\")\n\t}\n}\n"),
    # toerror's own locals against parameters of the same names
    ("localsFixed", "locals", "package w\n\nvar F func(wait, success int) (int, bool)\n\nvar e error\nvar W = deriveToError(e, F)\n"),
    # join's last stage returns values beside its error: fixed = zero values come back
    ("passFixed", "passthrough", "package main\n\ntype E struct{}\n\nfunc (E) Error() string { return \"e\" }\n\nfunc F() (int, error) { return 5, E{} }\n\n"
     "func main() {\n\tvar e0 error\n\tv, err := deriveJoin(F, e0)\n\tif v == 0 && err != nil {\n\t\tprintln(\"ok\")\n\t}\n}\n"),
    # fmap's multi-result form next to a user's deriveTuple of assignable, not identical types
    ("tupleFixed", "tupleassign", "package w\n\ntype MyInts []int\n\nvar T = deriveTuple(MyInts{1}, \"a\")\n\nfunc H(a int) ([]int, string) { return nil, \"\" }\nfunc G() (int, error) { return 0, nil }\n\nvar W, E = deriveFmap(H, G)\n"),
]
# the repairs of these three are refusals (exit 1); a generator that serves the call correctly would count as well
PROBE_MODE = {"errTypeFixed": "refuse-or-build", "errRecvFixed": "refuse", "typedNilFixed": "refuse-or-run", "passFixed": "run"}

# reproduced on the unchanged tree, reported to the coordinator, not yet listed in known_findings.json nor repaired:
# printed as KNOWN-FINDING lines marked PENDING (exit 0). As soon as an entry with the witness_class exists (known or
# fixed) the normal rules apply again.
PENDING = set()  # nothing parked at the moment (passthrough = F106, resultparam = F105 repaired; tupleassign = F107 known)

# informational probes (not model variants): defects outside the statements of C15/C16 that live in the same plugins
INFO_PROBES = [
    ("F12-variadic-forwarded-without-dots", "package w\n\nvar F func(a int, b string, c ...string) int\n\nvar W = deriveCurry(F)\n"),
    ("F12-flip-of-2-parameter-variadic-panics", "package w\n\nvar F func(a int, b ...string) int\n\nvar W = deriveFlip(F)\n"),
]

# reason reported by the model for a wrapper that does not compile -> finding id
WHY_FINDING = {"unnamed": "F6", "shadow": "F6", "dup": "F6b", "void": "F25", "zero": "F5", "emptylhs": "F5",
               "errtype": "F50", "errrecv": "F51", "typednil": "F52", "locals": "F63", "resultname": "F76",
               "passthrough": "F106", "resultparam": "F105", "tupleassign": "F107"}
WHY_TEXT = {
    "unnamed": "unnamed parameters: the wrapper body is printed as `f(, )` and does not compile",
    "shadow": "a parameter named like the generator's own binder (`f`, `err`) captures it: the wrapper does not compile",
    "dup": "uncurry merges outer and inner parameter lists whose names clash (also via its own innerParam_<i>/param_<i> renaming): duplicate parameter, does not compile",
    # wording once the generator's own prefixes are unusable as user names (prefixFixed): only the user's own clash is left
    "dup/prefixFixed": "uncurry merges the outer and the inner parameter list into one: a name the user wrote in BOTH lists (func(a A) func(a B) R) is declared twice, does not compile",
    "void": "a wrapped function WITHOUT results is forwarded as `return f(...)` by curry, uncurry, flip and apply: `f(...) (no value) used as value`, does not compile",
    "errtype": "(F50) a custom error type (named type with Error() string) as the last result of a stage is accepted, but the helper's parameter is printed with the predeclared error: the call does not compile (compose, traverse, fmap and join error forms)",
    "errrecv": "(F51) derive.IsError accepts a type whose Error method has a pointer receiver although it is used by value (does not implement error): exit 0, package does not compile",
    "typednil": "(F52) deriveJoin(f, e) with a nil value e of a custom error type: the helper receives a non-nil error, does not call f and returns zero values with a non-nil error",
    "passthrough": "join's error form ends in `return f()`: when f itself fails, the values f returned beside its error are handed on instead of zero values (deriveJoin(f, err) and deriveJoin(deriveFmap(f, g)), every arity)",
    "resultparam": "uncurry merges the outer parameter into the signature of the returned function: an inner RESULT named like the outer parameter (func(a int) func(b string) (a int)) is declared twice, does not compile",
    "tupleassign": "fmap's multi-result error form asks for deriveTuple of f's result types and is given a user's deriveTuple whose types are only assignable (MyInts vs []int): `return deriveTuple(f(v)), nil` has the wrong function type, does not compile",
    "resultname": "a result named like a name the wrappers use (f, param_<i>, innerParam_<i>) is printed with its name in the innermost function literal and hides or duplicates it: the wrapper does not compile",
    "locals": "toerror declares its locals `out<i>, success := f(...)` in the scope of f's parameters: a parameter called success (not bool) or out<i> (not of result i's type), or all of them, makes the wrapper not compile",
    "zero": "derive.Zero prints `nil` as the zero value of a named basic type, struct or array: the helper does not compile",
    "emptylhs": "compose prints `, err0 :=` / `return , err0` for a stage without non-error results: the helper does not compile",
}


def probe_flags(binp, cdir):
    """Runs the real tool on the witness packages. Returns (digits, {flag: detail})."""
    pdir = os.path.join(cdir, "_probe")
    shutil.rmtree(pdir, ignore_errors=True)
    os.makedirs(pdir)
    with open(os.path.join(pdir, "go.mod"), "w") as f:
        f.write("module probe\n\ngo 1.24\n")
    digits, detail = "", {}
    for i, (flag, fid, src) in enumerate(PROBES):
        d = os.path.join(pdir, "w%d" % i)
        os.makedirs(d)
        with open(os.path.join(d, "w.go"), "w") as f:
            f.write(src)
        rc, err, to = common.run_goderive(binp, pdir, ["./w%d" % i], timeout=60)
        ok = False
        mode = PROBE_MODE.get(flag, "build")
        if mode.startswith("refuse") and rc == 1:
            ok = True
        elif mode == "refuse":
            ok = False
        elif rc == 0 and mode.endswith("run"):
            p = common.sh(["go", "run", "./w%d" % i], cwd=pdir, timeout=300)
            ok = p.returncode == 0 and "ok" in p.stderr + p.stdout
            err = p.stderr
        elif rc == 0:
            p = common.sh(["go", "build", "./w%d" % i], cwd=pdir, timeout=300)
            ok = p.returncode == 0
            err = p.stderr
        digits += "1" if ok else "0"
        detail[flag] = {"finding": fid, "fixed": ok, "goderive_rc": rc, "first_error": (err or "").strip().splitlines()[-1:]}
    for i, (name, src) in enumerate(INFO_PROBES):
        d = os.path.join(pdir, "v%d" % i)
        os.makedirs(d)
        with open(os.path.join(d, "w.go"), "w") as f:
            f.write(src)
        rc, err, to = common.run_goderive(binp, pdir, ["./v%d" % i], timeout=60)
        ok = False
        if rc == 0:
            p = common.sh(["go", "build", "./v%d" % i], cwd=pdir, timeout=300)
            ok, err = p.returncode == 0, p.stderr
        # exit 1 = goderive now rejects the signature (repaired by rejection); a panic (exit 2) or an exit 0
        # with a file that does not compile means the defect is still there
        detail["info:" + name] = {"goderive_rc": rc, "compiles": ok, "rejected": rc == 1,
                                  "still_present": (rc == 0 and not ok) or rc not in (0, 1),
                                  "first_error": [l for l in (err or "").strip().splitlines() if l.strip()][:2]}
    return digits, detail


# ---------------------------------------------------------------- corpus


def _goderive_pkg(binp, cdir, pkg):
    rc, err, to = common.run_goderive(binp, cdir, ["./" + pkg], timeout=60)
    return pkg, rc, err[-400:], to


def _build_pkg(cdir, pkg):
    p = common.sh(["go", "build", "./" + pkg], cwd=cdir, timeout=600)
    return pkg, p.returncode, p.stderr[-600:]


def prepare(tier, seed, plugins):
    """Generates the corpus (after probing the variant flags), runs the real goderive on every package
    separately, type-checks every package separately, links the packages that compile into one driver
    program and runs implementation and model over ops.txt. Cached per repo hash like prepare_corpus."""
    tools = common.build_tools()
    d, binp = common.build_goderive()
    cdir = common.corpus_dir(tier, seed, plugins, GEN)
    tag = common.hash_tree(common.LEAN, ["GoderiveModel/S", "GoderiveModel/U", "GoderiveModel/Spec", "Driver"]) + tools[-8:]
    with common.Lock("corpus-" + os.path.basename(cdir)):
        info_path = os.path.join(cdir, "info.json")
        if os.path.exists(info_path):
            info = json.load(open(info_path))
            if info.get("tag") == tag and os.path.exists(os.path.join(cdir, "model.txt")):
                return info
        shutil.rmtree(cdir, ignore_errors=True)
        os.makedirs(cdir)
        t0 = time.time()
        digits, probe = probe_flags(binp, cdir)
        args = [os.path.join(tools, GEN), "-out", cdir, "-seed", str(seed), "-harness", common.HARNESS,
                "-plugins", ",".join(plugins), "-cfg", digits]
        if tier == "thorough":
            args.append("-thorough")
        common.sh(args, check=True, timeout=600)
        pkgs = open(os.path.join(cdir, "pkgs.txt")).read().split()
        info = {"dir": cdir, "tag": tag, "pkgs": pkgs, "cfg": digits, "probe": probe,
                "stats": json.load(open(os.path.join(cdir, "stats.json")))}
        # the real goderive, one run per package: a failure in one package must not hide the others
        status = {}
        with concurrent.futures.ThreadPoolExecutor(max_workers=8) as ex:
            for pkg, rc, err, to in ex.map(lambda p: _goderive_pkg(binp, cdir, p), pkgs):
                status[pkg] = {"goderive_rc": rc, "goderive_err": err if rc != 0 else "", "timeout": to}
        info["goderive_s"] = round(time.time() - t0, 2)
        # compile oracle, one package at a time
        t1 = time.time()
        with concurrent.futures.ThreadPoolExecutor(max_workers=8) as ex:
            for pkg, rc, err in ex.map(lambda p: _build_pkg(cdir, p), pkgs):
                status[pkg]["compiles"] = rc == 0
                status[pkg]["compile_err"] = "" if rc == 0 else "\n".join(err.strip().splitlines()[:3])
        info["compile_s"] = round(time.time() - t1, 2)
        info["status"] = status
        good = [p for p in pkgs if status[p]["goderive_rc"] == 0 and status[p]["compiles"]]
        with open(os.path.join(cdir, "main.go"), "w") as f:
            f.write("package main\n\nimport (\n\t\"verifharness/rt\"\n\n")
            for p in good:
                f.write("\t\"corpus/%s\"\n" % p)
            f.write(")\n\nfunc main() {\n")
            for p in good:
                f.write("\trt.RegFuncs(%s, %s.Run)\n" % (json.dumps(p), p))
            f.write("\trt.Main()\n}\n")
        p = common.sh(["go", "build", "-o", "corpus.bin", "."], cwd=cdir, timeout=1800)
        info["build_rc"], info["build_err"] = p.returncode, p.stderr[-3000:]
        if p.returncode == 0:
            with open(os.path.join(cdir, "ops.txt")) as fin, open(os.path.join(cdir, "impl_raw.txt"), "w") as fout:
                env = dict(common.GOENV)
                env["GOMEMLIMIT"] = "2GiB"
                pr = subprocess.run([os.path.join(cdir, "corpus.bin")], stdin=fin, stdout=fout,
                                    stderr=subprocess.PIPE, env=env, timeout=1800)
                info["impl_rc"] = pr.returncode
                info["impl_err"] = pr.stderr.decode(errors="replace")[-2000:]
            # the final implementation answers: build ops and ops of packages that did not get as far as
            # running are answered from the recorded statuses
            with open(os.path.join(cdir, "ops.txt")) as fo, open(os.path.join(cdir, "impl_raw.txt")) as fr, \
                    open(os.path.join(cdir, "impl.txt"), "w") as fi:
                for op, raw in zip(fo, fr):
                    f = op.split(" ", 4)
                    st = status[f[3]]
                    if f[2] == "build":
                        ans = "g%d.c%d" % (0 if st["goderive_rc"] == 0 else 1, 1 if st["compiles"] else 0)
                    elif st["goderive_rc"] != 0:
                        ans = "nogen"
                    elif not st["compiles"]:
                        ans = "nocompile"
                    else:
                        ans = raw.rstrip("\n").split(" ", 1)[1][len("impl="):]
                    fi.write("%s impl=%s\n" % (f[1], ans))
            with open(os.path.join(cdir, "model.txt"), "w") as fout:
                cat = subprocess.Popen(["cat", os.path.join(cdir, "prelude.txt"), os.path.join(cdir, "ops.txt")],
                                       stdout=subprocess.PIPE)
                pr = subprocess.run([common.driver_path()], stdin=cat.stdout, stdout=fout, stderr=subprocess.PIPE, timeout=1800)
                cat.wait()
                info["model_rc"] = pr.returncode
        json.dump(info, open(info_path, "w"), indent=1)
        return info


def all_findings():
    try:
        return json.load(open(os.path.join(common.VERIF, "known_findings.json"))).get("findings", [])
    except (OSError, ValueError):
        return []


def known_ids():
    """Findings listed with status "known" in known_findings.json (never written by the checks), keyed by
    id. An entry may also name the witness classes it covers (`"witness_class": ["void", ...]`, the
    reasons of WHY_FINDING): then those classes are known under that entry's id, whatever it is."""
    try:
        js = json.load(open(os.path.join(common.VERIF, "known_findings.json")))
    except (OSError, ValueError):
        return {}
    out = {}
    for f in js.get("findings", []):
        if f.get("status") != "known":
            continue
        out[f["id"]] = f
        wc = f.get("witness_class") or []
        for w in ([wc] if isinstance(wc, str) else wc):
            out["class:" + w] = f
    return out


def compare(rep, info, prop, opnames, only_pkg=None):
    """Diffs implementation / model / specification. A spec mismatch that the model mirrors and whose
    reason belongs to a finding listed as known is a KNOWN-FINDING; any other spec mismatch is a
    VIOLATION with the op line (which contains the signature) as replay; model != implementation with the
    spec satisfied breaks the correspondence."""
    cdir = info["dir"]
    if info.get("build_rc") != 0:
        rep.violation("the driver program over the packages that compile one by one does not build: " + info.get("build_err", "")[:800],
                      {"corpus": cdir, "cmd": "go build ."}, False)
        return
    if info.get("impl_rc") != 0 or info.get("model_rc") != 0:
        raise common.CheckError("corpus program or Lean driver failed: impl_rc=%s model_rc=%s %s" % (
            info.get("impl_rc"), info.get("model_rc"), info.get("impl_err", "")[-300:]))
    classes = {c["Pkg"]: c for c in json.load(open(os.path.join(cdir, "classes.json")))}
    status = info["status"]
    known = known_ids()
    why_of = {}            # pkg -> reason given by the model's build answer
    n = ran = 0
    distinct = set()
    table = {}             # (kind, predicted, actual) -> count, build ops only
    defects = {}           # (finding id, why) -> {"ops": n, "pkgs": set, "witness": op}
    other_spec, t1_broken = [], []
    samples = []
    with open(os.path.join(cdir, "ops.txt")) as fo, open(os.path.join(cdir, "impl.txt")) as fi, \
            open(os.path.join(cdir, "model.txt")) as fm:
        for op, li, lm in zip(fo, fi, fm):
            f = op.split(" ", 4)
            if f[2] not in opnames or classes[f[3]]["Prop"] != prop:
                continue
            if only_pkg and f[3] != only_pkg:
                continue
            i1, di = common.parse_kv(li)
            i2, dm = common.parse_kv(lm)
            if i1 != f[1] or i2 != f[1]:
                raise common.CheckError("line protocol out of step at op %s (%s / %s)" % (f[1], i1, i2))
            impl, model, spec = di.get("impl"), dm.get("model"), dm.get("spec")
            if model is None or spec is None:
                raise common.CheckError("model driver rejected op %s: %s" % (f[1], lm.strip()))
            n += 1
            kind = classes[f[3]]["Kind"]
            if f[2] == "build":
                why_of[f[3]] = dm.get("why")
                key = "%s predicted=%s actual=%s" % (kind, model, impl)
                table[key] = table.get(key, 0) + 1
            elif impl not in ("nocompile", "nogen"):
                ran += 1
                distinct.add(hashlib.sha1(op.split(" ", 2)[2].encode()).digest()[:8])
            if len(samples) < 6 and (n % 173 == 1 or (impl != spec and len(samples) < 3)):
                samples.append({"op": op.strip()[:500], "impl": impl, "model": model, "spec": spec})
            if impl == spec:
                if model != impl:
                    t1_broken.append((op, impl, model, spec))
                continue
            # the real code violates the property on this input
            why = dm.get("why") or why_of.get(f[3])
            fid = WHY_FINDING.get(why)
            if model == impl and fid:
                dkey = (fid, why)
                dd = defects.setdefault(dkey, {"ops": 0, "pkgs": set(), "witness": None})
                dd["ops"] += 1
                dd["pkgs"].add(f[3])
                if (f[2] == "build" or dm.get("why")) and (dd["witness"] is None or len(op) < len(dd["witness"][0])):
                    dd["witness"] = (op, impl, model, spec)
            else:
                other_spec.append((op, impl, model, spec))
    rep.cov["evaluations"] += n
    rep.cov["distinct_nontrivial"] += len(distinct)
    rep.cov["disagreements_checked"] += n
    rep.cov["programs"] += len([p for p in info["pkgs"] if classes[p]["Prop"] == prop])
    rep.cov["behaviour_ops_run_on_compiled_wrappers"] = ran
    rep.cov["compile_table"] = table
    rep.cov["samples"] += samples
    rep.cov["model_variant"] = {"cfg": info["cfg"], "probe": info["probe"]}
    nogen = [p for p in info["pkgs"] if classes[p]["Prop"] == prop and status[p]["goderive_rc"] != 0]
    rep.cov["goderive_failures"] = len(nogen)
    for (fid, why), dd in sorted(defects.items()):
        op, impl, model, spec = dd["witness"] or (None, None, None, None)
        wpkg = op.split(" ", 4)[3] if op else None
        wit = classes[wpkg]["Go"] if wpkg else ""
        wtext = WHY_TEXT[why]
        if why == "dup" and info["probe"].get("prefixFixed", {}).get("fixed"):
            wtext = WHY_TEXT["dup/prefixFixed"]
        text = "%s: %s (%d packages, %d ops; minimal witness: %s)" % (
            fid, wtext, len(dd["pkgs"]), dd["ops"], wit[:200])
        listed = any(why == w or why in (w if isinstance(w, list) else [w])
                     for f_ in all_findings() for w in [f_.get("witness_class") or []])
        if why in PENDING and not listed and fid not in known:
            rep.known.append("PENDING " + text)
            rep.cov.setdefault("pending_findings", []).append({"class": why, "packages": len(dd["pkgs"]), "ops": dd["ops"], "witness": wit})
        elif "class:" + why in known:
            rep.known.append(text.replace(fid + ":", known["class:" + why]["id"] + ":", 1))
        elif fid in known and not known[fid].get("witness_class"):
            rep.known.append(text)
        else:
            st = status[op.split(" ", 4)[3]] if op else {}
            rep.violation("defect reproduced on the real code and not listed as known: " + text + " | " + st.get("compile_err", ""),
                          {"op": (op or "").strip(), "impl": impl, "model": model, "spec": spec, "finding": fid, "class": why,
                           "signature": classes[op.split(" ", 4)[3]]["Go"] if op else None,
                           "compile_error": st.get("compile_err"), "packages": sorted(dd["pkgs"])[:20]}, True)
    for op, impl, model, spec in other_spec[:5]:
        pkg = op.split(" ", 4)[3]
        rep.violation("emitted code disagrees with the specification: impl=%s spec=%s model=%s on %s %s" % (
            impl, spec, model, op.strip()[:300], status[pkg].get("compile_err") or status[pkg].get("goderive_err") or ""),
            {"op": op.strip(), "impl": impl, "model": model, "spec": spec, "signature": classes[pkg]["Go"],
             "package": os.path.join(cdir, pkg)}, True)
    if t1_broken:
        op, impl, model, spec = t1_broken[0]
        rep.violation("correspondence T1 broken: emitted code and Lean model differ on %d ops (spec still satisfied on them), first: impl=%s model=%s on %s" % (
            len(t1_broken), impl, model, op.strip()[:300]),
            {"correspondence": "T1 " + ",".join(sorted(opnames)), "op": op.strip(), "impl": impl, "model": model, "spec": spec}, False)


def import_closure(module):
    """The project files a module depends on (transitively): what the forbidden-construct grep must cover
    for this property's theorems."""
    seen, todo = {}, [module]
    while todo:
        m = todo.pop()
        path = os.path.join(common.LEAN, *m.split(".")) + ".lean"
        if m in seen or not os.path.exists(path):
            continue
        seen[m] = path
        for line in open(path):
            line = line.strip()
            if line.startswith("import "):
                todo += [x for x in line.split()[1:] if x.startswith(("GoderiveModel", "Driver"))]
    return sorted(seen.values())


def proof_part(rep, prop):
    """common.proof_part, but building only this property's theorems and the driver: other parts of the
    Lean project are checked by their own properties (and may be mid-edit while this check runs)."""
    targets = ["GoderiveModel.Props." + prop, "driver"]
    orig, orig_sources = common.lean_build, common.lean_sources
    common.lean_build = lambda t=None: orig(targets)
    common.lean_sources = lambda: import_closure("GoderiveModel.Props." + prop)
    try:
        ok = common.proof_part(rep, prop, thorough_checker=(rep.tier == "thorough"))
    finally:
        common.lean_build, common.lean_sources = orig, orig_sources
    rep.cov["checker_cmd"] = rep.cov["checker_cmd"].replace("lake build &&", "lake build %s &&" % " ".join(targets), 1)
    return ok


# which theorems speak about the probed model variant: flag name -> (theorems that apply when the flag is
# fixed, theorems that apply (with their side condition) when it is not)
APPLICABLE = {
    "C15": [
        (("unnamedFixed", "shadowFixed"), ["curry_spec_fixed", "flip_spec_fixed", "apply_spec_fixed"],
         ["curry_spec_partial", "flip_spec_partial", "apply_spec_partial",
          "curry_full_fails", "flip_full_fails", "apply_full_fails"]),
        (("unnamedFixed", "shadowFixed", "prefixFixed"), ["uncurry_curry_fixed"], ["uncurry_curry_partial"]),
        (("unnamedFixed", "shadowFixed", "prefixFixed", "crossFixed"), ["uncurry_spec_fixed (no side condition)"],
         ["uncurry_spec_prefix (only the user's own clash left: F6b)", "uncurry_spec_partial"]),
        (("unnamedFixed", "shadowFixed", "prefixFixed", "crossFixed", "voidFixed"), ["uncurry_compiles_fixed"], ["uncurry_compiles_partial"]),
        (("resultsFixed",), ["results_stripped"], []),
        (("resultOuterFixed",), [], ["(uncurry: an inner result named like the outer parameter — class resultparam, modelled by effResultsUncurry/resultsOk)"]),
        (("unnamedFixed", "shadowFixed", "voidFixed"), ["plumb_compiles_fixed"],
         ["curry_compiles_partial", "flip_compiles_partial", "apply_compiles_partial", "curry_witnesses"]),
    ],
    "C16": [
        (("zeroFixed", "lhsFixed"), ["compose_compiles_fixed", "zero_ok_repaired"],
         ["compose_compiles_partial", "zero_ok", "zero_witnesses", "compose_lhs_witness", "fmap_join_zero_witness"]),
        (("unnamedFixed", "shadowFixed"), ["toerror_compiles_partial (side condition empty)"],
         ["toerror_compiles_partial", "toerror_witnesses"]),
        (("localsFixed",), [], ["toerror_compiles_partial (its hloc clause)"]),
        (("passFixed",), ["joinE_spec_fixed", "bindE_spec_fixed"], ["joinE_spec_partial", "bindE_spec_partial", "joinE_passthrough_witness"]),
        (("errTypeFixed", "errRecvFixed", "typedNilFixed"), ["isError_fixed", "isError_sound_partial (side condition empty)"],
         ["isError_sound_partial", "isError_witnesses"]),
    ],
}
ALWAYS = {
    "C15": ["rename_distinct", "tuple_spec"],  # rename_distinct is stated for every variant of `unusable`
    "C16": ["compose_spec", "compose_no_failure", "compose_first_failure", "compose_calls_in_order", "traverse_spec",
            "fmapE_spec", "fmapE_fn_spec", "fmapE_fn_evaluates_nothing", "join_of_fmap_fn",
            "toerror_spec"],
}


def applicable_theorems(prop, probe):
    out = {"unconditional": ALWAYS[prop], "full_strength_for_probed_variant": [], "with_side_condition_for_probed_variant": []}
    for flags, fixed, partial in APPLICABLE[prop]:
        if all(probe.get(f, {}).get("fixed") for f in flags):
            out["full_strength_for_probed_variant"] += fixed
        else:
            out["with_side_condition_for_probed_variant"] += partial
            out.setdefault("flags_not_fixed", [])
            out["flags_not_fixed"] += [f for f in flags if not probe.get(f, {}).get("fixed") and f not in out["flags_not_fixed"]]
    return out


def run_family(rep, prop, plugins, opnames, only_pkg=None):
    proof_part(rep, prop)
    info = prepare(rep.tier, rep.seed, plugins)
    rep.cov["applicable_theorems"] = applicable_theorems(prop, info["probe"])
    rep.cov["corpus"] = info["stats"]
    rep.cov["timing"] = {"goderive_s": info.get("goderive_s"), "compile_s": info.get("compile_s")}
    compare(rep, info, prop, opnames, only_pkg)
    return info


def replay_family(rep, prop, plugins, opnames, path):
    r = json.load(open(path))
    rep.seed, rep.tier = r.get("seed", rep.seed), r.get("tier", rep.tier)
    op = r.get("op") or ""
    pkg = op.split(" ")[3] if op.count(" ") > 3 else None
    print("replay: regenerating the corpus of seed %s and re-checking package %s: %s" % (rep.seed, pkg, op[:300]))
    info = run_family(rep, prop, plugins, opnames, only_pkg=pkg)
    if pkg:
        st = info["status"].get(pkg, {})
        print("  goderive exit status %s, package compiles: %s %s" % (st.get("goderive_rc"), st.get("compiles"), st.get("compile_err", "")))
        print("  package sources: %s" % os.path.join(info["dir"], pkg))
    return rep.finish()


def run(rep):
    rep.cov["rule"] = ("signature classes: 2..5 parameters (uncurry: 1 outer + 1..4 inner) of types drawn from a 16-entry table "
                       "(basic, named basic, struct, array, pointer, slice, map, interface, named slice) x 11 naming schemes "
                       "(named, all blank, mixed blank, unnamed, `f` first/middle/last, param_<i> with and without a blank, other "
                       "generator names, blank+f; 11 outer/inner schemes for uncurry) x 0..3 results, one package per (class, "
                       "combinator in curry/flip/apply/uncurry.curry/uncurry/tuple); per package 1 build op + 4 random argument "
                       "vectors (payload 0 = zero value); every returned function is observed at three moments: the call log "
                       "after building it and all partial applications (must be empty), and two invocations (same outcome, one "
                       "call of f each). distinct_nontrivial = distinct (combinator, signature, argument vector) "
                       "ops that were executed on a wrapper that compiled (call log and results compared)")
    rep.assumptions += [
        "values are abstract payloads: the wrappers are parametric in their arguments, only positions and identity are observed",
        "no parameter has a function type (a parameter named f of a suitable recursive function type would compile and call the parameter; outside the corpus)",
        "parameter names are Go identifiers other than predeclared type names (a parameter named `string` would shadow the type inside the curry wrapper; outside the corpus)",
        "variadic signatures are outside the statement (F12: forwarded without `...`; flip of a 2-parameter variadic signature makes goderive panic in go/types.NewSignature); they belong to C09",
    ]
    run_family(rep, "C15", PLUGINS, OPS)


def replay(rep, path):
    return replay_family(rep, "C15", PLUGINS, OPS, path)
