"""C05 — DeepCopy and Clone produce an equal, fully independent copy.
Proof: Props/C05.lean (every address of the result is fresh or from the prior destination, hence disjoint from
the source; tree-shaped; no panic; the result is structurally equal in Go's sense for NaN-free sources
(`deepcopy_equal`, `clone_equal`) and, for EVERY source, has the shape and the bits of the source
(`deepcopy_same_shape`, `clone_same_shape`: Spec.shapeEq = same nil-ness, lengths, leaves bit for bit, map entries
paired one to one by the bits of the key and the shape of the value)).
Tie: T1 ops deepcopy / clone: the destination after the call is observed with canonical address numbering over
(source, destination) and must be *identical* to the model's (same reuse of the prior destination's memory, same
fresh allocations); memory ranges of source and destination must not overlap; the source is re-observed after the
call; `eq` = reflect.DeepEqual / Spec.structEq, `shape` = rt.ShapeEqual / Spec.shapeEq.
Oracle: a copy is accepted when `alias=0`, `src=1` and it is equal in Go's sense (`eq=1`) OR bit-identical in shape
(`shape=1`). The second disjunct is what judges sources holding a NaN (a float leaf, or a key of a float-keyed map):
for those Go's equality says false even for a perfect copy (and for the source against itself), so `eq` alone could
not tell a lost entry from a faithful one; the first disjunct alone accepts a copy that turned -0 into +0.
deepcopyk / clonek = the same calls on types that hold a map with POINTER keys. These are UNMODELLED: the typing of
the Lean models demands pointer-free map keys (Go's == on pointer keys is identity; Equal / Compare / Hash on such maps
are known finding F87), so there is no model answer and no theorem for them; they are judged on the emitted code alone:
`shape=1` (rt.ShapeEqual pairs the entries by the shape of the key's pointee), `alias=0` (the memory reached through
the keys takes part in the overlap test) and `src=1`. reflect.DeepEqual is not consulted there: a correct copy has fresh
key pointers and is not DeepEqual to its source.
Refusal cases (vlib/data/copyprobe, unmodelled): imported structs with an unexported field of an unexported type are
refused by the unchanged generator (nothing to demand; counted); a generator that accepts them must copy the hidden field.
deepcopyx = calls outside the precondition (nil source; top-level map into a populated map that shares keys with the
source): correspondence only."""
import re

from vlib import common

PLUGINS = ["deepcopy", "clone"]
OPS = {"deepcopy", "deepcopyx", "clone"}

_FLT = re.compile(r"(\()?\(f (32|64) (\d+)\)")
_PP = re.compile(r"\(p \d+ \(p \d+ ")
_CPX = re.compile(r"(\()?\(c (32|64) (\d+) (\d+)\)")


def _nan(w, bits):
    w, bits = int(w), int(bits)
    if w == 32:
        return (bits >> 23) & 0xff == 0xff and bits & 0x7fffff != 0
    return (bits >> 52) & 0x7ff == 0x7ff and bits & 0xfffffffffffff != 0


def _split(args):
    """top-level s-expressions of an argument string"""
    out, depth, cur = [], 0, ""
    for ch in args.strip():
        if ch == " " and depth == 0:
            if cur:
                out.append(cur)
            cur = ""
            continue
        depth += ch == "("
        depth -= ch == ")"
        cur += ch
    if cur:
        out.append(cur)
    return out


def nan_profile(src):
    """(has a NaN map key, has a NaN leaf that is not a map key) of a wire value: an entry is printed
    `(<key> <value>)`, so a float key is the only float that directly follows an opening parenthesis"""
    key = leaf = False
    for m in _FLT.finditer(src):
        if _nan(m.group(2), m.group(3)):
            if m.group(1):
                key = True
            else:
                leaf = True
    for m in _CPX.finditer(src):
        if _nan(m.group(2), m.group(3)) or _nan(m.group(2), m.group(4)):
            if m.group(1):
                key = True
            else:
                leaf = True
    return key, leaf


class Counter:
    def __init__(self):
        self.n = {"nan_key_sources": 0, "nan_leaf_sources": 0, "ptr_to_ptr_below_top_sources": 0, "populated_prior_map_ops": 0,
                  "populated_prior_map_ops_with_nan_keys": 0, "accepted_equal": 0, "accepted_by_shape_only": 0,
                  "property_ops": 0}

    def nontrivial(self, f, impl, model, spec):
        args = _split(f[4])
        src = args[0] if args else ""
        key, leaf = nan_profile(src)
        if f[2] == "deepcopyx":
            if src.startswith("(m ") and len(args) > 1 and args[1].startswith("(m ") and args[1].count("(") > 1:
                self.n["populated_prior_map_ops"] += 1
                if key or nan_profile(args[1])[0]:
                    self.n["populated_prior_map_ops_with_nan_keys"] += 1
        else:
            self.n["property_ops"] += 1
            self.n["nan_key_sources"] += key
            self.n["nan_leaf_sources"] += leaf
            # both levels of a pointer to a pointer non-nil, not at the top of the value
            self.n["ptr_to_ptr_below_top_sources"] += bool(_PP.search(src, 1))
            kv = answer_fields(impl)
            if kv.get("eq") == "1":
                self.n["accepted_equal"] += 1
            elif kv.get("shape") == "1":
                self.n["accepted_by_shape_only"] += 1
        return any(t in f[4] for t in ("(p ", "(sl ", "(m "))


def answer_fields(impl):
    return dict(p.split("=", 1) for p in (impl or "").split(";")[1:] if "=" in p)


def oracle(f, impl):
    kv = answer_fields(impl)
    return kv.get("alias") == "0" and kv.get("src") == "1" and (kv.get("eq") == "1" or kv.get("shape") == "1")


def keyed_ops(rep, info):
    """ops on pointer-keyed maps: no model; the oracle is shape=1, alias=0, src=1 on the implementation's answer"""
    import os
    cdir = info["dir"]
    n = bad = 0
    if info.get("goderive_rc") != 0 or info.get("build_rc") != 0:
        return 0
    with open(os.path.join(cdir, "ops.txt")) as fo, open(os.path.join(cdir, "impl.txt")) as fi, \
            open(os.path.join(cdir, "model.txt")) as fm:
        for op, li, lm in zip(fo, fi, fm):
            f = op.split(" ", 4)
            if f[2] not in ("deepcopyk", "clonek"):
                continue
            n += 1
            i1, di = common.parse_kv(li)
            i2, dm = common.parse_kv(lm)
            if i1 != f[1] or i2 != f[1] or dm.get("model") != "unmodelled":
                raise common.CheckError("line protocol out of step at op %s (%s / %s)" % (f[1], li.strip()[:80], lm.strip()[:80]))
            impl = di.get("impl")
            kv = answer_fields(impl)
            if not (kv.get("shape") == "1" and kv.get("alias") == "0" and kv.get("src") == "1"):
                bad += 1
                if bad <= 3:
                    rep.violation("copy of a value with a pointer-keyed map is not an independent copy of the same shape "
                                  "(shape=%s alias=%s src=%s; unmodelled, judged on the emitted code): impl=%s on %s" % (
                                      kv.get("shape"), kv.get("alias"), kv.get("src"), impl, op.strip()[:300]),
                                  {"corpus_seed": rep.seed, "op": op.strip(), "impl": impl,
                                   "types": os.path.join(cdir, "prelude.txt")}, True)
    return n


def refusal_probe(rep):
    """Imported structs with an unexported field of an UNEXPORTED type of their package (a type that cannot be written in
    the generated file): a fixed program per case (vlib/data/copyprobe). goderive may refuse the type with a message (the
    unchanged tree does, F133): then there is no copy function and nothing to demand. If it accepts, the copy functions are
    compiled and run, and the hidden field, set through the package's own functions, must come out equal through the
    exported accessors. Unmodelled (no Lean value has a field the generator cannot spell): judged on the emitted code."""
    import os
    import shutil
    import tempfile
    data = os.path.join(common.VERIF, "vlib", "data", "copyprobe")
    _, binp = common.build_goderive()
    out = {"refused": 0, "accepted": 0, "cases_run": 0, "messages": []}
    # a, b: may be refused (unwritable field types). c: structs that EMBED sync.Mutex (held by value, pointer, slice,
    # array, map) are ordinary data, d: an imported generic struct whose unexported field has the type parameter,
    # instantiated with an unexported type of the CALLING package (writable there): both MUST be accepted and copied.
    helper = {"a": "wire", "b": "wire", "c": "wire", "d": "box"}
    for case in ("a", "b", "c", "d"):
        d = tempfile.mkdtemp(prefix="verif-c05-probe-")
        try:
            for sub in (helper[case], case):
                os.makedirs(os.path.join(d, sub))
                for f in os.listdir(os.path.join(data, sub)):
                    shutil.copyfile(os.path.join(data, sub, f), os.path.join(d, sub, f[:-4]))
            with open(os.path.join(d, "go.mod"), "w") as f:
                f.write("module copyprobe\n\ngo 1.24\n")
            rc, err, to = common.run_goderive(binp, d, ["./" + case], timeout=120, mem_gb=4)
            rep.cov["programs"] += 1
            srcs = {os.path.join(sub, f): open(os.path.join(d, sub, f)).read()
                    for sub in (helper[case], case) for f in os.listdir(os.path.join(d, sub)) if f.endswith(".go") and f != "derived.gen.go"}
            if to:
                rep.violation("goderive timed out on the copy probe " + case, {"files": srcs}, True)
                continue
            if rc != 0 and case in ("c", "d"):
                rep.violation("goderive refuses a type the copy plugins support (%s): %s" % (
                    {"c": "structs embedding sync.Mutex", "d": "imported generic struct instantiated with a local unexported type"}[case],
                    err.strip()[-400:]), {"files": srcs, "cmd": "goderive ./" + case, "output": err[-3000:]}, True)
                continue
            if rc != 0:
                # a refusal: no generated code to judge (whether the message is a good one is C09's business)
                out["refused"] += 1
                out["messages"].append(err.strip()[-200:])
                continue
            out["accepted"] += 1
            p = common.sh(["go", "run", "./" + case], cwd=d, timeout=300)
            txt = p.stdout + p.stderr
            lines = [l for l in p.stdout.splitlines() if l.startswith(("ok ", "FAIL "))]
            fails = [l for l in lines if l.startswith("FAIL ")]
            out["cases_run"] += len(lines)
            rep.cov["evaluations"] += len(lines)
            gen = open(os.path.join(d, case, "derived.gen.go")).read() if os.path.exists(os.path.join(d, case, "derived.gen.go")) else ""
            if fails:
                rep.violation("copy probe %s (%s): the copy is not equal to / independent of the source: " % (case, {
                                  "a": "imported struct with an unexported field of an unexported type, accepted by goderive",
                                  "b": "bytes.Buffer, accepted by goderive", "c": "structs embedding sync.Mutex",
                                  "d": "imported generic struct over a local unexported type"}[case])
                              + "; ".join(fails)[:600],
                              {"files": srcs, "derived": gen[:8000], "output": txt[:3000], "cmd": "goderive ./%s && go run ./%s" % (case, case)}, True)
            elif p.returncode != 0 or not lines:
                rep.violation("the copy probe %s does not build or run with the emitted code: %s" % (case, txt[:600]),
                              {"files": srcs, "derived": gen[:8000], "output": txt[:3000]}, True)
        finally:
            shutil.rmtree(d, ignore_errors=True)
    return out


def run(rep):
    rep.cov["rule"] = ("every pointer / slice / map type of the corpus that plugin/deepcopy supports x every pool source (and "
                       "single-position mutations) x prior destinations (pointer to zero and to populated values, also with NaN keys "
                       "in their float-keyed maps, equal-length slices with 0..2 spare capacity and unrelated contents, empty map); "
                       "every such source again with three NaN keys (different payloads; a non-nil / non-empty value, a nil one, another "
                       "non-trivial one) in each of its float- or complex-keyed maps, and again with every float leaf a NaN of its own payload; clone over every supported type and the same "
                       "three kinds of sources; deepcopyx (correspondence only): nil sources, and top-level maps copied into "
                       "populated maps that share keys with the source (also with NaN keys on both sides); "
                       "distinct = distinct op lines with a non-nil container")
    rep.assumptions += ["user-declared DeepCopy methods in the corpus (UD, UDM, UDS) are written to copy exactly as the derived function does: the generator's dispatch to them is exercised, their bodies are not modelled", "map keys are pointer-free (the property's 'value keys') in the modelled part of the corpus",
                        "'source unchanged' cannot fail in a functional model and is carried by the tie",
                        "slices of zero-size elements are excluded (no observable backing-array identity)",
                        "maps with pointer keys (or keys holding pointers) are outside the Lean models and theorems: the ops on them "
                        "(deepcopyk, clonek) are judged on the emitted code alone (coverage.unmodelled)",
                        "'equal' is read as: equal in Go's sense (reflect.DeepEqual / Spec.structEq) OR of the same shape and bits "
                        "(rt.ShapeEqual / Spec.shapeEq); the second reading judges sources that hold a NaN leaf or a NaN map key, "
                        "which are not equal to themselves in Go's sense; a copy that differs from the source only by the sign of "
                        "a zero is accepted by the first reading"]
    common.proof_part(rep, "C05", thorough_checker=(rep.tier == "thorough"))
    info = common.prepare_corpus(rep.tier, rep.seed, PLUGINS)
    rep.cov["corpus"] = info["stats"]
    cnt = Counter()
    common.compare_corpus(rep, info, OPS, nontrivial=cnt.nontrivial, oracle=oracle, corr_only=("deepcopyx",))
    rep.cov.update(cnt.n)
    rep.cov["unmodelled"] = {"pointer_keyed_map_ops": keyed_ops(rep, info),
                             "pointer_keyed_map_types": info["stats"].get("c05:pointer-keyed-types", 0),
                             "why": "Lean typing (U/Typing hasType) admits pointer-free map keys only; judged on the Go side: "
                                    "shape=1, alias=0 (key pointees included), src=1"}
    # the corpus generator is expected to produce each of these kinds for every seed: an empty class means the check
    # did not test what it claims
    rep.cov["unmodelled"]["unwritable_field_probe"] = dict(refusal_probe(rep), why=(
        "imported structs with an unexported field of an unexported type (wire.Cursor, bytes.Buffer): refused by goderive = "
        "nothing to demand (counted as refusal cases); accepted = the compiled copy functions must reproduce the hidden field"))
    if not rep.cov["unmodelled"]["pointer_keyed_map_ops"] and not rep.violations:
        raise common.CheckError("the corpus holds no op on a pointer-keyed map")
    for k in ("nan_key_sources", "nan_leaf_sources", "ptr_to_ptr_below_top_sources", "populated_prior_map_ops", "accepted_by_shape_only"):
        if not cnt.n[k] and not rep.violations:
            raise common.CheckError("the corpus holds no op of the kind %s" % k)
    # recorded known findings of this property that the corpus cannot express (vlib/data/known)
    from vlib import probes
    probes.run(rep, "C05")


def replay(rep, path):
    import json
    r = json.load(open(path))
    print("replay: re-running the corpus of seed %s; recorded op: %s" % (r.get("seed"), r.get("op", r.get("what"))))
    rep.seed, rep.tier = r.get("seed", rep.seed), r.get("tier", rep.tier)
    run(rep)
    return rep.finish()
