"""C05 — DeepCopy and Clone produce an equal, fully independent copy.
Proof: Props/C05.lean (result structurally equal incl. nil-ness; every address of the result is fresh
or from the prior destination, hence disjoint from the source; tree-shaped). Tie: T1 ops deepcopy /
clone: the destination after the call is observed with canonical address numbering over (source,
destination) and must be *identical* to the model's (same reuse of the prior destination's memory,
same fresh allocations); memory ranges of source and destination must not overlap; the source is
re-observed after the call. deepcopyx = calls outside the precondition (nil source): correspondence only."""
from vlib import common

PLUGINS = ["deepcopy", "clone"]
OPS = {"deepcopy", "deepcopyx", "clone"}


def nontrivial(f, impl, model, spec):
    return any(t in f[4] for t in ("(p ", "(sl ", "(m "))


def oracle(f, impl):
    return impl.endswith(";eq=1;alias=0;src=1")


def run(rep):
    rep.cov["rule"] = ("every pointer / slice / map type of the corpus that plugin/deepcopy supports x every pool source (and "
                       "single-position mutations) x prior destinations (pointer to zero and to populated values, equal-length "
                       "slices with 0..2 spare capacity and unrelated contents, empty map); clone over every supported type; "
                       "distinct = distinct op lines with a non-nil container")
    rep.assumptions += ["user-declared DeepCopy methods are not in the corpus", "map keys are pointer-free (the property's 'value keys')",
                        "'source unchanged' cannot fail in a functional model and is carried by the tie",
                        "slices of zero-size elements are excluded (no observable backing-array identity)"]
    common.proof_part(rep, "C05", thorough_checker=(rep.tier == "thorough"))
    info = common.prepare_corpus(rep.tier, rep.seed, PLUGINS)
    rep.cov["corpus"] = info["stats"]
    common.compare_corpus(rep, info, OPS, nontrivial=nontrivial, oracle=oracle, corr_only=("deepcopyx",))


def replay(rep, path):
    import json
    r = json.load(open(path))
    print("replay: re-running the corpus of seed %s; recorded op: %s" % (r.get("seed"), r.get("op", r.get("what"))))
    rep.seed, rep.tier = r.get("seed", rep.seed), r.get("tier", rep.tier)
    run(rep)
    return rep.finish()
