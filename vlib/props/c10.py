"""C10 — user source files are left intact.
Proof: Props/C10.lean over G/Rewrite.lean (byte-level open/write model whose flags are the regenerated
fact `rewriteOpenFlags`; effects of a run derived from the regenerated `fsCallSites`).
Ties: T4 facts (regenerated on every run), fsobserve corpus x four flag combinations x three outcomes:
recursive snapshot before/after, strace of the run (every mutating syscall inside the package tree must
be a modelled effect, with the flags the fact file states), and the independent rewrite oracle."""
import collections
import json
import os
import re
import shutil

from vlib import common, runs

FLAGSETS = [(), ("-autoname",), ("-dedup",), ("-autoname", "-dedup")]
DERIVED = "derived.gen.go"


def outcome_of(r):
    if r["timeout"]:
        return "timeout"
    if r["rc"] == 0:
        return "success"
    if re.search(r"Generator Error|Add Error|cannot generate", r["out"]):
        return "generator-error"
    return "load-error"


def norm_flags(s):
    return set(x for x in s.replace(" ", "").split("|") if x and x not in ("O_CLOEXEC", "O_LARGEFILE"))


def observe(binp, src, work, case, flags, facts, tag, extra_args=()):
    """Runs goderive once on a fresh copy of the case package under strace and judges every change."""
    root = os.path.join(work, "%s-%s" % (case["dir"], tag))
    os.makedirs(root)
    shutil.copy(os.path.join(src, "go.mod"), root)
    shutil.copytree(os.path.join(src, case["dir"]), os.path.join(root, case["dir"]), symlinks=True)
    # the package may live in a sub-directory of the case (its siblings are then part of the watched tree)
    pkgrel = os.path.join(case["dir"], case.get("pkg") or "").rstrip("/")
    pkg = os.path.join(root, pkgrel)
    for d, _, fs in os.walk(os.path.join(root, case["dir"])):  # //line directives with absolute targets
        for f in fs:
            if f.endswith(".go"):
                fp = os.path.join(d, f)
                txt = open(fp, "rb").read()
                if b"ABSROOT" in txt:
                    mode = os.stat(fp).st_mode
                    os.chmod(fp, 0o644)
                    open(fp, "wb").write(txt.replace(b"ABSROOT", root.encode()))
                    os.chmod(fp, mode)
    args = list(flags) + ["./" + pkgrel] + list(extra_args)
    if "uptodate-second-run" in case["what"]:
        runs.goderive(binp, root, ["./" + pkgrel], timeout=60)
    if case.get("history"):
        # an earlier state of the sources: generate for it first (no flags), then put the current files back
        current = {}
        for fn, old in case["history"].items():
            fp = os.path.join(pkg, fn)
            current[fn] = open(fp, "rb").read()
            open(fp, "wb").write(old.encode())
        h = runs.goderive(binp, root, ["./" + pkgrel], timeout=60)
        for fn, cur in current.items():
            open(os.path.join(pkg, fn), "wb").write(cur)
        if h["rc"] != 0:
            raise common.CheckError("history step of %s failed: %s" % (case["dir"], h["out"][-300:]))
    orig = os.path.join(work, "%s-%s-orig" % (case["dir"], tag))
    shutil.copytree(pkg, orig, symlinks=True)
    before = runs.snapshot(root)
    log = os.path.join(work, "%s-%s.strace" % (case["dir"], tag))
    r = runs.run_strace(binp, root, args, log, timeout=90)
    after = runs.snapshot(root)
    diff = runs.snapshot_diff(before, after)
    problems = []
    res = {"case": case["dir"], "what": case["what"], "flags": " ".join(flags), "rc": r["rc"], "outcome": outcome_of(r),
           "diff": diff, "renames": [], "rewritten": [], "effects": []}
    if r["timeout"] or runs.CRASH.search(r["out"]):
        problems.append(("C10/run-crashed", "goderive crashed or timed out (C09's business, recorded): %s" % r["out"][-300:]))
    # ---- oracle for the user files
    p = common.sh([common.tool_path("fsobserve"), "-expect", "-orig", orig, "-new", pkg], timeout=60)
    if p.returncode != 0:
        raise common.CheckError("rewrite oracle failed: " + p.stderr[-1000:])
    files = {}
    for line in p.stdout.splitlines():
        j = json.loads(line)
        files[j["file"]] = j
    logged = collections.Counter(re.findall(r"changing function call name from (\S+) to (\S+)", r["out"]))
    seen = collections.Counter()
    may_rename = bool(flags)
    for fn, j in sorted(files.items()):
        rel = os.path.join(pkgrel, fn)
        if not j["changed"]:
            continue
        res["rewritten"].append(fn)
        for old, new, _line in j["renames"]:
            seen[(old, new)] += 1
            res["renames"].append([fn, old, new])
        if not may_rename:
            problems.append(("C10/touched-without-flags", "%s was modified although neither -autoname nor -dedup was given" % rel))
            continue
        if not j["parse_new_ok"]:
            problems.append(("C10/rewrite-not-go" + ("-leftover" if j["leftover"] else ""),
                             "%s no longer parses after the rewrite: %s" % (rel, j["note"])))
            continue
        if not j["renames"]:
            problems.append(("C10/rewritten-without-rename", "%s was rewritten but no call identifier in it changed (%s)" % (rel, j["note"])))
            continue
        if not j["oracle_agree"]:
            problems.append(("C10/oracle-disagree", "the two independent oracles disagree on %s (machinery problem) %s" % (rel, j["note"])))
        if not j["ok"]:
            cls = "C10/rewrite-leftover" if j["leftover"] else "C10/rewrite-differs"
            problems.append((cls, "%s is not the gofmt formatting of the original with the renamed identifiers substituted: %s %s" % (
                rel, j["first_diff"], j["note"])))
    # (a run that fails after logging a rename writes nothing: then the files show a subset of the log)
    consistent = (seen == logged) if r["rc"] == 0 else not (seen - logged)
    if may_rename and not consistent and not any(c.startswith("C10/rewrite-not-go") for c, _ in problems):
        problems.append(("C10/renames-vs-log", "identifiers changed in the files %s differ from goderive's own log lines %s" % (
            dict(seen), dict(logged))))
    # ---- a run whose registration fails must not leave a user file rewritten (its calls would name functions that were
    # never generated). Files with syntax errors: refused and untouched, or rewritten with nothing lost (token-level oracle)
    res["failed_after_rewrite"] = bool(res["rewritten"] and r["rc"] != 0 and may_rename)
    if res["rewritten"] and may_rename and r["rc"] != 0 and re.search(r"Add Error|ambigious|conflicting|cannot rename", r["out"]):
        # (a run that fails LATER — generator error, I/O error on derived.gen.go — after a faithful rewrite is only counted)
        problems.append(("C10/registration-failed-after-rewriting-a-file",
                         "exit %s, but %s %s rewritten (%s): %s" % (r["rc"], ", ".join(os.path.join(pkgrel, f) for f in res["rewritten"]),
                                                                  "was" if len(res["rewritten"]) == 1 else "were", res["renames"], r["out"].strip()[-200:])))
    # ---- snapshot: everything else must be untouched
    allowed_user = set(os.path.join(pkgrel, f) for f in res["rewritten"]) if may_rename else set()
    for kind, path in diff:
        if path == os.path.join(pkgrel, DERIVED):
            res["effects"].append(kind + ":" + DERIVED)
            continue
        if kind == "modified" and path in allowed_user:
            continue
        if kind == "chmod" and path in allowed_user:
            problems.append(("C10/mode-changed", "mode of %s changed" % path))
            continue
        problems.append(("C10/unmodelled-change", "%s %s (only %s/%s may be created, modified or deleted%s)" % (
            kind, path, pkgrel, DERIVED, "" if not may_rename else " and files of that package holding a renamed call rewritten")))
    # ---- strace: every mutating syscall inside the tree is a modelled effect with the fact's flags
    want_flags = set(x.replace("os.", "") for x in facts.get("rewriteOpenFlags", []))
    muts = runs.strace_mutations(log, root)
    inside = [(sc, pth, fl, ok) for sc, pth, fl, ok in muts if pth.startswith(root + os.sep)]
    res["syscalls_inside"] = len(inside)
    cgo_tmp = re.compile(r"(^|/)[^/]*_C\d+(/|$)")
    for sc, pth, fl, ok in inside:
        rel = os.path.relpath(pth, root)
        if "cgo" in case["what"] and cgo_tmp.search(rel) and not any(cgo_tmp.search(p) for _, p in diff):
            # x/tools' loader runs `go tool cgo` in a temporary directory <import path>_C<random> NEXT TO the package
            # directory and removes it again; nothing of it is left (the snapshot diff is clean)
            res["cgo_tmp_syscalls"] = res.get("cgo_tmp_syscalls", 0) + 1
            continue
        if rel == os.path.join(pkgrel, DERIVED):
            if sc in ("open", "openat") and norm_flags(fl) == {"O_RDWR", "O_CREAT", "O_TRUNC"}:
                continue  # os.Create in (*pkg).Print
            if sc in ("unlink", "unlinkat"):
                continue  # os.Remove in (*pkg).Delete
            problems.append(("C10/unmodelled-syscall", "%s(%s, %s) on %s is not one of the modelled effects" % (sc, rel, fl, DERIVED)))
            continue
        if sc in ("open", "openat") and may_rename and rel in allowed_user:
            if norm_flags(fl) != want_flags:
                problems.append(("C10/open-flags-differ-from-fact", "open(%s, %s) but Facts.rewriteOpenFlags = %s" % (rel, fl, sorted(want_flags))))
            continue
        if sc in ("open", "openat") and may_rename and rel.endswith(".go") and os.path.dirname(rel) == pkgrel and not ok:
            continue  # failed attempt, nothing changed
        problems.append(("C10/unmodelled-syscall", "%s(%s%s) inside the package tree is not one of the modelled effects" % (sc, rel, ", " + fl if fl else "")))
    res["problems"] = problems
    res["out"] = r["out"][-600:]
    if problems:
        res["replay"] = {"files": runs.read_tree(os.path.join(src, case["dir"])), "cmd": "goderive " + " ".join(args),
                         "case": case["dir"], "pkg": case.get("pkg") or "", "after": runs.read_tree(os.path.join(root, case["dir"]))}
    return res


def run(rep):
    rep.cov["rule"] = ("fsobserve corpus (outcomes success / generator error / load error; rename pool: -dedup and -autoname "
                       "renamings to shorter, equal and longer names, gofmt-formatted and unformatted files, trailing comments, "
                       "several files incl. in-package test files sorting between the others, second-round renames, //line directives with relative / absolute "
                       "targets in sibling directories (the whole module copy is watched), parenthesised callees and other AST-lossy constructs, external test "
                       "packages, bystander files and sub-directories) x the four flag combinations; one evaluation = one "
                       "observed run (snapshot diff + strace + rewrite oracle); distinct non-trivial = distinct (case, flags) whose "
                       "run performed at least one file-system effect inside the package tree")
    rep.assumptions += ["go/format and go/parser are trusted (the oracle uses them independently of goderive: positions from its own parse of the original text)",
                        "strace -f -e trace=file sees every path-based mutating system call of the process tree",
                        "the loader (x/tools) and gotool only read the file system: checked by the strace log of every run, not proved; one exception is modelled: "
                        "for a package that imports \"C\" the loader runs `go tool cgo` in a temporary directory <import path>_C<random> next to the package "
                        "directory and removes it again (transient; nothing may be left)"]
    facts = runs.facts_and_proof(rep, "C10")
    rep.cov["facts"] = {k: facts.get(k) for k in ("fsCallSites", "rewriteOpenFlags", "externalCalls")}
    _, binp = common.build_goderive()
    with runs.Scratch("c10") as sd:
        src = os.path.join(sd, "src")
        stats = runs.gen_corpus("fsobserve", src, rep.tier, rep.seed, extra=["-gen"])
        rep.cov["corpus"] = stats
        cases = json.load(open(os.path.join(src, "cases.json")))
        work = os.path.join(sd, "work")
        os.makedirs(work)
        jobs = [(c, f, ()) for c in cases for f in FLAGSETS]
        # load error through an argument that names no package: the named package must stay untouched
        jobs += [(c, f, ("./no/such/dir",)) for c in cases[:12:3] for f in FLAGSETS]

        def one(job):
            c, f, extra = job
            return observe(binp, src, work, c, f, facts, ("".join(x[1] for x in f) or "n") + ("x" if extra else ""), extra)

        results = runs.par(one, jobs, workers=8)
        matrix = collections.Counter()
        classes = {}
        nontrivial = set()
        lengths = collections.Counter()
        rewrites = 0
        for (c, f, extra), r in zip(jobs, results):
            matrix["%s | %s" % (" ".join(f) or "no flags", r["outcome"])] += 1
            if r["effects"] or r["rewritten"]:
                nontrivial.add((c["dir"], f, extra))
            if r["rewritten"]:
                rewrites += len(r["rewritten"])
                for _fn, old, new in r["renames"]:
                    lengths["shorter" if len(new) < len(old) else "longer" if len(new) > len(old) else "equal"] += 1
            if len(rep.cov["samples"]) < 6 and (r["rewritten"] or (r["effects"] and len(rep.cov["samples"]) < 3)):
                rep.cov["samples"].append({k: r[k] for k in ("case", "what", "flags", "outcome", "effects", "renames", "syscalls_inside")})
            for cid, what in r["problems"]:
                e = classes.setdefault(cid, {"what": what, "count": 0, "replay": dict(r.get("replay", {}), flags=r["flags"], observed=what,
                                                                                      stderr=r["out"]), "found": True})
                e["count"] += 1
        rep.cov["evaluations"] = len(jobs)
        rep.cov["programs"] = len(cases)
        rep.cov["distinct_nontrivial"] = len(nontrivial)
        rep.cov["disagreements_checked"] = len(jobs)
        rep.cov["flag_outcome_matrix"] = dict(matrix)
        rep.cov["files_rewritten_and_checked_against_oracle"] = rewrites
        rep.cov["runs_that_failed_later_after_a_faithful_rewrite"] = sum(1 for r in results if r.get("failed_after_rewrite"))
        rep.cov["renamings_by_length"] = dict(lengths)
        need = {"success", "generator-error", "load-error"}
        got = set(k.split(" | ")[1] for k in matrix)
        if not need <= got:
            rep.notes.append("outcomes not reached on this run: %s" % sorted(need - got))
        runs.report_classes(rep, "C10", classes)


def replay(rep, path):
    r = json.load(open(path))
    _, binp = common.build_goderive()
    with runs.Scratch("c10r") as sd:
        os.makedirs(os.path.join(sd, r.get("case", "k")))
        open(os.path.join(sd, "go.mod"), "w").write("module fsx\n\ngo 1.24\n")
        runs.write_tree(os.path.join(sd, r.get("case", "k")), {k: v.replace("ABSROOT", sd) for k, v in r.get("files", {}).items()})
        args = r.get("flags", "").split() + ["./" + os.path.join(r.get("case", "k"), r.get("pkg") or "").rstrip("/")]
        out = runs.goderive(binp, sd, args, timeout=60)
        print("replay: goderive %s -> rc=%s\n%s" % (" ".join(args), out["rc"], out["out"][-1500:]))
        for fn, text in sorted(runs.read_tree(os.path.join(sd, r.get("case", "k"))).items()):
            if fn.endswith(".go") and r.get("files", {}).get(fn) != text:
                print("---- %s after the run (differs from the input):\n%s" % (fn, text))
    print("recorded observation: %s" % r.get("observed", r.get("what")))
    return 1
