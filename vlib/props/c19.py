"""C19 — channel combinators deliver every item exactly once under all schedules.
Proof: Props/C19.lean (layer K: one LTS per combinator, invariants by induction over Reachable, unbounded
in inputs / items / capacities).  Ties: T4 regenerated concurrency skeletons (K/Skeleton.lean), T5 trace
validation (emitted code rewritten onto harness/vsched, every step log replayed on the Lean LTS), real-runtime
stress of the unrewritten emitted code under the race detector."""
from vlib import common, conc

SYSTEMS = conc.CHANNEL_SYSTEMS


def run(rep):
    rep.cov["rule"] = (
        "executions of the code goderive emits now for Fmap over a channel, Join (chan of chan, slice of chan, select form with 2 and 3 "
        "channels, recv-only and bidirectional variants), Pipeline and Dup: (a) every interleaving by DFS for the smallest configurations, "
        "(b) every interleaving up to commutation of independent steps (sleep sets) for all configurations with 2 inputs x 0..2 items x "
        "capacities 0..1 (3 inputs x 0..1 for the select form; 1 input x 0..3 items x caps 0..2 for fmap/dup), (c) random configurations up "
        "to 3 inputs x 3 items x capacities 0..2 with random schedules seeded from VERIF_SEED; every execution is checked against the "
        "observable clauses and its step log replayed on the Lean LTS; plus real-runtime repetitions under -race with GOMAXPROCS 1/2/4/8. "
        "distinct_nontrivial = distinct step logs (configuration + schedule) accepted by the LTS in which at least one item moved; "
        "states/transitions = model states / transitions traversed by the replayed traces (not deduplicated)")
    rep.assumptions += [
        "environment as in the statement: producers send their items in order and close once, consumers keep receiving until the close",
        "Go channel semantics as modelled in K/Lts.lean (= harness/vsched); memory-level data-race freedom is observed with the race "
        "detector, the LTS proves the logical absence of conflicting accesses",
        "the theorems are unbounded; the bounds above are the bounds of the tie only"]
    conc.run(rep, "C19", SYSTEMS)


def replay(rep, path):
    return conc.replay(rep, path, "C19", SYSTEMS)
