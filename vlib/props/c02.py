"""C02 — derived Equal is exactly structural equality.
Proof: Props/C02.lean (model = spec for all types and values; spec is an equivalence that ignores
identity). Tie: T1 on the type corpus (ops equal / equalc / equalf)."""
from vlib import common

PLUGINS = ["equal", "compare", "hash"]
OPS = {"equal", "equalc", "equalf"}


def nontrivial(f, impl, model, spec):
    # non-trivial: at least one side is a non-nil composite (the op reaches a non-leaf dispatch branch)
    return "(p " in f[4] or "(sl " in f[4] or "(m " in f[4] or "(st " in f[4] or "(ar " in f[4]


def run(rep):
    rep.cov["rule"] = ("bounded-exhaustive type corpus (all leaves, every head over every leaf, seeded sample / all of depth 2, "
                       "random depth 3) x all ordered pairs of a boundary-biased value pool per type, aliased pairs, and every "
                       "single-leaf / single-nil-ness mutation; distinct = distinct (op, type, value pair) lines whose values "
                       "contain a composite")
    rep.assumptions += ["user-declared Equal methods are not in the corpus (opaque by the statement's own wording)",
                        "values are finite trees (acyclic) and NaN-free, as the property quantifies"]
    common.proof_part(rep, "C02", thorough_checker=(rep.tier == "thorough"))
    info = common.prepare_corpus(rep.tier, rep.seed, PLUGINS)
    rep.cov["corpus"] = info["stats"]
    common.compare_corpus(rep, info, OPS, nontrivial=nontrivial)

    from vlib import probes
    probes.run(rep, "C02")

def replay(rep, path):
    import json
    r = json.load(open(path))
    print("replay: re-running the corpus of seed %s and reporting op: %s" % (r.get("seed"), r.get("op", r.get("what"))))
    rep.seed, rep.tier = r.get("seed", rep.seed), r.get("tier", rep.tier)
    run(rep)
    return rep.finish()
