"""C07 — regeneration depends only on the current sources, not on the old derived file.

Proof (Props/C07.lean, model G/Reload.lean): a pass reads from the file on disk only the signatures
of callees whose result type flows into another derive call (pass_congr); hence without such flows
the result never depends on the old file (regen_no_flow), with flows it is the from-scratch file
in ONE run whenever the old file agrees on the flowing signatures (regen_one_pass); no calls left =>
file removed. The full statement is false when a stale signature flows (regen_stale_witness, F7).

Tie (black box, real binary): edit histories v1 -> v2 over generated packages and, for byte offsets k,
derived.gen.go := first k bytes of the previous / of the new output; the file left behind must be
byte-identical to the from-scratch file, the exit status the same, and the package must type-check.
Each history carries the class the model puts it in (no-flow / agreeing-flow / stale-flow).

Correspondence tie (vlib/regen.py): the model `Goderive.Reload.regen` itself is RUN (driver op `regen`) on generated
flow scenarios (harness/cmd/genregen) next to the real goderive, with the old file, from scratch and on the old
sources; outcomes (exit kind, removed / generated functions with their parameter and result types) must be equal, and
the implementation may differ from its own from-scratch result only where the model predicts exactly that (F7). A
second family runs whole invocations over several packages (order by G/Order, packages by G/Reload.invocation)."""
import hashlib
import json
import os
import random
import shutil
import subprocess
import tempfile
from concurrent.futures import ThreadPoolExecutor

from vlib import common

GOMOD = "module hist\n\ngo 1.24\n"

FIELD_TYPES = ["int", "string", "[]int", "*int", "map[string]int", "[]byte", "float64", "[2]string", "*Inner", "[]Inner"]

CALL_KINDS = {
    "equal": ("func fEqual(a, b *S) bool { return deriveEqual(a, b) }", []),
    "compare": ("func fCompare(a, b *S) int { return deriveCompare(a, b) }", []),
    "hash": ("func fHash(a *S) uint64 { return deriveHash(a) }", []),
    "clone": ("func fClone(a *S) *S { return deriveClone(a) }", []),
    "gostring": ("func fGoString(a *S) string { return deriveGoString(a) }", []),
    "deepcopy": ("func fDeepCopy(a, b *S) { deriveDeepCopy(a, b) }", []),
    "equal2": ("func fEqual2(a, b []Inner) bool { return deriveEqualInner(a, b) }", []),
    "keys": ("func fKeys(m map[string]S) []string { return deriveSort(deriveKeys(m)) }", []),
    "contains": ("func fContains(l []*S, s *S) bool { return deriveContains(l, s) }", []),
    "unique": ("func fUnique(l []*S) []*S { return deriveUnique(l) }", []),
}


def pkg_struct(fields, calls, extra=""):
    """One-file package: struct S with the given field types and a set of derive calls."""
    src = "package hist\n\ntype Inner struct {\n\tP *int\n\tQ string\n}\n\ntype S struct {\n"
    for i, t in enumerate(fields):
        src += "\tF%d %s\n" % (i, t)
    src += "}\n\n"
    for c in calls:
        src += CALL_KINDS[c][0] + "\n"
    return {"a.go": src + extra}


def pkg_feed(conv_res, ys_type, consumer, inner_first=False):
    """`zs := deriveFmap(conv, xs)` feeding another derive call; conv's result type is conv_res."""
    zero = {"int": "0", "string": '""', "float64": "0", "bool": "false"}[conv_res]
    cons = {
        "equal": "func use(xs []int, ys %s) bool {\n\tzs := deriveFmap(conv, xs)\n\treturn deriveEqual(zs, ys)\n}\n" % ys_type,
        "contains": "func use(xs []int, y %s) bool {\n\treturn deriveContains(deriveFmap(conv, xs), y)\n}\n" % conv_res,
        "sort": "func use(xs []int) []%s {\n\treturn deriveSort(deriveFmap(conv, xs))\n}\n" % conv_res,
    }[consumer]
    src = "package hist\n\nfunc conv(i int) %s { return %s }\n\n%s" % (conv_res, zero, cons)
    return {"a.go": src}


def pkg_fieldargs(f0, f1, with_test=False, nested=False):
    """derive calls whose ARGUMENTS are field expressions: the argument type changes with the field's type
    while the call text stays the same; optionally a derive call that only a _test file uses and a nested
    derive call that forces a second pass."""
    src = ("package hist\n\ntype Item struct {\n\tN int\n\tS string\n}\n\ntype Basket struct {\n\tItems %s\n\tTags %s\n}\n\n"
           "func sameItems(a, b *Basket) bool { return deriveEqualItems(a.Items, b.Items) }\n"
           "func cmpTags(a, b *Basket) int { return deriveCompareTags(a.Tags, b.Tags) }\n"
           "func hashItems(a *Basket) uint64 { return deriveHashItems(a.Items) }\n" % (f0, f1))
    files = {}
    if nested:
        src += "func names(m map[string]int) []string { return deriveSort(deriveKeys(m)) }\n"
    files["a.go"] = src
    if with_test:
        files["a_test.go"] = ("package hist\n\nimport \"testing\"\n\nfunc TestOnlyHere(t *testing.T) {\n"
                              "\tif !deriveEqualOnlyInTest(&Item{N: 1}, &Item{N: 1}) {\n\t\tt.Fatal(\"equal\")\n\t}\n}\n")
    return files


def pkg_chanflow(elem):
    """a channel-typed derive result flowing into another derive call"""
    return {"a.go": "package hist\n\ntype %s float64\n\nfunc readings(station string) <-chan %s { return nil }\n\n"
                    "func all(stations <-chan string) <-chan %s {\n\treturn deriveJoin(deriveFmap(readings, stations))\n}\n" % (elem, elem, elem)}


def pkg_keys(key_type):
    return {"a.go": "package hist\n\nfunc use(m map[%s]int) []%s {\n\treturn deriveSort(deriveKeys(m))\n}\n" % (key_type, key_type)}


def histories(rng, tier):
    """(name, class, v1 files, v2 files); class in no-flow / agree-flow / stale-flow"""
    out = []
    n = 10 if tier == "quick" else 40
    for i in range(n):
        k = rng.randint(1, 4)
        f1 = [rng.choice(FIELD_TYPES) for _ in range(k)]
        f2 = list(f1)
        what = rng.choice(["retype", "addfield", "dropfield"])
        if what == "retype":
            f2[rng.randrange(k)] = rng.choice(FIELD_TYPES)
        elif what == "addfield":
            f2.insert(rng.randrange(k + 1), rng.choice(FIELD_TYPES))
        elif len(f2) > 1:
            f2.pop(rng.randrange(k))
        kinds = [c for c in CALL_KINDS if c not in ("keys",)]
        if "[]byte" in f1 + f2 or "[2]string" in f1 + f2:
            pass
        c1 = rng.sample(kinds, rng.randint(1, 4))
        c2 = list(c1)
        how = rng.choice(["same", "add", "remove", "reorder", "none"])
        if how == "add":
            c2.insert(rng.randrange(len(c2) + 1), rng.choice([c for c in kinds if c not in c2] or kinds))
            c2 = list(dict.fromkeys(c2))
        elif how == "remove" and len(c2) > 1:
            c2.pop(rng.randrange(len(c2)))
        elif how == "reorder":
            rng.shuffle(c2)
        elif how == "none":
            c2 = []
        out.append(("struct-%d-%s-%s" % (i, what, how), "no-flow", pkg_struct(f1, c1), pkg_struct(f2, c2)))
    # a keys->sort flow (nested derive call) that does not change: agreeing flow
    out.append(("keys-agree", "agree-flow", pkg_struct(["int"], ["keys", "equal"]), pkg_struct(["string"], ["keys", "hash"])))
    # flows: a derive result feeds another derive call
    for consumer in ("equal", "contains", "sort"):
        for r1, r2 in (("int", "string"), ("string", "int"), ("int", "float64")):
            out.append(("feed-%s-%s-to-%s" % (consumer, r1, r2), "stale-flow",
                        pkg_feed(r1, "[]" + r1, consumer), pkg_feed(r2, "[]" + r2, consumer)))
        # same flow, unrelated edit (a comment / another function): agreeing flow
        v1 = pkg_feed("int", "[]int", consumer)
        v2 = {"a.go": v1["a.go"] + "\nfunc other(a, b []string) bool { return deriveEqualStrings(a, b) }\n"}
        out.append(("feed-%s-unrelated" % consumer, "agree-flow", v1, v2))
    # argument expressions whose type changes while the call text is unchanged; derive calls only used from a
    # _test file; a nested derive call forcing a second pass
    # (no "*Item": the _test file's deriveEqualOnlyInTest(*Item, *Item) would be a duplicate of it)
    fa = ["[]Item", "[]*Item", "map[string]Item", "**Item", "[2]Item", "[]string", "map[int]string"]
    for i in range(6 if tier == "quick" else 20):
        a0, a1, b0, b1 = rng.choice(fa), rng.choice(fa), rng.choice(fa), rng.choice(fa)
        wt, ne = rng.random() < 0.6, rng.random() < 0.6
        out.append(("fieldargs-%d" % i, "agree-flow" if ne else "no-flow", pkg_fieldargs(a0, a1, wt, ne), pkg_fieldargs(b0, b1, True, ne)))
    out.append(("fieldargs-test-nested", "agree-flow", pkg_fieldargs("[]Item", "[]string", True, True), pkg_fieldargs("[]*Item", "[]string", True, True)))
    # the flowing type is RENAMED (the old signature mentions a type that no longer exists): must heal in one run
    out.append(("chanflow-renamed", "agree-flow", pkg_chanflow("Celsius"), pkg_chanflow("Kelvin")))
    out.append(("chanflow-same", "agree-flow", pkg_chanflow("Celsius"), {"a.go": pkg_chanflow("Celsius")["a.go"] + "\n// edited\n"}))
    out.append(("keys-retyped", "stale-flow", pkg_keys("string"), pkg_keys("int")))
    out.append(("keys-same", "agree-flow", pkg_keys("string"), {"a.go": pkg_keys("string")["a.go"] + "\n// edited\n"}))
    # the user takes a derive function over: v2 adds a hand-written function of the name the call already has (then the
    # call is an ordinary call and nothing is generated for it), in a file that sorts before / after derived.gen.go, with
    # and without another derive call left (without: the file is removed); and the reverse edit
    for fname in ("a.go", "main.go"):
        for other in (True, False):
            for form in ("pointer", "slice"):
                v1, v2 = pkg_byhand(fname, other, form)
                out.append(("byhand-%s-%s-%s" % (fname[:-3], "other-call-left" if other else "no-call-left", form), "no-flow", v1, v2))
                if form == "pointer":
                    out.append(("byhand-undone-%s-%s" % (fname[:-3], "other-call" if other else "only-call"), "no-flow", v2, v1))
    # a METHOD named like the derive function it wraps is not a hand-written function of that name: the call stays a
    # derive call whatever the old file declares (plain prefix, and -pluginprefix=equal=Equal with the usual Equal method)
    for flags, fn in (([], "deriveEqual"), (["-pluginprefix=equal=Equal"], "Equal")):
        for other in (True, False):
            for edit in ("field-added", "comment"):
                v1, v2 = pkg_method(fn, other, edit)
                out.append(("method-%s-%s-%s" % (fn, "other-call" if other else "only-call", edit), "no-flow", v1, v2, flags))
    # histories run with -autoname / -dedup: the second version adds a call that clashes with one the old file
    # already serves; names, generated functions AND the rewritten user files must come out as from scratch
    for flags, second in ((["-autoname"], "deriveEqual"), (["-dedup"], "deriveEqualAgain"), (["-autoname", "-dedup"], "deriveEqual")):
        for where in ("same-file", "other-file", "before"):
            for t2 in ("*Path", "*Point"):
                if (t2 == "*Point") != (flags == ["-dedup"]) and flags != ["-autoname", "-dedup"]:
                    continue      # -autoname alone: conflicts only; -dedup alone: duplicates only
                v1, v2 = pkg_clash(second, t2, where)
                out.append(("clash-%s-%s-%s" % ("".join(f[1] for f in flags), where, t2.strip("*")), "no-flow", v1, v2, flags))
    return out


def pkg_byhand(fname, other, form):
    """v1: `deriveEqual(a, b)` generated; v2: the same file also declares deriveEqual by hand."""
    ty = {"pointer": "*T", "slice": "[]T"}[form]
    head = "package hist\n\ntype T struct {\n\tA int\n\tB []string\n}\n\n"
    use = "func same(a, b %s) bool { return deriveEqual(a, b) }\n" % ty
    if other:
        use += "\nfunc hashOf(a *T) uint64 { return deriveHash(a) }\n"
    hand = "\n// deriveEqual is written by hand.\nfunc deriveEqual(a, b %s) bool { return len(os.Args) > 0 }\n" % ty
    imp = "import \"os\"\n\n"
    v1 = {fname: head + use}
    v2 = {fname: "package hist\n\n" + imp + head[len("package hist\n\n"):] + use + hand}
    return v1, v2


def pkg_method(fn, other, edit):
    """`func (p *Point) fn(q *Point) bool { return fn(p, q) }`: the method bears the name of the derive call in its body."""
    def src(fields, tail):
        t = "package hist\n\ntype Point struct {\n%s}\n\n" % "".join("\t%s int\n" % f for f in fields)
        t += "// %s reports whether the points are the same.\nfunc (p *Point) %s(q *Point) bool { return %s(p, q) }\n" % (fn, fn, fn)
        if other:
            t += "\nfunc hashOf(p *Point) uint64 { return deriveHash(p) }\n"
        return {"point.go": t + tail}
    if edit == "field-added":
        return src(["X", "Y"], ""), src(["X", "Y", "Z"], "")
    return src(["X", "Y"], ""), src(["X", "Y"], "\n// edited\n")


def pkg_clash(second, t2, where):
    head = "package hist\n\ntype Point struct{ X, Y int }\n\ntype Path struct{ Pts []Point }\n\n"
    first = "func samePoint(a, b *Point) bool { return deriveEqual(a, b) }\n"
    new = "// sameOther compares the other way.\nfunc sameOther(a, b %s) bool { return %s(a, b) } // trailing\n" % (t2, second)
    v1 = {"a.go": head + first}
    if where == "same-file":
        v2 = {"a.go": head + first + "\n" + new}
    elif where == "before":
        v2 = {"a.go": head + new + "\n" + first}
    else:
        v2 = {"a.go": head + first, "b.go": "package hist\n\n" + new}
    return v1, v2


def write_pkg(d, files, derived=None):
    os.makedirs(d, exist_ok=True)
    for f in os.listdir(d):
        if f.endswith(".go"):
            os.remove(os.path.join(d, f))
    with open(os.path.join(d, "go.mod"), "w") as f:
        f.write(GOMOD)
    for name, src in files.items():
        with open(os.path.join(d, name), "w") as f:
            f.write(src)
    if derived is not None:
        with open(os.path.join(d, "derived.gen.go"), "wb") as f:
            f.write(derived)


def read_sources(d):
    out = {}
    for f in sorted(os.listdir(d)):
        if f.endswith(".go") and f != "derived.gen.go":
            out[f] = open(os.path.join(d, f)).read()
    return out


def run_once(binp, d, flags=()):
    rc, err, to = common.run_goderive(binp, d, list(flags) + ["."], timeout=60, mem_gb=4)
    p = os.path.join(d, "derived.gen.go")
    data = open(p, "rb").read() if os.path.exists(p) else None
    return rc, data, err, to


def typechecks(d):
    p = common.sh(["go", "vet", "."], cwd=d, timeout=300)
    return p.returncode == 0, p.stderr[-600:]


def offsets(rng, n, tier):
    if n == 0:
        return []
    if tier == "thorough":
        # every offset inside the header and the first function (where a cut changes what the loader sees), a dense
        # sample beyond: exhaustive cutting of every history is hours of goderive runs and adds no new loader states
        base = set(range(min(n, 160)))
        while len(base) < min(n, 260):
            base.add(rng.randrange(n))
        return sorted(base)
    base = {0, 1, n - 1, n // 2, n // 3, 2 * n // 3}
    while len(base) < min(n, 14 if tier == "quick" else 60):
        base.add(rng.randrange(n))
    return sorted(x for x in base if 0 <= x < n)


def run(rep):
    rep.cov["rule"] = ("edit histories v1->v2 over generated packages (fields retyped/added/dropped, derive calls added/removed/"
                       "reordered/all removed, a hand-written function taking over the name of a derive call (file sorting before / after "
                       "derived.gen.go, with and without another call left) and the reverse, a method named like the derive call it wraps (plain prefix and "
                       "-pluginprefix=equal=Equal), a derive result feeding another derive call with and without a change of the "
                       "flowing type) x old derived.gen.go in {absent, output of v1, every sampled byte prefix of the v1 output and "
                       "of the v2 output}; distinct = distinct (history, old-file state) whose old file is non-empty")
    rep.cov["rule"] += ("; correspondence tie: G/Reload.regen run on generated flow scenarios (chains of 1-4 derive calls through "
                        "local / package-level variables and nested calls x old file in {absent, same, retyped, renamed type, extra / "
                        "missing functions, declarations cut out, all calls removed}) against goderive with the old file, from scratch "
                        "and on the old sources; invocations over 2-5 packages (import chains through unnamed packages without derive calls, "
                        "path order against import order, every derived.gen.go absent) run twice, against G/Order + G/Reload.invocation; "
                        "two-package histories in which one package loses every source file and keeps its derived.gen.go (must be removed); "
                        "distinct also counts the scenarios where the model predicts a difference from scratch")
    rep.assumptions += ["regen tie: the plugin table `gen` of the model is measured on one-call packages (a plugin's answer depends only on "
                        "its argument types); no two types of the scenario universe are assignable to each other; the model has no helper "
                        "functions: it relies on helpers never taking the name of a user call (F78; scenarios with waiting calls under "
                        "bare-prefix names next to calls that ask for helpers of the same plugin exercise exactly that)",
                        "go/loader's tolerance of a broken derived.gen.go is the loader contract of the model (exercised, not proved)",
                        "the write itself (os.Create + two writes) is not atomic: truncated files are the crash states the next run must heal"]
    common.proof_part(rep, "C07", thorough_checker=(rep.tier == "thorough"))
    # the model run next to the implementation: G/Reload.regen on generated flow scenarios (vlib/regen.py)
    from vlib import regen
    regen.run(rep)
    _, binp = common.build_goderive()
    rng = random.Random(rep.seed)
    hs = histories(rng, rep.tier)
    known = {f["id"]: f for f in json.load(open(os.path.join(common.VERIF, "known_findings.json")))["findings"]}
    root = tempfile.mkdtemp(prefix="verif-c07-")
    jobs = []
    stats = {"histories": len(hs), "runs": 0, "truncations": 0, "classes": {}}
    try:
        # scratch outputs of v1 and v2
        scratch = {}
        hs = [h if len(h) == 5 else h + ([],) for h in hs]
        for hi, (name, cls, v1, v2, flags) in enumerate(hs):
            stats["classes"][cls] = stats["classes"].get(cls, 0) + 1
            if flags:
                stats["with_flags"] = stats.get("with_flags", 0) + 1
            for vi, files in ((1, v1), (2, v2)):
                d = os.path.join(root, "s%d_%d" % (hi, vi))
                write_pkg(d, files)
                rc, data, err, to = run_once(binp, d, flags)
                scratch[(hi, vi)] = (rc, data, err)
                scratch[(hi, vi, "src")] = read_sources(d)
                if to or "panic:" in err or "goroutine " in err:
                    rep.violation("goderive crashed or hung on history %s v%d: %s" % (name, vi, err[-300:]),
                                  {"history": name, "files": files}, True)
                elif rc == 0 and data is not None:
                    ok, verr = typechecks(d)
                    if not ok:
                        rep.violation("from-scratch output of history %s v%d does not type-check: %s" % (name, vi, verr),
                                      {"history": name, "files": files}, True)
        # incremental runs
        for hi, (name, cls, v1, v2, flags) in enumerate(hs):
            rc1, d1, _ = scratch[(hi, 1)]
            rc2, d2, _ = scratch[(hi, 2)]
            if rc2 != 0:
                # the property speaks about what a SUCCESSFUL run leaves behind: a v2 that goderive rejects
                # from scratch is not a regeneration scenario (counted, not compared)
                stats["rejected_v2"] = stats.get("rejected_v2", 0) + 1
                continue
            olds = [("v1-output", d1)]
            for src, data in (("v1", d1), ("v2", d2)):
                if data:
                    for k in offsets(rng, len(data), rep.tier):
                        olds.append(("%s[:%d]" % (src, k), data[:k]))
            for oi, (oname, old) in enumerate(olds):
                jobs.append((hi, oi, name, cls, v2, oname, old, rc2, d2, flags))

        def work(job):
            hi, oi, name, cls, v2, oname, old, rc2, d2, flags = job
            d = os.path.join(root, "i%d_%d" % (hi, oi))
            write_pkg(d, v2, old)
            rc, data, err, to = run_once(binp, d, flags)
            srcs = read_sources(d)
            tc = None
            if rc == 0 and data is not None and (data != d2 or srcs != scratch[(hi, 2, "src")]):
                tc = typechecks(d)
            shutil.rmtree(d, ignore_errors=True)
            return job, rc, data, err, to, tc, srcs

        with ThreadPoolExecutor(max_workers=12) as ex:
            results = list(ex.map(work, jobs))
        distinct = set()
        known_lines = {}
        for (hi, oi, name, cls, v2, oname, old, rc2, d2, flags), rc, data, err, to, tc, srcs in results:
            stats["runs"] += 1
            if oname != "v1-output":
                stats["truncations"] += 1
            if old:
                distinct.add((name, oname))
            same = (rc == rc2) and (data == d2)
            if same and srcs != scratch[(hi, 2, "src")]:
                bad = sorted(f for f in set(srcs) | set(scratch[(hi, 2, "src")]) if srcs.get(f) != scratch[(hi, 2, "src")].get(f))
                rep.violation("history %s (flags %s), old derived.gen.go = %s: user file(s) %s after the run differ from the from-scratch run" % (
                    name, " ".join(flags), oname, bad),
                    {"history": name, "flags": flags, "old_state": oname, "v2": v2, "got": {f: srcs.get(f) for f in bad},
                     "want": {f: scratch[(hi, 2, "src")].get(f) for f in bad}}, True)
                continue
            if len(rep.cov["samples"]) < 5 and oi == 1:
                rep.cov["samples"].append({"history": name, "class": cls, "old": oname, "identical_to_scratch": same})
            if to or "panic:" in err:
                rep.violation("goderive crashed or hung on history %s with old file %s" % (name, oname),
                              {"history": name, "old": oname, "v2": v2}, True)
                continue
            if same:
                continue
            trunc = oname != "v1-output"
            # F7 (known): a signature that flows into another derive call is stale and still VALID (history class
            # stale-flow with the v1 output or a remnant of it), or the old file is a remnant cut off inside the
            # signature line of such a producer function
            f7 = False
            if cls == "stale-flow" and (oname == "v1-output" or oname.startswith("v1[")):
                f7 = True
            elif trunc and cls in ("stale-flow", "agree-flow"):
                import re
                for m in re.finditer(rb"^func (deriveFmap\w*|deriveKeys\w*|deriveSort\w*)\(.*$", old or b"", re.M):
                    pass
                # cut inside a producer's signature: the remnant's last line starts a producer function and has no "{" yet
                last = (old or b"").rsplit(b"\n", 1)[-1]
                if re.match(rb"func (deriveFmap|deriveKeys|deriveSort|deriveJoin)", last) and not last.rstrip().endswith(b"{"):
                    f7 = True
            if f7:
                f = known.get("F7")
                if f and f["status"] == "known":
                    known_lines.setdefault("F7", "stale or cut-off signature of a derive call whose result feeds another derive call (%s, old=%s): run differs from from-scratch" % (name, oname))
                    continue
            # F24: truncated inside the header (package clause / import block): the loader rejects the package
            if trunc and rc != 0 and "no initial packages were loaded" in err:
                import re
                src_full = scratch[(hi, 1 if oname.startswith("v1[") else 2)][1] or b""
                m = re.search(rb"^package (\w+)", src_full, re.M)
                limit = m.end() if m else 0
                mi = re.search(rb"^import \((.|\n)*?^\)", src_full, re.M)
                if mi:
                    limit = mi.end()
                f = known.get("F24")
                if m and len(old or b"") < limit and f and f["status"] == "known":
                    known_lines.setdefault("F24", "derived.gen.go truncated inside its header (%s, old=%s): load fails instead of regenerating" % (name, oname))
                    continue
            what = ("file after the run differs from the from-scratch file" if rc == rc2 else "exit status %s, from scratch %s" % (rc, rc2))
            rep.violation("history %s (%s), old derived.gen.go = %s: %s%s" % (
                name, cls, oname, what, "" if tc is None or tc[0] else "; result does not type-check"),
                {"history": name, "class": cls, "old_state": oname, "v2": v2, "flags": flags,
                 "old_bytes_hex": (old or b"").hex()[:20000], "stderr": err[-500:]}, True)
            if len(rep.violations) > 6:
                break
        rep.known += list(known_lines.values())
        rep.cov["evaluations"] += stats["runs"]
        rep.cov["distinct_nontrivial"] += len(distinct)
        rep.cov["programs"] += 2 * len(hs)
        rep.cov["disagreements_checked"] += stats["runs"]
        rep.cov["histories"] = stats
    finally:
        shutil.rmtree(root, ignore_errors=True)

    from vlib import probes
    probes.run(rep, "C07")

def replay(rep, path):
    r = json.load(open(path))
    if r.get("tie") == "regen":
        # a scenario of the correspondence tie: the generator is deterministic in the seed, so the tie is re-run as it was
        print("replay: regen scenario %s (%s) — re-running the regen tie with seed %s" % (r["scenario"]["id"], r.get("which"), r.get("seed")))
        rep.seed, rep.tier = r.get("seed", rep.seed), r.get("tier", rep.tier)
        from vlib import regen
        regen.run(rep)
        return rep.finish()
    print("replay: history %s, old state %s — re-running the whole check with seed %s" % (r.get("history"), r.get("old_state"), r.get("seed")))
    rep.seed, rep.tier = r.get("seed", rep.seed), r.get("tier", rep.tier)
    run(rep)
    return rep.finish()
