"""C09 — every run ends cleanly: success, or a diagnostic, never a crash or a bad file.
Proof: Props/C09.lean (fact theorems over the regenerated Facts.lean: no swallowed errors, guarded
typs[k], the explicit panic sites and why each is unreachable / under which condition it is reached;
totality of the model functions).
Ties: T4 facts; the malformed stream of harness/cmd/genbad run through the real binary, one package per
run, with a wall-clock timeout and a memory limit; type-check oracle on every exit-0 case."""
import collections
import json
import os
import re
import subprocess

from vlib import common, runs

TIMEOUT = 20


def ident_like(s):
    return re.fullmatch(r"\w+", s) is not None


def names_hit(names, out):
    for n in names:
        if ident_like(n):
            if re.search(r"(?<![A-Za-z0-9_])" + re.escape(n) + r"(?![A-Za-z0-9_])", out):
                return n
        elif n in out:
            return n
    return None


def ill_kind(msg):
    for pat, k in (("invalid map key type", "invalid-map-key"), (r"operator \S+ not defined", "operator-not-defined"),
                   ("cannot convert", "bad-conversion"), ("used as value", "no-value-used"), ("cannot use", "argument-mismatch"),
                   (r"expected |missing ", "does-not-parse"), ("undefined:", "undefined-name"), ("redeclared", "redeclared"),
                   ("declared and not used", "unused"), ("imported and not used", "unused-import")):
        if re.search(pat, msg):
            return k
    return re.sub(r"[^a-z]+", "-", msg.lower())[:30].strip("-")


def typecheck(root, dirs):
    """Type-check oracle (in-process go/types with the source importer), 8 batches in parallel."""
    tool = common.tool_path("genbad")
    chunks = [dirs[i::8] for i in range(8) if dirs[i::8]]
    procs = [subprocess.Popen([tool, "-typecheck", "-root", root] + c, stdout=subprocess.PIPE, stderr=subprocess.PIPE,
                              env=common.GOENV, text=True) for c in chunks]
    out = {}
    for p in procs:
        o, e = p.communicate(timeout=900)
        if p.returncode != 0:
            raise common.CheckError("type-check oracle failed: " + e[-1500:])
        for line in o.splitlines():
            j = json.loads(line)
            out[j["pkg"]] = j
    return out


def judge(c, r, tc, root):
    """Returns (class id, description) problems, notes for one case."""
    problems, notes = [], []
    out = r["out"]
    pl = c["plugin"] or c["family"]
    if r["timeout"]:
        problems.append(("C09/hang:%s" % c["family"], "goderive did not terminate within %ds, run alone (killed) on: %s / %s" % (
            3 * TIMEOUT, c["family"], c["what"])))
        return problems, notes
    m = runs.CRASH.search(out)
    if m:
        line = next((l for l in out.splitlines() if "panic:" in l or "fatal error:" in l), out[:200])
        msg = line.split("panic:", 1)[-1].split("fatal error:", 1)[-1].strip()
        sig = re.sub(r"[^A-Za-z ]+", " ", msg.split(":")[0]).split()
        problems.append(("C09/panic:%s" % "-".join(sig[:6]), "Go panic instead of a diagnostic (%s, %s): %s" % (pl, c["what"], line.strip()[:300])))
        return problems, notes
    if r["rc"] != 0 and c.get("mustok"):
        problems.append(("C09/supported-input-rejected:%s:%s" % (c["family"], pl),
                         "a well-typed package inside the supported grammar is rejected (%s): %s" % (c["what"], out.strip().splitlines()[-1][:300] if out.strip() else "<no message>")))
        return problems, notes
    if r["rc"] != 0:
        if not out.strip():
            problems.append(("C09/empty-diagnostic:" + pl, "non-zero exit without any message"))
        elif c["family"] != "broken":
            hit = names_hit([n for n in c["names"] if not n.startswith("types.")], out)
            if re.search(r"&types\.\w+\{|\(\*types\.\w+\)\(0x", out):
                # (F120) the offending type must be spelled as Go writes it, not as a dump of go/types' data structures
                problems.append(("C09/diagnostic-prints-go-types-internals:" + pl,
                                 "exit %d, the message spells the type as a dump of go/types internals instead of its Go spelling (%s): %s" % (
                                     r["rc"], c["what"], out.strip().splitlines()[-1][:240])))
            elif hit is None:
                if False:
                    pass
                else:
                    problems.append(("C09/diagnostic-names-neither-call-nor-type:" + pl,
                                     "exit %d, but the message names neither the call (%s) nor the offending type: %s" % (
                                         r["rc"], c["call"], out.strip().splitlines()[-1][:300])))
        return problems, notes
    # exit 0
    if c.get("mustfail") and c.get("tag"):
        problems.append(("C09/unsupported-accepted-silently:" + c["tag"], "exit 0%s although the call cannot be generated for and the tool refuses this type in every other position (%s)" % (
            "" if out.strip() else " without any message", c["what"])))
        return problems, notes
    if c.get("mustfail"):
        problems.append(("C09/unresolvable-call-ignored", "exit 0%s although a derive call of the package can never be generated for (%s)" % (
            "" if out.strip() else " without any message", c["what"])))
        return problems, notes
    j = tc.get(c["dir"])
    has_derived = os.path.exists(os.path.join(root, c["dir"], "derived.gen.go"))
    if j is not None and not has_derived and (c.get("mustok") or c.get("tag")) and not c["userbad"] and (j["parse"] or j["types"]):
        # exit 0, but the file the package needs is not there (never written, or removed again)
        problems.append(("C09/exit0-package-left-without-derived-file:" + (c.get("tag") or pl),
                         "exit 0, but no derived.gen.go is left and the package does not type-check (%s): %s" % (c["what"], (j["parse"] + j["types"])[0][:200])))
        return problems, notes
    if j is None or not has_derived:
        return problems, notes
    derived_parse = [x for x in j["parse"] if x.startswith("derived.gen.go")]
    try:
        text = open(os.path.join(root, c["dir"], "derived.gen.go"), errors="replace").read()
    except OSError:
        text = ""
    code = re.sub(r'"(?:[^"\\\n]|\\.)*"|`[^`]*`', '""', text)  # string literals and struct tags may say anything
    if not derived_parse and "invalid type" in code:
        derived_parse = ["derived.gen.go: mentions go/types' placeholder `invalid type`: " + next(l.strip() for l in code.splitlines() if "invalid type" in l)[:160]]
    if derived_parse:
        cls = "C09/exit0-unparsable-file:" + pl  # a file that does not parse is a bad file whatever the input was
        if c.get("mustok"):
            cls = "C09/exit0-unparsable-file:%s:%s" % (c["family"], pl)
        if c.get("tag"):
            cls = "C09/exit0-unparsable-file:" + c["tag"]
        problems.append((cls, "exit 0%s but derived.gen.go does not parse (%s): %s" % (
            "" if out.strip() else " without any message", c["what"], derived_parse[0][:200])))
        return problems, notes
    if c["userbad"]:
        return problems, notes  # the user's own errors make type errors meaningless; parse was checked
    errs = j["parse"] + j["types"]
    if errs:
        kind = ill_kind(errs[0])
        if c.get("mustok") and c.get("tag"):
            problems.append(("C09/exit0-ill-typed:" + c["tag"], "supported input (%s): exit 0 and the package does not type-check: %s" % (
                c["what"], errs[0][:250])))
        elif c.get("mustok"):
            problems.append(("C09/exit0-ill-typed:%s:%s:%s" % (c["family"], pl, kind), "supported input (%s): exit 0 and the package does not type-check: %s" % (
                c["what"], errs[0][:250])))
        elif c["unsupp"] and c.get("tag"):
            problems.append(("C09/exit0-ill-typed:" + c["tag"], "exit 0 and the package does not type-check (%s): %s" % (c["what"], errs[0][:250])))
        elif c["unsupp"]:
            problems.append(("C09/exit0-ill-typed:%s:%s" % (pl, kind), "unsupported argument (%s) accepted: exit 0 and the package does not type-check: %s" % (
                c["what"], errs[0][:250])))
        else:
            problems.append(("other-property/exit0-ill-typed:%s:%s" % (pl, kind), "exit 0 and the package does not type-check (%s): %s" % (c["what"], errs[0][:250])))
    elif c["unsupp"]:
        notes.append("accepted-and-well-typed")
    if not problems and c.get("wants"):
        missing = [w for w in c["wants"] if w not in text]
        if missing:
            problems.append(("C09/exit0-file-lacks-what-the-case-needs:" + (c.get("tag") or pl),
                             "exit 0 and a file that type-checks, but derived.gen.go does not hold %r (%s): the generated function does not do what the tool does for this type elsewhere" % (
                                 missing[0], c["what"])))
    return problems, notes


def run(rep):
    rep.cov["rule"] = ("genbad malformed stream: every type-directed plugin x unsupported constituents (chan, func, interface, error, "
                       "unsafe.Pointer, unnamed non-comparable struct, pointer to it, complex, uintptr, [0]func()) x positions (top, pointer, "
                       "slice, array, map key/value, field, nested field, unnamed-struct field, named type); min/max/sort over unordered "
                       "elements; every function-consuming plugin with arguments dropped / added / reversed / replaced position by position by "
                       "19 wrong expressions (non-functions, variadic, wrong shape, untyped nil); named twins over one underlying type; broken / "
                       "empty / test-only packages; truncated, garbage and foreign derived.gen.go; import alias clashes. One evaluation = one run "
                       "of the real binary on one package; distinct non-trivial = distinct (plugin, what) cases in which goderive had to "
                       "reject something or emit code (not the controls); family unresolved: an undeclared type in every position of the argument type "
                       "(bare, pointer/slice/array/chan element, map key, map value, func parameter/result, struct fields, nested two deep) for every "
                       "type-directed plugin: non-zero exit naming the call, or a file that parses; family nonascii (type names of 1-3 non-ASCII letters, same name in 2-3 packages, "
                       "every letter prefix already taken) must end with exit 0 and a file that parses and type-checks; family mapkeys: deepcopy / clone of a map (top, field, element, map value, "
                       "behind a pointer) whose key is or holds an interface / channel is refused with a message, a key holding pointers is copied into a key of its own")
    rep.assumptions += ["panics inside go/types, x/tools loader and go/format are outside the model; the broken-file stream exercises them",
                        "the type-check oracle is go/types with the source importer (trusted)",
                        "a diagnostic that prints the type only as a %#v dump of go/types internals is counted as naming it (reported as weak)"]
    facts = runs.facts_and_proof(rep, "C09")
    rep.cov["traces_validated_against_impl"] = runs.import_tie(rep, (60 if rep.tier == "quick" else 400))
    rep.cov["facts"] = {k: facts.get(k) for k in ("swallowedErrors", "toleratedErrors", "droppedSetFuncName", "panicSites", "typeCheckErrors")}
    _, binp = common.build_goderive()
    with runs.Scratch("c09") as root:
        stats = runs.gen_corpus("genbad", root, rep.tier, rep.seed, extra=["-repo", common.REPO])
        rep.cov["corpus"] = stats
        cases = json.load(open(os.path.join(root, "cases.json")))
        def args_of(c):
            sub = lambda a: a.replace("PKGDIR", c["dir"])
            return [sub(a) for a in c.get("preargs") or []] + ["./" + c["dir"]] + [sub(a) for a in c.get("postargs") or []]

        results = runs.par(lambda c: runs.goderive(binp, root, args_of(c), timeout=TIMEOUT), cases)
        # a timeout under machine load is not a hang: re-run those cases one at a time with a long limit
        confirmed = 0
        for i, (c, r) in enumerate(zip(cases, results)):
            if r["timeout"] and confirmed >= 3:
                continue  # three hangs confirmed alone already: the remaining time-outs are taken as hangs too
            if r["timeout"]:
                for f in ("derived.gen.go",):
                    if f not in c["files"] and os.path.exists(os.path.join(root, c["dir"], f)):
                        os.remove(os.path.join(root, c["dir"], f))
                results[i] = runs.goderive(binp, root, args_of(c), timeout=3 * TIMEOUT)
                confirmed += 1 if results[i]["timeout"] else 0
        ok_dirs = [c["dir"] for c, r in zip(cases, results) if r["rc"] == 0 and not r["timeout"]]
        tc = typecheck(root, ok_dirs)
        classes, other = {}, {}
        outcome = collections.Counter()
        notes = collections.Counter()
        distinct = set()
        for c, r in zip(cases, results):
            key = "timeout" if r["timeout"] else "crash" if runs.CRASH.search(r["out"]) else "exit0" if r["rc"] == 0 else "rejected"
            outcome["%s | %s" % (c["family"], key)] += 1
            if "control" not in c["what"]:
                distinct.add((c["plugin"], c["family"], c["what"]))
            probs, ns = judge(c, r, tc, root)
            for n in ns:
                notes[n] += 1
            for cid, what in probs:
                tgt = other if cid.startswith("other-property/") else classes
                e = tgt.setdefault(cid, {"what": what, "count": 0, "found": True, "replay": {
                    "case": c["dir"], "family": c["family"], "plugin": c["plugin"], "input": c["what"],
                    "files": runs.read_tree(os.path.join(root, c["dir"])), "cmd": "goderive " + " ".join(args_of(c)), "args": args_of(c),
                    "rc": r["rc"], "timeout": r["timeout"], "stderr": r["out"][-1500:], "observed": what}})
                e["count"] += 1
            if len(rep.cov["samples"]) < 6 and len(distinct) % 251 == 1:
                rep.cov["samples"].append({"case": c["dir"], "family": c["family"], "plugin": c["plugin"], "input": c["what"],
                                           "rc": r["rc"], "stderr": r["out"].strip()[-200:]})
        # ---- accepted element types that are comparable only at run time: the package's own probe test must pass
        probe_cases = [(c, r) for c, r in zip(cases, results) if c.get("tag") == "probe" and r["rc"] == 0 and not r["timeout"]
                  and os.path.exists(os.path.join(root, c["dir"], "derived.gen.go")) and not (tc.get(c["dir"], {}).get("types") or tc.get(c["dir"], {}).get("parse"))]
        probe_fail = []
        for c, r in probe_cases:
            p = common.sh(["go", "test", "-count=1", "./" + c["dir"]], cwd=root, timeout=300)
            if p.returncode != 0:
                line = next((l for l in (p.stdout + p.stderr).splitlines() if "panic:" in l), (p.stdout + p.stderr).strip()[-200:])
                # not a C09 matter (the output parses and type-checks; the panic is Go's own semantics of a map keyed by an
                # interface on a dynamic value that cannot be hashed): recorded, not judged
                probe_fail.append("%s over %s: accepted; go test: %s" % (c["call"], c["what"], line.strip()[:160]))
        rep.cov["probe_tests_failing_at_run_time_not_judged"] = probe_fail
        rep.cov["probe_tests_run"] = len(probe_cases)

        # ---- several packages in one invocation: the run fails iff one of the named packages fails, wherever the
        # failing package stands among the arguments and in the processing (path) order
        alone = {c["dir"]: r for c, r in zip(cases, results)}
        plain = [c for c in cases if not (c.get("preargs") or c.get("postargs")) and not alone[c["dir"]]["timeout"]]
        goods = [c for c in plain if c.get("mustok") and alone[c["dir"]]["rc"] == 0 and c["family"] == "nonascii"]
        bads = []
        for want in ("conflict without -autoname", "duplicate without -dedup", "chan int @ top", "argument 0 replaced by chan", "undeclared type as map key"):
            hit = [c for c in plain if want in c["what"] and alone[c["dir"]]["rc"] != 0 and not runs.CRASH.search(alone[c["dir"]]["out"])]
            if hit:
                bads.append(hit[len(hit) // 2])
        multi = []
        for bad in bads:
            lo = [g for g in goods if g["dir"] < bad["dir"]][-2:]
            hi = [g for g in goods if g["dir"] > bad["dir"]][:2]
            group = lo + hi
            if len(group) < 2:
                continue
            for pos in range(len(group) + 1):
                order = group[:pos] + [bad] + group[pos:]
                multi.append((bad, ["./" + c["dir"] for c in order]))
            multi.append((bad, ["bad/" + c["dir"] for c in group[:1] + [bad] + group[1:]]))

        def run_multi(job):
            bad, args = job
            for c in set(a.split("/")[-1] for a in args):  # fresh state: no derived files from the single runs
                fp = os.path.join(root, c, "derived.gen.go")
                if os.path.isfile(fp):
                    os.remove(fp)
            return runs.goderive(binp, root, args, timeout=3 * TIMEOUT)

        mres = [run_multi(j) for j in multi]  # sequential: the groups share package directories
        for (bad, args), r in zip(multi, mres):
            if r["timeout"] or runs.CRASH.search(r["out"]):
                e = classes.setdefault("C09/multi-package-crash", {"what": "crash or hang with several packages named: goderive %s: %s" % (" ".join(args), r["out"][-200:]),
                                                                   "count": 0, "found": True, "replay": {"cmd": "goderive " + " ".join(args), "stderr": r["out"][-800:]}})
                e["count"] += 1
            elif r["rc"] == 0:
                e = classes.setdefault("C09/failing-package-but-exit-0", {
                    "what": "`goderive %s` exits 0 although package %s (%s) is refused when named alone (%s): a failure of a package that is not the last one "
                            "processed is lost" % (" ".join(args), bad["dir"], bad["what"], alone[bad["dir"]]["out"].strip()[-160:]),
                    "count": 0, "found": True,
                    "replay": {"cmd": "goderive " + " ".join(args), "args": args, "case": bad["dir"], "family": "multi", "input": bad["what"],
                               "files_by_package": {a.split("/")[-1]: runs.read_tree(os.path.join(root, a.split("/")[-1])) for a in args},
                               "files": runs.read_tree(os.path.join(root, bad["dir"])), "rc": 0, "timeout": False, "stderr": r["out"][-800:],
                               "observed": "exit 0 with a failing package among the arguments"}})
                e["count"] += 1
            elif not r["out"].strip():
                e = classes.setdefault("C09/empty-diagnostic:multi", {"what": "non-zero exit without a message: goderive " + " ".join(args), "count": 0, "found": True,
                                                                      "replay": {"cmd": "goderive " + " ".join(args)}})
                e["count"] += 1
        rep.cov["multi_package_invocations"] = len(multi)
        rep.cov["evaluations"] = len(cases) + len(multi)
        rep.cov["programs"] = len(cases)
        rep.cov["distinct_nontrivial"] = len(distinct)
        rep.cov["disagreements_checked"] = len(cases)
        rep.cov["outcomes_by_family"] = dict(outcome)
        rep.cov["exit0_cases_type_checked"] = len(tc)
        rep.cov["notes_counts"] = dict(notes)
        rep.cov["findings_owned_by_other_properties"] = {k: {"count": v["count"], "what": v["what"], "case": v["replay"]["input"]} for k, v in other.items()}
        for k, v in sorted(other.items()):
            rep.notes.append("%s (%d cases): %s" % (k, v["count"], v["what"][:200]))
        runs.report_classes(rep, "C09", classes)
    # recorded findings of this property (known ones, and fixed ones as regression witnesses) that the streams above
    # do not produce (vlib/data/known)
    from vlib import probes
    probes.run(rep, "C09")


def replay(rep, path):
    r = json.load(open(path))
    _, binp = common.build_goderive()
    with runs.Scratch("c09r") as sd:
        open(os.path.join(sd, "go.mod"), "w").write("module bad\n\ngo 1.24\n")
        case = r.get("case", "c0000")
        files = dict(r.get("files", {}))
        files.pop("derived.gen.go", None) if r.get("family") != "broken" else None
        runs.write_tree(os.path.join(sd, case), files)
        args = r.get("args") or ["./" + case]
        out = runs.goderive(binp, sd, args, timeout=TIMEOUT)
        print("replay: %s (%s)\n  goderive %s -> rc=%s timeout=%s\n%s" % (r.get("input"), r.get("class"), " ".join(args), out["rc"], out["timeout"], out["out"][-1500:]))
        if out["rc"] == 0 and not out["timeout"]:
            tc = typecheck(sd, [case]).get(case, {})
            print("  type-check oracle: parse=%s types=%s" % (tc.get("parse"), tc.get("types")))
            bad = bool(tc.get("parse") or tc.get("types"))
        else:
            bad = out["timeout"] or bool(runs.CRASH.search(out["out"]))
    print("recorded observation: %s" % r.get("observed", r.get("what")))
    return 1 if bad else 0
