"""C04 — derived Hash is a function of the value that respects Equal.
Proof: Props/C04.lean (structEq x y -> Hash x = Hash y for all types; totality; identity-insensitive).
Tie: T1 ops hash / hashf (the model predicts the exact uint64; the Go side also checks that hashing
twice gives the same number and leaves the argument unchanged) and hasheq (Equal => same hash on the
emitted functions, over Equal pairs produced by equality-preserving rewrites and over all pool pairs).
Cross-process repeatability: the ops are run by a second process and the answers compared."""
import os
import subprocess
import shutil
import tempfile
from vlib import common

PLUGINS = ["equal", "compare", "hash"]
OPS = {"hash", "hashf", "hasheq"}


def nontrivial(f, impl, model, spec):
    return any(t in f[4] for t in ("(p ", "(sl ", "(m ", "(st ", "(ar "))


def oracle(f, impl):
    if f[2] == "hasheq":
        return impl == "true"
    return impl not in ("panic", "impure")


def run(rep):
    rep.cov["rule"] = ("type corpus as for C02 restricted to what plugin/hash supports x every pool value, every single-position "
                       "mutation, and for every pool value its equality-preserving variants (fresh addresses, other spare capacity, "
                       "reversed map insertion order, +0<->-0) as hasheq pairs, plus all pool pairs")
    rep.assumptions += ["sort.* sorts map keys correctly", "user-declared Equal/Hash methods: Equal => same hash is checked where every reachable type that declares Equal also declares Hash (UE1); a type declaring only a coarser Equal (UE2) breaks it by the user's own doing and is compared against the model only", "NaN-free values",
                        "purity / repeatability of the emitted function are observed by the tie (a Lean function is pure by construction)"]
    common.proof_part(rep, "C04", thorough_checker=(rep.tier == "thorough"))
    info = common.prepare_corpus(rep.tier, rep.seed, PLUGINS)
    rep.cov["corpus"] = info["stats"]
    common.compare_corpus(rep, info, OPS, nontrivial=nontrivial, oracle=oracle)
    alias_probe(rep)
    # second process: same answers (hashing is repeatable across processes)
    cdir = info["dir"]
    if info.get("build_rc") == 0:
        def again():
            with open(os.path.join(cdir, "ops.txt")) as fin:
                return subprocess.run([os.path.join(cdir, "corpus.bin")], stdin=fin, stdout=subprocess.PIPE, env=common.GOENV, timeout=3600).stdout.decode()
        # under the lock of the corpus directory: a concurrent check that shares this corpus may be rewriting impl.txt
        with common.Lock("corpus-" + os.path.basename(cdir)):
            second = again()
            first = open(os.path.join(cdir, "impl.txt")).read()
            if first.count("\n") != second.count("\n"):
                # impl.txt is not the complete answer stream of these ops (rewritten meanwhile): compare two fresh processes
                first = again()
        rep.cov["cross_process_lines"] = second.count("\n")
        if first.count("\n") != second.count("\n"):
            raise common.CheckError("two runs of the corpus program over the same ops answer %d and %d lines" % (first.count("\n"), second.count("\n")))
        if first != second:
            a, b = first.splitlines(), second.splitlines()
            i = next((k for k in range(min(len(a), len(b))) if a[k] != b[k]), min(len(a), len(b)))
            rep.violation("hash differs between two processes: %s vs %s" % (a[i] if i < len(a) else "-", b[i] if i < len(b) else "-"),
                          {"line": i + 1, "corpus": cdir}, True)


def alias_probe(rep):
    """Types reached through ALIASES (go/types hands the generator *types.Alias): goderive may refuse them with a
    message; where it accepts, Equal must still imply the same hash (own Equal/Hash methods behind an alias)."""
    import shutil
    import tempfile
    _, binp = common.build_goderive()
    data = os.path.join(common.VERIF, "vlib", "data", "aliasprobe")
    d = tempfile.mkdtemp(prefix="verif-c04-alias-")
    try:
        for f in os.listdir(data):
            shutil.copyfile(os.path.join(data, f), os.path.join(d, f[:-4]))
        with open(os.path.join(d, "go.mod"), "w") as f:
            f.write("module aliasprobe\n\ngo 1.24\n")
        rc, err, to = common.run_goderive(binp, d, ["."], timeout=120, mem_gb=4)
        rep.cov["programs"] += 1
        srcs = {f: open(os.path.join(d, f)).read() for f in ("types.go", "main.go")}
        if to or "panic:" in err:
            rep.violation("goderive crashed or hung on the alias probe: " + err[-300:], {"files": srcs}, True)
        elif rc != 0:
            rep.cov["alias_probe"] = "refused with a message: " + err.strip()[-160:]
        else:
            p = common.sh(["go", "run", "."], cwd=d, timeout=300)
            rep.cov["alias_probe"] = "accepted; Equal => same hash on 81 pairs: " + ("holds" if p.returncode == 0 else "FAILS")
            rep.cov["evaluations"] += 81
            if p.returncode != 0:
                gen = open(os.path.join(d, "derived.gen.go")).read() if os.path.exists(os.path.join(d, "derived.gen.go")) else ""
                rep.violation("types behind aliases: goderive exited 0 but the derived functions misbehave or do not compile: " + (p.stdout + p.stderr)[:500],
                              {"files": srcs, "derived": gen[:6000], "output": (p.stdout + p.stderr)[:2000]}, True)
    finally:
        shutil.rmtree(d, ignore_errors=True)

    method_probe(rep, binp)

    from vlib import probes
    probes.run(rep, "C04")


def method_probe(rep, binp):
    """Named types that are not structs (string, slice, number, array, map) with their own Equal and Hash methods, reached
    as a field, behind a pointer, as an element and as a map value of one struct: user methods of such types are outside
    the Lean method model (S/Methods: structs whose methods look at the first field), so this clause is judged on the
    emitted code alone: whenever derived Equal holds two values equal, derived Hash must agree, and be repeatable."""
    data = os.path.join(common.VERIF, "vlib", "data", "methodprobe")
    d = tempfile.mkdtemp(prefix="verif-c04-methods-")
    try:
        for f in os.listdir(data):
            shutil.copyfile(os.path.join(data, f), os.path.join(d, f[:-4]))
        with open(os.path.join(d, "go.mod"), "w") as f:
            f.write("module methodprobe\n\ngo 1.24\n")
        rc, err, to = common.run_goderive(binp, d, ["."], timeout=120, mem_gb=4)
        rep.cov["programs"] += 1
        srcs = {f: open(os.path.join(d, f)).read() for f in ("types.go", "main.go")}
        if rc != 0 or to:
            rep.violation("goderive failed on the method probe (named non-struct types with their own Equal and Hash): " + err[-400:],
                          {"files": srcs}, True)
            return
        p = common.sh(["go", "run", "."], cwd=d, timeout=300)
        out = p.stdout + p.stderr
        lines = [l for l in p.stdout.splitlines() if l.startswith(("ok ", "FAIL ", "SKIP "))]
        fails = [l for l in lines if l.startswith("FAIL ")]
        rep.cov["evaluations"] += len(lines)
        rep.cov.setdefault("unmodelled", {})["method_probe"] = {
            "cases": len(lines), "ok": sum(l.startswith("ok ") for l in lines), "skipped_equal_tells_apart": sum(l.startswith("SKIP ") for l in lines),
            "why": "own Equal / Hash methods of named NON-struct types are outside S/Methods; judged on the emitted code: Equal => same hash"}
        if fails:
            gen = open(os.path.join(d, "derived.gen.go")).read()
            rep.violation("own Equal and Hash methods of a named non-struct component: derived Equal holds two values equal and derived Hash "
                          "tells them apart: " + "; ".join(fails)[:600], {"files": srcs, "derived": gen[:8000], "output": out[:3000]}, True)
        elif p.returncode != 0 or not lines:
            rep.violation("the method probe does not build or run with the emitted code: " + out[:600], {"files": srcs, "output": out[:3000]}, True)
    finally:
        shutil.rmtree(d, ignore_errors=True)

def replay(rep, path):
    import json
    r = json.load(open(path))
    print("replay: re-running the corpus of seed %s; recorded op: %s" % (r.get("seed"), r.get("op", r.get("what"))))
    rep.seed, rep.tier = r.get("seed", rep.seed), r.get("tier", rep.tier)
    run(rep)
    return rep.finish()
