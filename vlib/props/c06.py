"""C06 — Derived GoString round-trips through the Go compiler.
Proof: Props/C06.lean — for every supported type with exported fields and every well-typed value with
finite floats, the text `goString env T v` (model of what the emitted function prints, branch by
branch) evaluates (`evalG`, model of the little language it is written in) without panic to a value
structurally equal to the original incl. nil-ness of every pointer/slice/map, built only from fresh
allocations. The lexical layer (`%#v` on leaves + the compiler reading constants) is a parameter with
the stated contract `Lex.Round`.
Tie (semantic, through the real Go compiler): stage 1 = the corpus program calls the real
deriveGoString_i(x) and prints the returned TEXT; stage 2 = a second program assembled from all
texts (one function per text, known lines), compiled with `go build` in a package importing the
types' packages, run; per op it prints the canonical observation of the evaluated value and
reflect.DeepEqual(original, evaluated). The Lean driver answers the same op with the observation of
evalG (goString env T v) and the spec's verdict. impl must equal model; the property is decided on
the implementation's own answer (`;eq=1`)."""
import json
import os

from vlib import common, gostring

PLUGINS = ["gostring"]
OPS = {"gostring", "gostringx"}


def nontrivial(f, impl, model, spec):
    return any(t in f[4] for t in ("(p ", "(sl ", "(m ", "(st", "(ar"))


def oracle(f, impl):
    return impl is not None and impl.endswith(";eq=1")


def run(rep):
    rep.cov["rule"] = ("every type of the shared corpus (all leaves incl. named basics/containers/structs, every head over every leaf, "
                       "sampled depth 2, random depth 3, maps over every key type) plus C06 extras (pointer chains, unnamed structs as "
                       "pointee/field/element, struct- and array-keyed maps, all basic kinds as field / pointee / element) that "
                       "plugin/gostring supports and whose fields are exported x (boundary pool + single-position mutations + "
                       "boundary-leaf substitutions: strings with quotes/backslashes/newlines/NUL/non-UTF-8/format verbs/Go syntax, "
                       "extreme and hex-looking integers, -0, denormals, max floats, complex; nil/empty/non-empty containers + wide random "
                       "values), NaN and ±Inf excluded; distinct = distinct op lines with a non-leaf value")
    rep.assumptions += [
        "the lexical layer (fmt %#v on values of basic types; the Go compiler reading the constant back) is a parameter of the theorem "
        "with contract Lex.Round (parse (print v) is a value of the type, == to v); the tie exercises it on every leaf, nothing proves it",
        "types with unexported fields (ext.X2, ext.X3) and chan/func/interface constituents are outside the property's quantifier",
        "values are finite trees (acyclic); aliasing inside the original is not reproduced by the text and not required by structural equality",
        "type names in the text (package-qualified by package NAME) are exercised by the stage-2 compile, not modelled; "
        "two imported packages with the same name are covered by a fixed probe (finding class same-package-name)",
    ]
    rep.notes.append("lexical layer as observed on this tree (all inside Lex.Round): signed ints decimal; uint/uint8..64/uintptr as 0x-hex "
                     "([]uint8 is spelled []byte); strings via strconv quoting (\\xNN for non-UTF-8 bytes, \\n \\t \\r \\x00 \\uNNNN escapes, "
                     "never backquotes); floats shortest %g for their width (5e-324, 1.7976931348623157e+308, float32 0.1 -> 0.1); "
                     "-0.0 printed as -0 and read back as +0 (the only leaf whose bits change; still ==); complex as (a+bi); "
                     "named basic types print as the bare literal; named containers as p.NSl{...} / p.NM{...}")
    common.proof_part(rep, "C06", thorough_checker=(rep.tier == "thorough"))
    rep.cov["trusted_base"] += [
        "fmt's %#v and the Go compiler (go build of the stage-2 program): exercised on every op, modelled by Lex / evalG",
        "vlib/gostring.py (assembles the stage-2 program; attributes compiler diagnostics to ops by file:line)",
    ]
    info = common.prepare_corpus(rep.tier, rep.seed, PLUGINS, gen="gengostring")
    rep.cov["corpus"] = info["stats"]
    s2 = None
    if info.get("goderive_rc") == 0 and info.get("build_rc") == 0:
        if info.get("impl_rc") != 0:
            raise common.CheckError("stage-1 corpus program failed: rc=%s %s" % (info.get("impl_rc"), info.get("impl_err", "")[-500:]))
        s2 = gostring.stage2(info)
        rep.cov["stage2"] = {k: s2.get(k) for k in ("distinct_texts", "stage1_panics", "n_compile_errors", "packages", "wall_s", "build_ok")}
        if not s2["build_ok"]:
            rep.violation("the program assembled from the returned texts does not compile and the diagnostics could not be attributed "
                          "to single texts: " + s2.get("build_log", "")[:600],
                          {"corpus": info["dir"], "cmd": "go build ./stage2", "log": s2.get("build_log", "")}, False)
            return
        if s2.get("run_rc") != 0:
            raise common.CheckError("stage-2 program failed: rc=%s %s" % (s2.get("run_rc"), s2.get("run_err", "")[-500:]))
        rep.cov["programs"] += 1
        shown = 0
        for ce in s2["compile_errors"]:
            opline = op_line(info, ce["ops"][0])
            if " gostringx " in opline or shown >= 5:   # gostringx: outside the quantifier (unexported fields), correspondence only
                continue
            shown += 1
            rep.violation("text returned by derived GoString does not compile (%s): type %s, op %s" % (ce["error"], ce["type"], opline[:300]),
                          {"corpus_seed": rep.seed, "op": opline, "type": ce["type"], "text": ce["text"], "compiler": ce["error"],
                           "types": os.path.join(info["dir"], "prelude.txt")}, True)

    def classify(op, impl, model, spec):
        return "compile-error-reported-above" if impl == "compile-error" else None

    nv = len(rep.violations)
    common.compare_corpus(rep, info, OPS, nontrivial=nontrivial, oracle=oracle, classify=classify, corr_only=("gostringx",))
    probe_same_package_name(rep)
    # add the returned text to the replay files of behavioural violations
    for what, path, found in rep.violations[nv:]:
        try:
            r = json.load(open(path))
            if "op" in r and s2 is not None:
                r["text"] = gostring.text_of(info, r["op"].split(" ")[1])
                json.dump(r, open(path, "w"), indent=1)
        except (OSError, ValueError, IndexError):
            pass


def known_classes():
    """witness classes listed under a finding with status "known" in known_findings.json (never written here)"""
    out = {}
    try:
        js = json.load(open(os.path.join(common.VERIF, "known_findings.json")))
    except (OSError, ValueError):
        return out
    for f in js.get("findings", []):
        if f.get("status") != "known":
            continue
        wc = f.get("witness_class") or []
        for w in ([wc] if isinstance(wc, str) else wc):
            out[w] = f
    return out


def probe_same_package_name(rep):
    """Type names are outside the value model, so the shared corpus (one imported package) cannot show what
    happens when two imported packages share their NAME. A fixed probe asks the real generator."""
    r = gostring.probe_pkgname()
    rep.cov["probe_same_package_name"] = {"compiles_and_round_trips": r["ok"], "compiler": r["errors"][:2]}
    rep.cov["programs"] += 1
    rep.cov["evaluations"] += 1
    if r["ok"]:
        return
    what = ("the text returned for a value whose type mentions two imported packages with the same NAME spells both as ext.T "
            "(type names are qualified by package name): it compiles in no importing package; " + "; ".join(r["errors"][:2]))
    kf = known_classes().get("same-package-name")
    if kf is not None:
        rep.known.append("%s %s (replayed on this tree: %s)" % (kf.get("id", "?"), kf.get("what", what)[:300], (r["errors"] + [""])[0][:200]))
        return
    rep.violation(what[:900], {"type": "type Two struct{ X aext.T; Y *bext.T }  // aext \"probe/a/ext\", bext \"probe/b/ext\", both `package ext`",
                               "value": "&Two{X: aext.T{A: 1}, Y: &bext.T{B: \"x\"}}", "text": r["text"], "compiler": r["errors"],
                               "probe": "vlib/gostring.py probe_pkgname"}, True)


def op_line(info, opid):
    with open(os.path.join(info["dir"], "ops.txt")) as f:
        for l in f:
            if l.split(" ", 2)[1] == str(opid):
                return l.strip()
    return ""

    from vlib import probes
    probes.run(rep, "C06")

def replay(rep, path):
    r = json.load(open(path))
    print("replay: re-running the corpus of seed %s; recorded op: %s" % (r.get("seed"), r.get("op", r.get("what"))))
    if r.get("text"):
        print("recorded text:\n" + r["text"])
    rep.seed, rep.tier = r.get("seed", rep.seed), r.get("tier", rep.tier)
    run(rep)
    return rep.finish()
