"""C17 — Fmap and Join over slices and strings.
Proof: Props/C17.lean (fmap = map with f called once per element in order, string form over the decoded
runes for every byte string, join = concatenation with nil for nil, strings.Join; inputs unchanged).
Tie: T1 on the list corpus of harness/cmd/genlists (ops fmap fmaps join joins); the fmaps ops also
validate U/Utf8.decodeRunes against Go's []rune conversion."""
from vlib.props import c13

PLUGINS = ["fmap", "join"]
OPS = {"fmap", "fmaps", "join", "joins"}

RULE = ("fmap: 64 (element, result) type pairs (every element type of C13/C14 with two of 8 result types and with itself as result type, so that an in-place implementation is type-correct) x "
        "the boundary-biased list pool (nil, empty, every small length, aliased elements) with the mapped function scripted by a result "
        "list and its call log in the answer; fmaps: 8 result types x strings over ASCII, 2-, 3- and 4-byte runes, boundary code points and "
        "invalid encodings (lone continuation bytes, truncated sequences, overlong forms, surrogates, > U+10FFFF, 0xFF, random byte "
        "strings); join: per element type nil, empty, [nil], [empty], nested empties, every pool list alone, random lists of 2-4 inner "
        "lists with nil / empty members, the same inner list twice, a first inner list with spare capacity for all that follows, and inner lists that are prefix views of ONE backing array (built so that the spare region is real); joins: nil, empty, every pool string alone, random lists; the input as "
        "observed after the call and whether the result shares memory with an input are part of the specified answer; two extra derive packages import user packages named strings / sort / bytes (corpus/ext2/..., with a Join that is not concatenation, sorts that sort nothing, Equal/Compare constants) and use their types before resp. after the generated code needs the standard packages, so a captured import alias shows as a wrong answer or a compile failure; distinct = distinct op lines whose containers hold >= 2 elements in total")


def run(rep):
    c13.run_family(rep, "C17", PLUGINS, OPS, RULE)


def replay(rep, path):
    return c13.replay_family(rep, path, run)
