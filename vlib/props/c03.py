"""C03 — derived Compare is a total order consistent with Equal.
Proof: Props/C03.lean (model = value-directed lexicographic order cmpVal; cmpVal is antisymmetric,
transitive, ranges over {-1,0,1}, is 0 iff structEq; single-position order). Tie: T1 ops compare /
comparec / comparef (exact value), cmpeq (Compare==0 iff Equal on the emitted functions) and cmpcb (the emitted curried
form returns what the emitted binary form returns)."""
from vlib import common

PLUGINS = ["equal", "compare", "hash"]
OPS = {"compare", "comparec", "comparef", "cmpeq", "cmpeqv", "cmpcb"}
F40 = ("compare does not use a Compare method that takes its argument by value when the value sits behind a pointer (or is the "
       "top-level struct value itself): it compares field by field there, while derived Equal uses the type's Equal method")


def classify(op, impl, model, spec):
    # F40's witness class: `Compare == 0 iff Equal` on a type that reaches a value-parameter Compare method
    f = op.split(None, 4)
    if f[2] == "cmpeqv" and impl == "false" and model == "false":
        return "F40"
    return None


def nontrivial(f, impl, model, spec):
    return any(t in f[4] for t in ("(p ", "(sl ", "(m ", "(st ", "(ar "))


def oracle(f, impl):
    # ops on types with user methods carry no spec= column: the range clause still applies
    if f[2] in ("cmpeq", "cmpeqv", "cmpcb"):
        return impl == "true"
    return impl in ("-1", "0", "1")


def run(rep):
    rep.cov["rule"] = ("type corpus as for C02 restricted to what plugin/compare supports (no unnamed structs) x all ordered pairs of "
                       "the value pool, aliased pairs, single-position mutations in both orders; distinct = distinct (op, type, pair) "
                       "lines containing a composite; the answer compared is the exact integer")
    rep.assumptions += ["sort.Slice / sort.Strings / sort.Ints / sort.Float64s sort correctly (the model sorts map keys itself)",
                        "user-declared Equal/Compare methods: `Compare == 0 iff Equal` is checked where every reachable type declares both or neither","NaN-free values"]
    common.proof_part(rep, "C03", thorough_checker=(rep.tier == "thorough"))
    info = common.prepare_corpus(rep.tier, rep.seed, PLUGINS)
    rep.cov["corpus"] = info["stats"]
    hits = common.compare_corpus(rep, info, OPS, nontrivial=nontrivial, oracle=oracle, classify=classify)
    import json
    import os
    kf = {f.get("id"): f for f in json.load(open(os.path.join(common.VERIF, "known_findings.json")))["findings"]}
    for k, op in sorted((hits or {}).items()):
        if kf.get(k, {}).get("status") == "known":
            rep.known.append("%s %s (replayed: %s)" % (k, F40, op.strip()[:200]))
        else:
            rep.violation("emitted code disagrees with the specification (%s; not listed as a known finding) on %s" % (k, op.strip()[:300]),
                          {"corpus_seed": rep.seed, "op": op.strip(), "finding_class": k}, True)

    from vlib import probes
    probes.run(rep, "C03")

def replay(rep, path):
    import json
    r = json.load(open(path))
    print("replay: re-running the corpus of seed %s; recorded op: %s" % (r.get("seed"), r.get("op", r.get("what"))))
    rep.seed, rep.tier = r.get("seed", rep.seed), r.get("tier", rep.tier)
    run(rep)
    return rep.finish()
