"""C03 — derived Compare is a total order consistent with Equal.
Proof: Props/C03.lean (model = value-directed lexicographic order cmpVal; cmpVal is antisymmetric,
transitive, ranges over {-1,0,1}, is 0 iff structEq; single-position order). Tie: T1 ops compare /
comparec / comparef (exact value) and cmpeq (Compare==0 iff Equal on the emitted functions)."""
from vlib import common

PLUGINS = ["equal", "compare", "hash"]
OPS = {"compare", "comparec", "comparef", "cmpeq"}


def nontrivial(f, impl, model, spec):
    return any(t in f[4] for t in ("(p ", "(sl ", "(m ", "(st ", "(ar "))


def oracle(f, impl):
    # ops on types with user methods carry no spec= column: the range clause still applies
    if f[2] == "cmpeq":
        return impl == "true"
    return impl in ("-1", "0", "1")


def run(rep):
    rep.cov["rule"] = ("type corpus as for C02 restricted to what plugin/compare supports (no unnamed structs) x all ordered pairs of "
                       "the value pool, aliased pairs, single-position mutations in both orders; distinct = distinct (op, type, pair) "
                       "lines containing a composite; the answer compared is the exact integer")
    rep.assumptions += ["sort.Slice / sort.Strings / sort.Ints / sort.Float64s sort correctly (the model sorts map keys itself)",
                        "user-declared Compare methods are not in the corpus", "NaN-free values"]
    common.proof_part(rep, "C03", thorough_checker=(rep.tier == "thorough"))
    info = common.prepare_corpus(rep.tier, rep.seed, PLUGINS)
    rep.cov["corpus"] = info["stats"]
    common.compare_corpus(rep, info, OPS, nontrivial=nontrivial, oracle=oracle)


def replay(rep, path):
    import json
    r = json.load(open(path))
    print("replay: re-running the corpus of seed %s; recorded op: %s" % (r.get("seed"), r.get("op", r.get("what"))))
    rep.seed, rep.tier = r.get("seed", rep.seed), r.get("tier", rep.tier)
    run(rep)
    return rep.finish()
