"""C12 — prefix customisation only renames.

Proof: Props/C12.lean over G/Prefix.lean and G/TypesMap.lean: `sortPlugins` is canonical for pairwise
distinct prefixes (any function meeting sort.Slice's contract returns the same list for every
registration order), first-match dispatch in that order is longest-prefix dispatch, the name table
(newName / setFuncName / registerAll) commutes with the renaming induced by -prefix and, per plugin, by
-pluginprefix under explicit hypotheses (freshness of the reserved names, dispatch equivalence), names
of different plugins cannot collide when no prefix is a prefix of another (true of the 33 defaults,
`decide`d on the table that T4 compares with the source) — and a `decide`d witness that they can
otherwise (finding F13).
Ties: T4 — plugin table, prefix substitution site, override site, sort comparison, dispatch loop
re-extracted from /repo with go/ast and compared with the model's constants. T3 — the real
sortPlugins through the `verif` hook on every registration order of nested / equal-length prefix sets
and on random shuffles of the real table with overrides; dispatch. T2 — generated packages (2..5 struct
types needing helpers, 3..8 derive calls of 8 plugins) run through the real binary under the default
prefixes and as consistently renamed copies under -prefix (4 values) and -pluginprefix (prefix-free,
nested: every prefix a proper prefix of the next, combined with -prefix, and combined with -prefix where
the override VALUES contain "derive" or the global prefix and must be taken verbatim) plus a nested
stream (equal=gen,hash=genHash,sort=genS,set=genSet and random chains): derived.gen.go must be
textually equal after the renaming for a global prefix and equal function-for-function (keyed by
signature, names of derived functions abstracted) for per-plugin overrides; every output is
type-checked; a capture stream (equal=eqv, hash=eqvH, compare=eqvHa with call names that decide the
handler) compares the handling plugin with longest-prefix dispatch and with the model.
"""
import json
import re

from vlib import common, names

T3_OPS = {"sortplugins", "dispatch"}

EXPECT_FACTS = {
    "replace_site": 'strings.Replace(pluginprefix, "derive", *prefix, 1)',
    "sort_less": "{ if len(ps[i].GetPrefix()) == len(ps[j].GetPrefix()) { return ps[i].GetPrefix() > ps[j].GetPrefix() } return len(ps[i].GetPrefix()) > len(ps[j].GetPrefix()) }",
    "add_loop": "!strings.HasPrefix(call.Name, p.GetPrefix()) { continue }",
}

RESULT_OF = {"equal": "bool", "hash": "uint64", "compare": "int"}


def facts(rep):
    """T4: the constants the theorems are about, re-extracted from the source."""
    gen = common.tool_path("gennames")
    p = common.sh([gen, "-mode", "facts", "-repo", common.REPO], check=True, timeout=120)
    f = json.loads(p.stdout)
    import subprocess
    pm = subprocess.run([common.driver_path()], input="op 1 defaultplugins\n", stdout=subprocess.PIPE, text=True)
    lean = [tuple(x.split("=")) for x in pm.stdout.strip().split("model=", 1)[1].split(",")]
    src = [tuple(x) for x in f["plugins"]]
    rep.cov["t4"] = {"plugins_in_source": len(src), "facts": {k: f[k] for k in f if k != "plugins"}}
    n = 0
    if src != lean:
        rep.violation("T4 fact changed: the plugin table of main.go / derive.NewPlugin call sites is %s, the Lean table G.defaultPlugins is %s" % (
            [x for x in src if x not in lean][:5], [x for x in lean if x not in src][:5]),
            {"fact": "G.defaultPlugins", "source": src, "lean": lean}, False)
    n += 1
    for k, v in EXPECT_FACTS.items():
        n += 1
        if f.get(k) != v:
            rep.violation("T4 fact changed: %s is now `%s` (model: `%s`)" % (k, f.get(k), v), {"fact": k, "source": f.get(k), "model": v}, False)
    n += 1
    if f.get("import_names") != f.get("import_names_assumed"):
        rep.violation("T4 fact changed: the plugins import packages under the names %s, the model lines reserve %s" % (
            f.get("import_names"), f.get("import_names_assumed")), {"fact": "names.ImportNames", "source": f.get("import_names")}, False)
    n += 1
    if not f.get("override_site"):
        rep.violation("T4 fact changed: the -pluginprefix override in main.go is no longer `if override { pluginprefix = newprefix }`",
                      {"fact": "override_site"}, False)
    rep.cov["t4"]["facts_checked"] = n


def effective_prefixes(rep, cases):
    """The plugin table the generator assumed for every (-prefix, -pluginprefix) combination in play
    (names.Plugins, a transcription of main.go) against the Lean model's effectivePrefix + sortPlugins."""
    import subprocess
    seen = {}
    for c in cases.values():
        args = tuple(c.get("goderive_args") or [])
        if args in seen:
            continue
        p, ov = "derive", []
        for a in args:
            if a.startswith("-prefix="):
                p = a.split("=", 1)[1]
            elif a.startswith("-pluginprefix="):
                ov = [x.split("=") for x in a.split("=", 1)[1].split(",")]
        seen[args] = (p, ov, {pl["name"]: pl["prefix"] for pl in c["plugins"]})
    lines = []
    keys = list(seen)
    for i, k in enumerate(keys):
        p, ov, _ = seen[k]
        lines.append("op %d effprefixes %s (ov%s)" % (i, names.esc(p), "".join(" (%s %s)" % (names.esc(a), names.esc(b)) for a, b in ov)))
    pm = subprocess.run([common.driver_path()], input="\n".join(lines) + "\n", stdout=subprocess.PIPE, text=True)
    outs = pm.stdout.strip().split("\n")
    bad = 0
    for k, o in zip(keys, outs):
        model = dict(x.split("=") for x in o.split("model=", 1)[1].split(","))
        want = {names.esc(n): names.esc(v) for n, v in seen[k][2].items()}
        if model != want:
            bad += 1
            diff = {n: (want.get(n), model.get(n)) for n in want if want.get(n) != model.get(n)}
            rep.violation("effective prefixes for `%s`: generator (transcription of main.go) and Lean effectivePrefix differ: %s" % (" ".join(k), diff),
                          {"fact": "effectivePrefix", "args": list(k), "diff": {n: list(v) for n, v in diff.items()}}, False)
    rep.cov["t4"]["prefix_maps_checked_against_effectivePrefix"] = len(keys)


def rho_text(text, p):
    return re.sub(r"\bderive", p, text)


def run(rep):
    rep.cov["rule"] = ("T3: every registration order of three 4-element prefix sets (nested prefixes, equal lengths), the real 33-plugin "
                       "table in source order and random shuffles with random overrides (prefixes that are prefixes of others, empty, "
                       "equal), 3 dispatch queries per set; T2: per generated package 1 default run + 4 global prefixes (same length, "
                       "shorter, longer-starting-with-derive, one letter) + prefix-free overrides + nested overrides + both; capture "
                       "stream: 1..3 calls over 10 call names under nested overrides x 2 flag combinations; distinct = distinct "
                       "(package, prefix map) runs that generated at least one helper function")
    rep.assumptions += [
        "flag parsing (package flag, the comma/equals syntax of -pluginprefix) is trusted",
        "the renamed package uses no identifier starting with the new prefix other than images of the renaming (freshness; "
        "hypothesis of prefix_equivariant_global, built into the generated packages)",
        "per-plugin overrides: no plugin's prefix is a prefix of another's for the names-disjoint theorem; the F13 witness lies outside",
        "a helper named by a bare single-letter prefix may coincide with a local of the emitted code (known finding F49, class "
        "C12/helper-shadowed-by-local): such runs are generated, replayed and classified, anything else is a violation",
        "customised prefixes are not captured by other identifiers: they have at least 3 letters and differ from every identifier of the "
        "package and from the parameters / locals of the emitted code (this, that, dst, src, object, h, v, i, k, …); a prefix such as `h` "
        "makes a hash function named h whose local `h := uint64(17)` shadows it (generator hygiene of goderive, outside C12's wording)",
    ]
    common.proof_part(rep, "C12", thorough_checker=(rep.tier == "thorough"))
    rep.cov["trusted_base"] += ["go/ast fact extractor (harness/names/facts.go)", "go/types, go/parser, go/printer for reading outputs back"]
    facts(rep)
    names.t3(rep, T3_OPS, "sortPlugins / dispatch")

    groups = {}
    problems = []   # (kind, what, case, variant, obs, line)
    stat = {"groups": 0, "global_textual_equal": 0, "plugin_canonical_equal": 0, "capture_runs": 0, "capture_rejected": 0,
            "capture_handler_checked": 0, "with_helpers": 0, "outcomes": {}}
    f13 = []
    f49 = []

    def handle(case, variant, obs, model, line):
        stat["outcomes"][obs["class"]] = stat["outcomes"].get(obs["class"], 0) + 1
        if case["stream"] == "f13":
            f13.append((case, obs, model, line))
            return
        if case["stream"] == "c12":
            spec, corr = names.compare_case(case, variant, obs, model, check_types=False)
            if case.get("no_model"):
                corr = None   # several passes / packages: outside the Lean model's single registerAll; group comparison only
            if not spec and obs["class"] == "ok":
                # every generated function carries the prefix of one of the plugins (also made-up helper names)
                pfx = [pl["prefix"] for pl in case["plugins"]]
                for fn in obs.get("funcs", []):
                    if not any(fn["name"].startswith(q) for q in pfx):
                        spec = "generated function %s does not start with the prefix of any plugin (%s)" % (
                            fn["name"], " ".join(case.get("goderive_args") or []))
                        break
            cls = shadowed_by_local(case, obs)
            if cls:
                # known class C12/helper-shadowed-by-local (F49): replayed here, kept out of the group comparison
                f49.append((case, obs, line, cls))
                return
            groups.setdefault(case["group"], []).append((case, obs, model, line))
            if obs["class"] == "ok" and len(obs.get("funcs", [])) > sum(len(f["calls"]) for f in case["files"]):
                stat["with_helpers"] += 1
            if spec:
                problems.append(("spec", spec, case, variant, obs, line))
            elif corr:
                problems.append(("corr", corr, case, variant, obs, line))
            return
        # capture stream: wrappers need not type-check (their shape is independent of the handler)
        stat["capture_runs"] += 1
        o2 = dict(obs)
        o2["type_error"] = ""
        o2["calls_bad"] = []
        spec, corr = names.compare_case(case, variant, o2, model, check_types=False)
        if obs["class"] == "rejected":
            stat["capture_rejected"] += 1
        if obs["class"] == "ok":
            # which plugin handled each call: the result type of the generated function of that name
            funcs = {}
            for f in obs.get("funcs", []):
                funcs.setdefault(f["name"], []).append(f)
            for fl_names in obs.get("names", []):
                for nm in fl_names:
                    h = names.handler(case, nm)
                    stat["capture_handler_checked"] += 1
                    want = RESULT_OF.get(h["name"]) if h else None
                    # equal / compare with one argument generate the curried form func(T) bool / func(T) int
                    got = [f["result"].split(") ")[-1] if f["result"].startswith("func(") else f["result"] for f in funcs.get(nm, [])]
                    if want is None or want not in got:
                        spec = "call %s must be handled by the plugin with the longest matching prefix (%s), generated: %s" % (
                            nm, h and h["name"], funcs.get(nm))
        if spec:
            problems.append(("spec", spec, case, variant, obs, line))
        elif corr:
            problems.append(("corr", corr, case, variant, obs, line))

    n, stats, allcases = names.t2(rep, "C12", handle)
    effective_prefixes(rep, allcases)
    for g, members in groups.items():
        stat["groups"] += 1
        base = [m for m in members if m[0]["rename"] == "default"]
        if not base:
            continue
        bcase, bobs, _, bline = base[0]
        if g[0] in "mnw" and bobs["class"] != "ok":
            problems.append(("spec", "the default-named package of a constructed group is not accepted: %s %s" % (bobs["class"], bobs.get("stderr", "")[:200]), bcase, "-", bobs, bline))
        for case, obs, model, line in members:
            if case["rename"] == "default":
                continue
            if obs["class"] != bobs["class"]:
                problems.append(("spec", "renamed run ends with %s, default run with %s" % (obs["class"], bobs["class"]), case, "-", obs, line))
                continue
            if obs["class"] != "ok":
                continue
            if case["rename"].startswith("global:"):
                p = case["rename"].split(":", 1)[1]
                if rho_text(bobs.get("derived", ""), p) != obs.get("derived", ""):
                    problems.append(("spec", "derived.gen.go under -prefix=%s is not the default output with `derive` replaced" % p, case, "-", obs, line))
                else:
                    stat["global_textual_equal"] += 1
            else:
                if bobs.get("canon") != obs.get("canon"):
                    problems.append(("spec", "derived.gen.go under %s differs from the default output beyond function names" % " ".join(case.get("goderive_args") or []), case, "-", obs, line))
                else:
                    stat["plugin_canonical_equal"] += 1
    rep.cov["evaluations"] += n
    rep.cov["programs"] += n
    rep.cov["distinct_nontrivial"] += stat["with_helpers"] + stat["capture_runs"]
    rep.cov["disagreements_checked"] += n
    rep.cov["t2"] = {"generator": stats, "outcomes": stat}
    specs = [p for p in problems if p[0] == "spec"]
    corrs = [p for p in problems if p[0] == "corr"]
    for _, what, case, variant, obs, line in specs[:3]:
        o = dict(obs)
        o.pop("derived", None), o.pop("canon", None)
        rep.violation("C12 fails on the real goderive: " + what,
                      {"kind": "t2", "case": case, "variant": variant, "observed": o, "model_line": line,
                       "cmd": "goderive %s ./p  (package re-materialised by `gennames -mode one`)" % " ".join((case.get("goderive_args") or []))}, True)
    if corrs:
        _, what, case, variant, obs, line = corrs[0]
        o = dict(obs)
        o.pop("derived", None), o.pop("canon", None)
        rep.violation("correspondence T2 broken: the real goderive and the Lean model differ on %d runs, first: %s" % (len(corrs), what),
                      {"kind": "t2", "correspondence": "T2 registerAll/dispatch", "case": case, "variant": variant, "observed": o, "model_line": line}, False)
    finding_f13(rep, f13)
    finding_f49(rep, f49)


SHADOW_RE = re.compile(r"derived\.gen\.go:\d+:\d+: (?:invalid operation: )?cannot call non-function (\w+) \(variable of type")


def shadowed_by_local(case, obs):
    """Witness class C12/helper-shadowed-by-local: the run succeeded, derived.gen.go does not type-check because a
    helper named by the bare customised prefix of a plugin is called where a local of the emitted code has that name."""
    if obs.get("class") != "ok":
        return None
    m = SHADOW_RE.search(obs.get("type_error") or "")
    if not m:
        return None
    overridden = set()
    for a in case.get("goderive_args") or []:
        if a.startswith("-pluginprefix="):
            overridden = set(x.split("=", 1)[1] for x in a.split("=", 1)[1].split(","))
    return m.group(1) if m.group(1) in overridden else None


def finding_f49(rep, f49):
    rep.cov["f49_class_runs"] = len(f49)
    if not f49:
        return
    case, obs, line, ident = f49[0]
    what = ("C12/helper-shadowed-by-local: %d run(s); first: %s — the helper named by the bare prefix `%s` is shadowed by a local of the "
            "emitted code: exit 0, %s" % (len(f49), " ".join(case.get("goderive_args") or []), ident, (obs.get("type_error") or "").split(": ", 1)[-1][:90]))
    if names.known_finding("F49"):
        rep.known.append("F49 " + what)
    else:
        o = dict(obs)
        o.pop("derived", None), o.pop("canon", None)
        rep.violation("C12 fails on the real goderive (class C12/helper-shadowed-by-local, not listed in known_findings.json): " + what,
                      {"kind": "t2", "case": case, "variant": "-", "observed": o, "model_line": line}, True)


def finding_f13(rep, f13):
    """Replays the witness of F13 on the real binary."""
    if not f13:
        return
    case, obs, model, line = f13[0]
    redeclared = obs["class"] == "ok" and "redeclared" in (obs.get("type_error") or "")
    what = ("per-plugin name tables: with -pluginprefix=equal=h_T,hash=h the hash helper minted for T2 is named h_T like the user's equal "
            "call h_T(a, b *T1): exit 0, derived.gen.go does not compile (%s)" % (obs.get("type_error") or "").split(": ", 1)[-1][:80])
    kf = names.known_finding("F13")
    rep.cov["f13_witness"] = {"reproduced": redeclared, "goderive_class": obs["class"], "type_error": (obs.get("type_error") or "")[-120:]}
    if redeclared:
        if kf:
            rep.known.append("F13 " + what)
        else:
            o = dict(obs)
            o.pop("derived", None), o.pop("canon", None)
            rep.violation("C12 fails on the real goderive (finding F13, not listed in known_findings.json): " + what,
                          {"kind": "t2", "case": case, "variant": "-", "observed": o, "model_line": line,
                           "cmd": "goderive -pluginprefix=equal=h_T,hash=h ./p"}, True)
    else:
        rep.notes.append("the F13 witness no longer fails on this tree (goderive: %s, type error: %r); the hypothesis PrefixFree of "
                         "names_disjoint_across_plugins is then stronger than needed" % (obs["class"], obs.get("type_error")))

    from vlib import probes
    probes.run(rep, "C12")

def replay(rep, path):
    r = json.load(open(path))
    if r.get("kind") == "t3":
        m, i = names.replay_t3(r["op"])
        print("replay T3 op: %s\n  model: %s\n  impl:  %s" % (r["op"][:300], m[:300], i[:300]))
        if m.split(" ", 1)[1].replace("model=", "", 1) != i.split(" ", 1)[1].replace("impl=", "", 1):
            rep.violation("correspondence T3 broken on the replayed op line", dict(r), False)
        return rep.finish()
    if r.get("kind") == "t2":
        case = r["case"]
        obs, model, line = names.run_one(case, r["variant"])
        print("replay T2 case %s (%s) flags %s: goderive %s, model %s, type error: %s" % (
            case["id"], " ".join((case.get("goderive_args") or [])), r["variant"], obs["class"], model["class"], obs.get("type_error")))
        if case["stream"] == "f13":
            finding_f13(rep, [(case, obs, model, line)])
            return rep.finish()
        if case["stream"] == "c12" and case.get("rename") != "default":
            print("  (group comparison needs the default-named package: re-running the whole check)")
            run(rep)
            return rep.finish()
        spec, corr = names.compare_case(case, r["variant"], obs, model, check_types=False)
        print("  spec: %s\n  correspondence: %s" % (spec, corr))
        if spec and case["stream"] != "capture":
            rep.violation("C12 fails on the real goderive: " + spec, dict(r), True)
        elif corr:
            rep.violation("correspondence T2 broken: " + corr, dict(r), False)
        return rep.finish()
    print("replay: %s — re-running the whole check" % r.get("what"))
    run(rep)
    return rep.finish()
