"""C11 — name conflicts and duplicates are detected exactly and resolved soundly.

Proof: Props/C11.lean over the name-table state machine G/TypesMap.lean (+ G/NewName.lean, G/Prefix.lean):
table invariant for all operation sequences, fail <=> clash without flags, the three flag clauses,
soundness of resolution, freshness/termination of the fresh-name search, unreachability of the
`panic("unreachable…")` in newPackage.
Ties: T3 — operation sequences on the REAL typesMap through the `verif` hooks (harness-t3/cmd/tmdrive)
vs the Lean machine, bounded-exhaustive and random, all four flag combinations, reserved names colliding
with the first candidates, and a separate stream over a universe where assignability is not identity.
T2 — exhaustively all assignments of <= k calls (k=3 quick, 4 thorough) to a 3-name alphabet x 3
pairwise non-assignable types x 2 plugins x 4 flag combinations (+ random larger packages with
injected collisions) through the real goderive binary on fresh copies: exit status / error class vs
the property's clash predicate (restated independently in vlib/names.py) and vs the Lean model's
`registerAll`; on success the package is type-checked (go/types), every call site's callee is read
back and must be a generated function whose parameter types are identical to the argument types,
rewritten files and final names are compared with the model, and no (plugin, argument types) has two
functions.
"""
import json

from vlib import common, names

T3_OPS = {"tm", "eq"}

EXPECT_TAKEN = ("{ if _, exists := tm.funcToTyps[funcName]; exists { return true } if _, isreserved := tm.reserved[funcName]; "
                "isreserved { return true } return token.IsKeyword(funcName) || types.Universe.Lookup(funcName) != nil }")


def facts(rep):
    """T4: the word list of G.reservedWords against go/token + go/types of the toolchain; the shape of typesMap.taken."""
    import subprocess
    gen = common.tool_path("gennames")
    p = common.sh([gen, "-mode", "facts", "-repo", common.REPO], check=True, timeout=120)
    f = json.loads(p.stdout)
    pm = subprocess.run([common.driver_path()], input="op 1 reservedwords\n", stdout=subprocess.PIPE, text=True)
    lean = pm.stdout.strip().split("model=", 1)[1].split(",")
    rep.cov["t4"] = {"reserved_words_toolchain": len(f["reserved_words"]), "facts_checked": 2}
    if lean != f["reserved_words"]:
        rep.violation("T4 fact changed: keywords + universe names of the Go toolchain are %s, G.reservedWordStrings has %s" % (
            sorted(set(f["reserved_words"]) - set(lean)), sorted(set(lean) - set(f["reserved_words"]))),
            {"fact": "G.reservedWordStrings", "toolchain": f["reserved_words"], "lean": lean}, False)
    if f.get("taken_source") != EXPECT_TAKEN:
        rep.violation("T4 fact changed: typesMap.taken is now `%s`" % f.get("taken_source"), {"fact": "typesMap.taken", "source": f.get("taken_source"), "model": EXPECT_TAKEN}, False)


def run(rep):
    rep.cov["rule"] = ("T3: all op sequences of length <= 3 (quick) / 4 (thorough) over {set x 3 names x 3 type lists, get, generating} "
                       "x 4 flag combinations x 3 reserved sets, once over pairwise non-assignable types and once over "
                       "(A []int, B []int, []int), each followed by a full observation of the table (names, toGenerate, done, "
                       "nameOf/newName of every type list), + random sequences (3..32 ops) over larger universes (types from "
                       "same-named packages, non-ASCII names, interfaces), random prefixes (incl. empty) and reserved sets; "
                       "T2: all assignments of <= k calls to 3 names x 3 types x 2 plugins, and all assignments of <= k equal calls "
                       "to 3 names x 3 types x {one, two arguments} with at least one curried one-argument call (argument lists "
                       "that are proper prefixes of others), under all 4 flag combinations; reserved names declared as func / "
                       "func-typed var / type-used-in-a-conversion, in two thirds of the conflicting packages exactly the next "
                       "candidates newName tries for the conflicting call; file split at random; + random packages of 5..12 "
                       "calls over 8 types and 4 plugins (equal, compare, tuple with one or two arguments, hash) with injected "
                       "conflicts and duplicates; + an `imported` stream: all assignments of <= 2 equal calls (+ random 3..5 calls) to 3 names x "
                       "{*User, User of two imported packages both named model, local *User}: types spelled alike but different; distinct = distinct (package, flags) runs whose "
                       "package contains at least one conflict or duplicate")
    rep.assumptions += [
        "the argument types of the T2 packages are pairwise non-assignable unless identical (the property's own domain; "
        "the T3 stream over assignable types checks model = code outside it)",
        "which calls a package contains and their argument types (derive/find.go on top of go/types) is trusted and exercised end to end by T2",
        "type names are valid UTF-8 (Go identifiers)",
    ]
    common.proof_part(rep, "C11", thorough_checker=(rep.tier == "thorough"))
    rep.cov["trusted_base"] += ["go/types and go/parser for the read-back of the rewritten packages",
                                "harness-t3/cmd/tmdrive builds go/types types from the wire syntax"]
    facts(rep)
    names.t3(rep, T3_OPS, "typesMap operation sequences")

    spec_bad, corr_bad = [], []
    stat = {"ok": 0, "conflict": 0, "dup": 0, "other": 0, "failed_run_rewrote_a_file": 0, "nontrivial": 0,
            "by_variant": {}, "spec_says_nothing": 0}

    def handle(case, variant, obs, model, line):
        stat[obs["class"] if obs["class"] in stat else "other"] += 1
        bv = stat["by_variant"].setdefault(variant, {"ok": 0, "fail": 0})
        bv["ok" if obs["class"] == "ok" else "fail"] += 1
        if obs.get("failed_src_changed"):
            stat["failed_run_rewrote_a_file"] += 1
        if names.spec_verdict(case, variant) is None:
            stat["spec_says_nothing"] += 1
        if any(names.clashes(case)):
            stat["nontrivial"] += 1
        spec, corr = names.compare_case(case, variant, obs, model)
        if case.get("no_model"):
            corr = None   # calls that wait for a type need two passes: outside the single registerAll of the model
        if spec:
            spec_bad.append((spec, case, variant, obs, line))
        if corr:
            corr_bad.append((corr, case, variant, obs, line))
        elif len(rep.cov["samples"]) < 6 and stat["nontrivial"] % 2503 == 7:
            rep.cov["samples"].append({"op": line[:60] + " … " + line[line.index("(files"):][:300], "impl": obs["class"] + " " + json.dumps(obs.get("names")),
                                       "model": model["class"] + " " + json.dumps(model.get("names"))})

    n, stats, _ = names.t2(rep, "C11", handle)
    rep.cov["evaluations"] += n
    rep.cov["programs"] += n
    rep.cov["distinct_nontrivial"] += stat["nontrivial"]
    rep.cov["disagreements_checked"] += n
    rep.cov["t2"] = {"generator": stats, "outcomes": stat}
    for what, case, variant, obs, line in spec_bad[:3]:
        rep.violation("C11 fails on the real goderive: " + what,
                      {"kind": "t2", "case": case, "variant": variant, "observed": obs, "model_line": line,
                       "cmd": "goderive %s ./p  (package re-materialised by `gennames -mode one`)" % " ".join((case.get("goderive_args") or []))}, True)
    spec_ids = set((c["id"], v) for _, c, v, _, _ in spec_bad)
    rest = [x for x in corr_bad if (x[1]["id"], x[2]) not in spec_ids]
    if rest:
        what, case, variant, obs, line = rest[0]
        rep.violation("correspondence T2 broken: the real goderive and the Lean model of newPackage differ on %d runs (property still satisfied on them), first: %s" % (len(rest), what),
                      {"kind": "t2", "correspondence": "T2 registerAll", "case": case, "variant": variant, "observed": obs, "model_line": line}, False)
    if stat["failed_run_rewrote_a_file"]:
        rep.notes.append("%d failing runs had already rewritten an earlier user file (newPackage rewrites file by file; C10's concern, not part of C11's wording)" % stat["failed_run_rewrote_a_file"])

    from vlib import probes
    probes.run(rep, "C11")

def replay(rep, path):
    r = json.load(open(path))
    if r.get("kind") == "t3":
        m, i = names.replay_t3(r["op"])
        print("replay T3 op: %s\n  model: %s\n  impl:  %s" % (r["op"][:300], m[:300], i[:300]))
        if m.split(" ", 1)[1].replace("model=", "", 1) != i.split(" ", 1)[1].replace("impl=", "", 1):
            rep.violation("correspondence T3 broken on the replayed op line", dict(r), False)
        return rep.finish()
    if r.get("kind") == "t2":
        obs, model, line = names.run_one(r["case"], r["variant"])
        spec, corr = names.compare_case(r["case"], r["variant"], obs, model)
        print("replay T2 case %s flags %s: goderive %s, model %s" % (r["case"]["id"], r["variant"], obs["class"], model["class"]))
        print("  spec: %s\n  correspondence: %s" % (spec, corr))
        if spec:
            rep.violation("C11 fails on the real goderive: " + spec, dict(r), True)
        elif corr:
            rep.violation("correspondence T2 broken: " + corr, dict(r), False)
        return rep.finish()
    print("replay: %s — re-running the whole check" % r.get("what"))
    run(rep)
    return rep.finish()
