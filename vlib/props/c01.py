"""C01 — successful generation yields a complete, type-correct package.

Proof (Props/C01.lean, model G/Worklist.lean): the generate-until-done work list registers exactly
the transitive closure of the helper requests of the user's calls, generates every registered key
exactly once, and terminates whenever that closure is finite.
What the theorem cannot carry — that the emitted text type-checks — is decided by the real Go type
checker on generated programs (the tie): a package using every one of the 33 plugins in every
call-site form (function body, package-level var, closure, nested derive call, _test file, curried
one-argument form, types only inferable after an earlier pass), recursive / mutually recursive /
embedded / imported types, two imported packages with the SAME package name, imported structs with
unexported fields, plus seeded random struct declarations with random derive calls in random forms,
plus the bounded-exhaustive type corpus of C02–C05 (equal, compare, hash, deepcopy, clone)."""
import json
import os
import random
import re
import shutil
import tempfile

from vlib import common

DATA = os.path.join(common.VERIF, "vlib", "data", "sites")

BASICS = ["int", "int8", "uint16", "int64", "uint64", "float32", "float64", "complex128", "string", "bool", "byte", "rune", "uintptr"]
NAMED = ["NI", "NS", "Leaf", "Node", "Ping", "Emb", "ext1.Pub", "ext1.Name", "ext2.A"]
NAMED_PRIV = ["ext1.A", "ext2.B"]     # imported structs with unexported fields (gostring refuses them)
KEYS = ["int", "string", "NI", "NS", "Leaf", "[2]int", "bool", "float64", "ext1.Name"]


def rand_type(rng, depth, allow_priv):
    r = rng.random()
    if depth == 0 or r < 0.3:
        pool = BASICS + NAMED + (NAMED_PRIV if allow_priv else [])
        return rng.choice(pool)
    k = rng.randrange(4)
    if k == 0:
        return "*" + rand_type(rng, depth - 1, allow_priv)
    if k == 1:
        return "[]" + rand_type(rng, depth - 1, allow_priv)
    if k == 2:
        return "[%d]%s" % (rng.randint(1, 3), rand_type(rng, depth - 1, allow_priv))
    return "map[%s]%s" % (rng.choice(KEYS), rand_type(rng, depth - 1, allow_priv))


def uses_priv(t):
    return any(p in t for p in NAMED_PRIV) or "Emb" in t


def gen_random_part(rng, n):
    """n random struct declarations with random derive calls in random call-site forms."""
    types, body, pkgvars, tests = [], [], [], []
    for i in range(n):
        allow_priv = rng.random() < 0.4
        nf = rng.randint(1, 4)
        fields = [rand_type(rng, rng.randint(0, 3), allow_priv) for _ in range(nf)]
        name = "R%d" % i
        types.append("type %s struct {\n%s}\n" % (name, "".join("\tF%d %s\n" % (j, t) for j, t in enumerate(fields))))
        plugins = ["equal", "compare", "hash", "clone", "deepcopy", "gostring"]
        rng.shuffle(plugins)
        for pl in plugins[: rng.randint(1, 4)]:
            if pl == "gostring" and any(uses_priv(t) for t in fields):
                continue
            form = rng.choice(["body", "var", "closure", "test", "curried"])
            fn = "derive%s%s" % (pl.capitalize() if pl != "gostring" else "GoString", name)
            if pl == "deepcopy":
                fn = "deriveDeepCopy" + name
            call2 = {"equal": "%s(a, b)", "compare": "%s(a, b)", "hash": "%s(a)", "clone": "%s(a)", "deepcopy": "%s(a, b)", "gostring": "%s(a)"}[pl] % fn
            if form == "curried" and pl in ("equal", "compare"):
                body.append("func use%s%d(a, b *%s) { _ = %sC(a)(b) }\n" % (pl, i, name, fn))
            elif form == "var" and pl != "deepcopy":
                pkgvars.append("var v%s%d = func() interface{} { a, b := &%s{}, &%s{}; _ = b; return %s }()\n" % (pl, i, name, name, call2))
            elif form == "closure":
                body.append("func use%s%d(a, b *%s) func() { return func() { _ = b; %s%s } }\n" % (
                    pl, i, name, "" if pl == "deepcopy" else "_ = ", call2))
            elif form == "test":
                tests.append("\t{ a, b := &%s{}, &%s{}; _ = b; %s%s }\n" % (name, name, "" if pl == "deepcopy" else "_ = ", call2))
            else:
                body.append("func use%s%d(a, b *%s) { _ = b; %s%s }\n" % (pl, i, name, "" if pl == "deepcopy" else "_ = ", call2))
    imports = 'import (\n\text1 "sites/ext1/ext"\n\text2 "sites/ext2/ext"\n)\n\nvar _ ext1.Name\nvar _ ext2.A\n\n'
    files = {
        "p/r_types.go": "package p\n\n" + imports + "\n".join(types),
        "p/r_calls.go": "package p\n\n" + "".join(body) + "\n" + "".join(pkgvars),
        "p/r_test.go": "package p\n\nimport \"testing\"\n\nfunc TestRandomSites(t *testing.T) {\n" + "".join(tests) + "}\n",
    }
    return files


ISO_EXT = {  # imported type -> (import line, usable as map key, orderable by compare, printable by gostring)
    "ext1.Name": ('ext1 "sites/ext1/ext"', True),
    "ext1.Pub": ('ext1 "sites/ext1/ext"', False),
    "ext1.Key": ('ext1 "sites/ext1/ext"', True),
    "ext2.A": ('ext2 "sites/ext2/ext"', False),
    # an import path with an element that merely ENDS in "vendor": the generated import must name it in full
    "cat.Item": ('"sites/myvendor/cat"', False),
    "cat.Code": ('"sites/myvendor/cat"', True),
    # user packages that bear the name of a standard package the plugins import themselves (math.Float64bits,
    # bytes.Equal / bytes.Compare, strings.Compare): both must be imported, one of them under an alias
    "math.Vec": ('"sites/mystd/math"', True),
    "bytes.Buf": ('"sites/mystd/bytes"', False),
    "strings.Str": ('"sites/mystd/strings"', False),
}
ISO_PINNED = {"math.Vec", "bytes.Buf", "strings.Str"}  # always part of the sample, over ISO_PINNED_SHAPES
ISO_PINNED_SHAPES = {"[]E", "struct {\n\tF E\n}", "map[string]E"}
ISO_SHAPES = ["map[E]int", "map[string]E", "map[E]E", "[]E", "[2]E", "struct {\n\tF E\n}", "struct {\n\tF *E\n}", "struct {\n\tF []E\n\tG int\n}",
              "struct {\n\tF map[E]bool\n}", "struct {\n\tF map[int]E\n}", "[]*E", "map[E][]string"]
ISO_CALLS = {  # plugin -> wrapper source over the argument type X
    "equal": "func Use(a, b X) bool { return deriveEqual(a, b) }",
    "compare": "func Use(a, b X) int { return deriveCompare(a, b) }",
    "hash": "func Use(a X) uint64 { return deriveHash(a) }",
    "deepcopy": "func Use(a, b X) { deriveDeepCopy(a, b) }",
    "clone": "func Use(a X) X { return deriveClone(a) }",
    "gostring": "func Use(a X) string { return deriveGoString(a) }",
    "keys": "func Use(a X) int { return len(deriveKeys(a)) }",
}


def gen_iso(rng, n):
    """Isolated packages: ONE derive call each, on a locally declared named type T (or *T) built over ONE imported
    type. The import block of such a derived.gen.go is decided by that single call: an import the emitted code does
    not use, or one it uses and does not list, cannot hide behind the other functions of a big package."""
    combos = []
    for e, (imp, keyable) in sorted(ISO_EXT.items()):
        for sh in ISO_SHAPES:
            if "map[E]" in sh and not keyable:
                continue
            for pl in sorted(ISO_CALLS):
                for ptr in (False, True):
                    if pl == "keys" and (ptr or not sh.startswith("map[")):
                        continue
                    if pl == "deepcopy" and not ptr and not (sh.startswith("map[") or sh.startswith("[]")):
                        continue
                    combos.append((e, imp, sh, pl, ptr))
    rng.shuffle(combos)
    if n:
        pinned = [c for c in combos[n:] if c[0] in ISO_PINNED and c[2] in ISO_PINNED_SHAPES]
        combos = combos[:n] + pinned
    files, meta = {}, {}
    for i, (e, imp, sh, pl, ptr) in enumerate(combos):
        name = "iso%03d" % i
        # every third package reaches the imported type through a type ALIAS declared next to T (go/types hands the
        # generator a *types.Alias there, not a *types.Named): refused with a message or generated and type-correct
        alias = i % 3 == 2
        decl = "type AE = %s\n\n" % e if alias else ""
        shape = sh.replace("E", "AE" if alias else e)
        src = "package %s\n\nimport %s\n\n%stype T %s\n\n%s\n" % (name, imp, decl, shape, ISO_CALLS[pl].replace("X", "*T" if ptr else "T"))
        # every fifth package keeps its call in a file that ANOTHER tool generated (its header says so): the call is a
        # derive call like any other
        header = i % 5 == 3
        if header:
            src = "// Code generated by some-other-tool. DO NOT EDIT.\n\n" + src
        files["iso/%s/%s.go" % (name, name)] = src
        meta[name] = {"imported": e, "shape": shape, "plugin": pl, "arg": "*T" if ptr else "T", "alias": alias, "generated_header": header}
    return files, meta


def instantiate(dst, rng, nrandom):
    for d, _, fs in os.walk(DATA):
        for f in fs:
            rel = os.path.relpath(os.path.join(d, f), DATA)
            out = os.path.join(dst, rel[:-4] if rel.endswith(".txt") else rel)
            os.makedirs(os.path.dirname(out), exist_ok=True)
            shutil.copyfile(os.path.join(d, f), out)
    for rel, src in gen_random_part(rng, nrandom).items():
        with open(os.path.join(dst, rel), "w") as f:
            f.write(src)


def run(rep):
    rep.cov["rule"] = ("program 1: fixed package using all 33 plugins in every call-site form over recursive, embedded, imported "
                       "(two packages both named ext, unexported fields) types + N seeded random struct declarations (N=40 quick, "
                       "200 thorough) each with 1-4 random type-directed derive calls in a random call-site form; programs 2..: the "
                       "bounded-exhaustive type corpus (equal, compare, hash, deepcopy, clone over every type). Each program: real "
                       "goderive must exit 0, `go vet ./...` (type-check incl. tests) must pass; distinct = generated functions")
    rep.assumptions += ["'type-checks' is decided by the real Go type checker on the generated programs, not in Lean",
                        "types.TypeString prints type expressions correctly (trusted)"]
    common.proof_part(rep, "C01", thorough_checker=(rep.tier == "thorough"))
    _, binp = common.build_goderive()
    rng = random.Random(rep.seed)
    root = tempfile.mkdtemp(prefix="verif-c01-")
    try:
        nrand = 40 if rep.tier == "quick" else 200
        rounds = 1 if rep.tier == "quick" else 4
        for r in range(rounds):
            d = os.path.join(root, "sites%d" % r)
            instantiate(d, rng, nrand)
            rc, err, to = common.run_goderive(binp, d, ["./p", "./pend"], timeout=300, mem_gb=8)
            rep.cov["programs"] += 1
            files = {}
            for f in ("p/r_types.go", "p/r_calls.go", "p/r_test.go"):
                files[f] = open(os.path.join(d, f)).read()
            if rc != 0 or to:
                rep.violation("goderive failed on a package whose derive calls are all supported (exit %s%s): %s" % (
                    rc, ", timeout" if to else "", err[-600:]), {"program": "sites", "random_files": files, "seed_round": r}, True)
                continue
            # the same tree once more for the package that is written for -autoname (its source files are rewritten)
            rc2, err2, to2 = common.run_goderive(binp, d, ["-autoname", "./auton"], timeout=300, mem_gb=8)
            rep.cov["programs"] += 1
            srcs = {f: open(os.path.join(d, "auton", f)).read() for f in sorted(os.listdir(os.path.join(d, "auton"))) if f != "derived.gen.go"}
            if rc2 != 0 or to2:
                rep.violation("goderive -autoname failed on a package whose derive calls are all supported (exit %s%s): %s" % (
                    rc2, ", timeout" if to2 else "", err2[-600:]), {"program": "sites/auton", "flags": ["-autoname"], "files": srcs}, True)
                shutil.rmtree(os.path.join(d, "auton"))
            else:
                p2 = common.sh(["go", "vet", "./auton"], cwd=d, timeout=900)
                if p2.returncode != 0:
                    rep.violation("package + derived.gen.go do not type-check after -autoname: " + p2.stderr[:900],
                                  {"program": "sites/auton", "flags": ["-autoname"], "files": srcs, "vet": p2.stderr[:3000]}, True)
                    shutil.rmtree(os.path.join(d, "auton"))
                else:
                    n2 = len(re.findall(r"^func ", open(os.path.join(d, "auton", "derived.gen.go")).read(), flags=re.M))
                    rep.cov["evaluations"] += n2
            p = common.sh(["go", "vet", "./..."], cwd=d, timeout=900)
            gen = open(os.path.join(d, "p", "derived.gen.go")).read()
            nfuncs = len(re.findall(r"^func ", gen, flags=re.M))
            rep.cov["evaluations"] += nfuncs
            rep.cov["distinct_nontrivial"] += nfuncs
            if len(rep.cov["samples"]) < 3:
                rep.cov["samples"].append({"program": "sites round %d" % r, "generated_functions": nfuncs,
                                           "passes": err.count("could not yet generate") and "multi-pass" or "single-pass",
                                           "imports": re.findall(r'^\t(?:\w+ )?"[^"]+"$', gen, flags=re.M)[:12]})
            if p.returncode != 0:
                rep.violation("package + derived.gen.go do not type-check: " + p.stderr[:900],
                              {"program": "sites", "random_files": files, "seed_round": r, "vet": p.stderr[:3000]}, True)
            fm = common.sh(["gofmt", "-l", os.path.join(d, "p", "derived.gen.go")])
            if fm.stdout.strip():
                rep.notes.append("derived.gen.go of sites round %d is not gofmt-clean (recorded, not part of the statement)" % r)
        # isolated one-call packages over imported types
        iso_part(rep, binp, rng, root)
        # the type corpus: generation must succeed and compile
        info = common.prepare_corpus(rep.tier, rep.seed, ["equal", "compare", "hash"])
        info2 = common.prepare_corpus(rep.tier, rep.seed, ["deepcopy", "clone"])
        for inf, what in ((info, "equal/compare/hash"), (info2, "deepcopy/clone")):
            rep.cov["programs"] += len(inf["pkgs"])
            if inf.get("goderive_rc") != 0:
                rep.violation("goderive failed on the supported type corpus (%s): %s" % (what, inf.get("goderive_err", "")[-500:]),
                              {"corpus": inf["dir"]}, True)
            elif inf.get("build_rc") != 0:
                rep.violation("derived.gen.go of the type corpus (%s) does not compile: %s" % (what, inf.get("build_err", "")[:800]),
                              {"corpus": inf["dir"]}, True)
            else:
                n = 0
                for q in inf["pkgs"]:
                    n += len(re.findall(r"^func ", open(os.path.join(inf["dir"], q, "derived.gen.go")).read(), flags=re.M))
                rep.cov["evaluations"] += n
                rep.cov["distinct_nontrivial"] += n
                rep.cov.setdefault("corpus_types", {})[what] = inf["stats"].get("types")
        # the concrete helper-request relation of the plugins (G/Requests.lean, Props/C01r): the functions the real
        # goderive generates must be exactly the closure the model predicts
        from vlib import requests as requests_tie
        requests_tie.run(rep)
        # recorded known findings of this property that no generator above produces (vlib/data/known)
        from vlib import probes
        probes.run(rep, "C01")
    finally:
        shutil.rmtree(root, ignore_errors=True)


def iso_part(rep, binp, rng, root):
    import concurrent.futures
    d = os.path.join(root, "iso")
    instantiate(d, rng, 0)
    shutil.rmtree(os.path.join(d, "p"))
    shutil.rmtree(os.path.join(d, "pend"))
    shutil.rmtree(os.path.join(d, "auton"))
    files, meta = gen_iso(rng, 160 if rep.tier == "quick" else 0)
    for rel, src in files.items():
        os.makedirs(os.path.dirname(os.path.join(d, rel)), exist_ok=True)
        with open(os.path.join(d, rel), "w") as f:
            f.write(src)

    def one(name):
        rc, err, to = common.run_goderive(binp, d, ["./iso/" + name], timeout=120, mem_gb=4)
        return name, rc, err, to

    with concurrent.futures.ThreadPoolExecutor(max_workers=12) as ex:
        res = list(ex.map(one, sorted(meta)))
    okp, refused = [], 0
    for name, rc, err, to in res:
        rep.cov["programs"] += 1
        src = files["iso/%s/%s.go" % (name, name)]
        if to or (rc != 0 and re.search(r"panic:|goroutine \d+ \[", err)):
            rep.violation("goderive crashed or hung on an isolated one-call package (%s): %s" % (meta[name], err[-300:]),
                          {"program": "iso", "file": src, "case": meta[name]}, True)
        elif rc != 0:
            refused += 1      # refused with a message: nothing was promised
            shutil.rmtree(os.path.join(d, "iso", name))
        else:
            okp.append(name)
    p = common.sh(["go", "vet", "./iso/..."], cwd=d, timeout=900)
    bad = {}
    for m in re.finditer(r"^(?:# sites/iso/(iso\d+)|(?:\./)?iso/(iso\d+)/[^:]+:\d+:\d+: (.*))$", p.stderr, flags=re.M):
        if m.group(2):
            bad.setdefault(m.group(2), m.group(3))
    if p.returncode != 0 and not bad:
        rep.violation("isolated one-call packages do not type-check: " + p.stderr[:900], {"program": "iso", "vet": p.stderr[:3000]}, True)
    for name, msg in sorted(bad.items())[:4]:
        gen = ""
        try:
            gen = open(os.path.join(d, "iso", name, "derived.gen.go")).read()
        except OSError:
            pass
        rep.violation("goderive exit 0 but package + derived.gen.go do not type-check (isolated call %s): %s" % (meta.get(name), msg),
                      {"program": "iso", "file": files.get("iso/%s/%s.go" % (name, name)), "case": meta.get(name), "derived": gen[:6000], "vet": msg}, True)
    rep.cov["evaluations"] += len(okp)
    rep.cov["distinct_nontrivial"] += len(okp)
    rep.cov["isolated_packages"] = {"generated": len(okp), "refused_with_message": refused,
                                    "through_alias": sum(1 for n in okp if meta[n].get("alias")),
                                    "in_a_file_with_a_generated_header": sum(1 for n in okp if meta[n].get("generated_header")),
                                    "by_plugin": {pl: sum(1 for n in okp if meta[n]["plugin"] == pl) for pl in sorted(ISO_CALLS)}}


def replay(rep, path):
    r = json.load(open(path))
    print("replay: %s — re-running the check with seed %s" % (r.get("what"), r.get("seed")))
    rep.seed, rep.tier = r.get("seed", rep.seed), r.get("tier", rep.tier)
    run(rep)
    return rep.finish()
