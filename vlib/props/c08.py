"""C08 — generation is deterministic and independent of invocation context.
Proof: Props/C08.lean over G/Determinism.lean and G/Imports.lean (every map-range site of the source is a
fold that is invariant under permutation of the iteration order; the list of such sites and the absence of
mutable package-level state are regenerated facts checked by `decide`).
Ties: T4 facts; the genambig corpus run through the real binary: N repeated runs per package on fresh
copies (the runtime re-randomises map order each time) and every invocation variant (alone / grouped in
several argument orders / ./... / import path / from other working directories / with a package that
imports it / mixed spellings / the same invocation again over its own output); sha256 of every derived.gen.go must be the same everywhere."""
import collections
import json
import os
import random
import re
import shutil
import time

from vlib import common, runs

TIMEOUT = 25
DERIVED = "derived.gen.go"


def norm_err(s):
    s = re.sub(r"0x[0-9a-f]+", "0x", s)
    return re.sub(r"/tmp/verif-[^/\s]+/[^/\s]+", "<root>", s).strip()[-400:]


def fresh(src, work, tag, drop=()):
    d = os.path.join(work, tag)
    shutil.copytree(src, d, ignore=shutil.ignore_patterns(*drop) if drop else None)
    return d


def shas(root, pkgs):
    return {p: runs.sha_file(os.path.join(root, p, DERIVED)) for p in pkgs}


def run(rep):
    n_rep = 8 if rep.tier == "quick" else 64
    rep.cov["rule"] = ("genambig corpus (mutually assignable named/unnamed types under several plugins, many helpers across plugins, two "
                       "imports with one package name, second-pass inference, a package importing a generated package, seeded random mixes); "
                       "one evaluation = one run of the real binary on a fresh copy; every package alone x %d repetitions, and every invocation "
                       "variant x 2; a comparison = one (package, run) sha256 of derived.gen.go against the package's baseline; distinct "
                       "non-trivial = distinct (package, invocation variant) pairs whose run produced a derived.gen.go" % n_rep)
    rep.assumptions += ["the loader's notion of package identity (same import path for ./p, import path and ../p spellings) is trusted and exercised",
                        "Go's runtime re-randomises map iteration order on every range statement (so repeated runs sample the permutations the theorems quantify over)",
                        "packages on which goderive does not terminate or fails are compared by exit status and normalised message only (crashes and hangs are C09's, compile failures C01's)"]
    facts = runs.facts_and_proof(rep, "C08")
    # the order in which the packages of an invocation are generated (sort by path, then imported-first): model
    # G/Order.lean (Props/C08o: permutation, imported first, independent of the listing order) against the real
    # importedFirst through the verif hook, on exhaustive small and random import graphs
    from vlib import order
    order.run(rep)
    rep.cov["traces_validated_against_impl"] = runs.import_tie(rep, (150 if rep.tier == "quick" else 1200))
    rep.cov["facts"] = {k: facts.get(k) for k in ("mapRangeSites", "mutablePackageVars", "packageVars")}
    _, binp = common.build_goderive()
    rnd = random.Random(rep.seed)
    classes = {}
    evaluations = 0
    comparisons = 0
    distinct = set()

    def flag(cid, what, replay):
        e = classes.setdefault(cid, {"what": what, "count": 0, "replay": replay, "found": True})
        e["count"] += 1

    with runs.Scratch("c08") as sd:
        src = os.path.join(sd, "src")
        stats = runs.gen_corpus("genambig", src, rep.tier, rep.seed)
        rep.cov["corpus"] = stats
        cases = json.load(open(os.path.join(src, "cases.json")))
        pkgs = [c["pkg"] for c in cases]
        kind_of = {c["pkg"]: c["kind"] for c in cases}
        hist_of = {c["pkg"]: c["history"] for c in cases if c.get("history")}
        work = os.path.join(sd, "work")
        os.makedirs(work)

        # ---- 1. baseline: every package alone
        def alone(job):
            p, i = job
            root = fresh(src, work, "alone-%s-%d" % (p, i))
            r = runs.goderive(binp, root, ["./" + p], timeout=TIMEOUT)
            r["sha"] = shas(root, pkgs)
            shutil.rmtree(root, ignore_errors=True)
            return r

        base = dict(zip(pkgs, runs.par(alone, [(p, 0) for p in pkgs])))
        evaluations += len(pkgs)
        status = {}
        for p in pkgs:
            b = base[p]
            status[p] = "timeout" if b["timeout"] else "crash" if runs.CRASH.search(b["out"]) else "ok" if b["rc"] == 0 else "rejected"
            others = [q for q in pkgs if q != p and b["sha"][q] != "absent"]
            if others:
                flag("C08/wrote-into-unnamed-package", "goderive ./%s wrote derived.gen.go into %s" % (p, others),
                     {"cmd": "goderive ./" + p, "files": runs.read_tree(os.path.join(src, p))})
        rep.cov["package_status_alone"] = dict(collections.Counter(status.values()))
        ok = [p for p in pkgs if status[p] == "ok" and kind_of.get(p) not in ("flow-top", "flow-mid", "autoname-group")]
        rejected = [p for p in pkgs if status[p] == "rejected" and kind_of.get(p) not in ("flow-top", "flow-mid", "autoname-group")]
        hung = [p for p in pkgs if status[p] in ("timeout", "crash")]
        if hung:
            rep.notes.append("packages on which goderive hangs or crashes (C09's business, excluded from byte comparison): %s" % hung)

        def compare(p, r, variant, cmd, root_files=None):
            """one (package, run) comparison against the baseline"""
            nonlocal comparisons
            comparisons += 1
            b = base[p]
            if r["sha"][p] != "absent":
                distinct.add((p, variant))
            if r["sha"][p] != b["sha"][p]:
                cls = "C08/bytes-differ:" + variant.split("#")[0]
                if kind_of.get(p) == "uses-test-augmented-dependency":
                    cls = "C08/bytes-differ:dependency-test-files-visible"
                flag(cls,
                     "derived.gen.go of package %s differs from its baseline (goderive ./%s alone) under variant '%s': %s vs %s" % (
                         p, p, variant, r["sha"][p][:12], b["sha"][p][:12]),
                     {"package": p, "cmd": cmd, "baseline_cmd": "goderive ./" + p, "variant": variant,
                      "files": runs.read_tree(os.path.join(src, p)), "stderr": r["out"][-800:],
                      "dependency_files": runs.read_tree(os.path.join(src, "dep")) if kind_of.get(p) == "uses-test-augmented-dependency" else {},
                      "baseline_sha": b["sha"][p], "variant_sha": r["sha"][p]})

        # ---- 2. repeated runs, each package alone (rejected ones: same status and message every time)
        jobs = [(p, i) for p in ok + rejected for i in range(1, n_rep)]
        res = runs.par(alone, jobs)
        evaluations += len(jobs)
        for (p, i), r in zip(jobs, res):
            compare(p, r, "repeat", "goderive ./%s  (run %d)" % (p, i))
            if (r["rc"], norm_err(r["out"])) != (base[p]["rc"], norm_err(base[p]["out"])):
                flag("C08/outcome-differs:repeat", "exit status / message of goderive ./%s differ between runs: (%s, %r) vs (%s, %r)" % (
                    p, r["rc"], norm_err(r["out"])[-160:], base[p]["rc"], norm_err(base[p]["out"])[-160:]),
                    {"package": p, "cmd": "goderive ./" + p, "files": runs.read_tree(os.path.join(src, p))})

        # ---- 3. invocation variants on the packages that succeed alone
        bad_dirs = [p for p in pkgs if status[p] != "ok"]
        if "amb2" in bad_dirs and "user" in ok:  # user imports amb2: it cannot be processed without it
            ok.remove("user")
            bad_dirs.append("user")
        variants = []
        srt = sorted(ok)
        variants.append(("grouped-sorted", None, ["./" + p for p in srt], srt, ()))
        variants.append(("grouped-reversed", None, ["./" + p for p in reversed(srt)], srt, ()))
        sh = list(srt)
        rnd.shuffle(sh)
        variants.append(("grouped-shuffled", None, ["./" + p for p in sh], srt, ()))
        variants.append(("dot-dot-dot", None, ["./..."], srt, tuple(bad_dirs)))
        variants.append(("import-paths", None, ["ambig/" + p for p in srt], srt, ()))
        variants.append(("import-path-pattern", None, ["ambig/..."], srt, tuple(bad_dirs)))
        variants.append(("mixed-spellings", None, [("./" + p) if i % 2 else ("ambig/" + p) for i, p in enumerate(srt)], srt, ()))
        for pi, p in enumerate(srt):
            # the spelling variants do not depend on what the package contains: in the quick tier every package gets two of
            # the four (rotating with the seed), in the thorough tier all
            spell = [("cwd-is-package", p, ["."]), ("relative-from-sibling", "x", ["../" + p]), ("import-path-alone", None, ["ambig/" + p]),
                     ("import-path-from-package-dir", p, ["ambig/" + p])]
            for si, (vn, cwd, args) in enumerate(spell):
                if rep.tier != "quick" or (si + pi + rep.seed) % 2 == 0:
                    variants.append((vn, cwd, args, [p], ()))
            variants.append(("rerun-over-own-output", None, ["./" + p], [p], ()))
            variants.append(("rerun-twice-over-own-output", None, ["./" + p], [p], ()))
        for p in srt[:4]:  # an old derived.gen.go that is LONGER than the new output must not leave its tail behind
            variants.append(("stale-longer-derived", None, ["./" + p], [p], ()))
        if "user" in ok and "amb2" in ok:
            variants.append(("with-importer-first", None, ["./user", "./amb2"], ["user", "amb2"], ()))
            variants.append(("with-importer-last", None, ["./amb2", "./user"], ["user", "amb2"], ()))
        for pi, (a, b) in enumerate(zip(srt, srt[1:] + srt[:1])):
            if rep.tier != "quick" or (pi + rep.seed) % 2 == 0:
                variants.append(("pair", None, ["./" + a, "./" + b], [a, b], ()))
        for p in srt[:3]:
            variants.append(("absolute-path", None, ["ABS/" + p], [p], ()))
        reps = 2 if rep.tier == "quick" else 6
        per_package = ("cwd-is-package", "relative-from-sibling", "import-path-alone", "import-path-from-package-dir", "rerun-over-own-output",
                       "rerun-twice-over-own-output", "pair")
        vjobs = [(v, i) for v in variants for i in range(1 if (rep.tier == "quick" and v[0] in per_package) else reps)]

        def variant_run(job):
            (name, cwd, args0, expect, drop), i = job
            r = None
            for attempt, limit in ((0, TIMEOUT * 2), (1, TIMEOUT * 6)):  # a timeout under machine load: once more, long limit
                root = fresh(src, work, "v-%d-%s-%d-%d" % (abs(hash((name, cwd, tuple(args0)))) % 10 ** 8, name, i, attempt), drop)
                args = [a.replace("ABS/", root + "/") for a in args0]
                if name == "stale-longer-derived":
                    with open(os.path.join(root, expect[0], DERIVED), "w") as f:
                        f.write("// Code generated by goderive DO NOT EDIT.\n\npackage %s\n\n" % expect[0] +
                                "".join("// deriveOld%d is left over from an earlier version of the sources.\nfunc deriveOld%d() {}\n\n" % (k, k) for k in range(2000)))
                if name == "flow-one-by-one":  # one invocation per package, in the order given
                    for a in args:
                        r = runs.goderive(binp, root, [a], timeout=limit)
                        if r["rc"] != 0 or r["timeout"]:
                            break
                else:
                    r = runs.goderive(binp, os.path.join(root, cwd) if cwd else root, args, timeout=limit)
                for _ in range({"rerun-over-own-output": 1, "rerun-twice-over-own-output": 2}.get(name, 0)):
                    if r["rc"] == 0 and not r["timeout"]:  # the same invocation again, over the file that is now there
                        r = runs.goderive(binp, os.path.join(root, cwd) if cwd else root, args, timeout=limit)
                r["sha"] = shas(root, pkgs)
                shutil.rmtree(root, ignore_errors=True)
                if not r["timeout"]:
                    break
            return r

        vres = runs.par(variant_run, vjobs)
        evaluations += len(vjobs)
        vcount = collections.Counter()
        unsupported_spellings = collections.Counter()
        for ((name, cwd, args, expect, drop), i), r in zip(vjobs, vres):
            cmd = "%sgoderive %s" % ("cd %s && " % cwd if cwd else "", " ".join(args))
            vcount[name] += 1
            if r["timeout"] or runs.CRASH.search(r["out"]):
                flag("C08/variant-crashed:" + name, "goderive crashed or hung under variant %s although every named package is fine alone: %s" % (
                    cmd, r["out"][-200:]), {"cmd": cmd, "stderr": r["out"][-800:]})
                continue
            if r["rc"] != 0 and all(r["sha"][p] == "absent" for p in expect):
                # this spelling is not accepted at all (same for every package): nothing to compare
                unsupported_spellings[name + ": " + norm_err(r["out"])[-120:]] += 1
                continue
            if r["rc"] != 0:
                flag("C08/outcome-differs:" + name, "every named package is accepted when named alone, but `%s` exits %s: %s" % (cmd, r["rc"], norm_err(r["out"])[-300:]),
                     {"cmd": cmd, "stderr": r["out"][-800:], "files": {p: runs.read_tree(os.path.join(src, p)) for p in expect[:3]}})
            for p in expect:
                compare(p, r, name + "#" + str(i), cmd)
            stray = [q for q in pkgs if q not in expect and r["sha"][q] != "absent" and name not in ("dot-dot-dot", "import-path-pattern")]
            if stray:
                flag("C08/wrote-into-unnamed-package", "%s wrote derived.gen.go into packages not named: %s" % (cmd, stray), {"cmd": cmd})
        rep.cov["variants"] = dict(vcount)
        if unsupported_spellings:
            rep.cov["spellings_not_accepted"] = dict(unsupported_spellings)

        # ---- 4. a failing sibling must not change what the other packages get; the run must fail, wherever the
        # failing package stands among the arguments
        sib = collections.Counter()
        if rejected and len(ok) >= 2:
            badp = "bad" if "bad" in rejected else rejected[0]
            goodp = [p for p in ok if kind_of.get(p) not in ("flow-base", "flow-top")][:3]
            sjobs = []
            for pos in range(len(goodp) + 1):
                order = ["./" + g for g in goodp[:pos]] + ["./" + badp] + ["./" + g for g in goodp[pos:]]
                sjobs += [(("failing-sibling", None, order, goodp, ()), i) for i in range(max(2, n_rep // 4))]
            sjobs.append((("failing-sibling", None, ["ambig/" + g for g in goodp[:1]] + ["ambig/" + badp] + ["ambig/" + g for g in goodp[1:]], goodp, ()), 0))
            sres = runs.par(variant_run, sjobs)
            evaluations += len(sjobs)
            outcomes = set()
            for (v, i), r in zip(sjobs, sres):
                written = tuple(sorted(p for p in goodp if r["sha"][p] != "absent"))
                outcomes.add(written)
                sib[",".join(written) or "none"] += 1
                comparisons += 1
                if r["rc"] == 0 and not r["timeout"]:
                    flag("C08/failing-package-but-exit-0", "`goderive %s` exits 0 although package %s is rejected when named alone (%s): the exit status depends on "
                         "where the failing package stands among the arguments" % (" ".join(v[2]), badp, norm_err(base[badp]["out"])[-160:]),
                         {"cmd": "goderive " + " ".join(v[2]), "stderr": r["out"][-600:],
                          "files": {p: runs.read_tree(os.path.join(src, p)) for p in goodp + [badp]}})
                for p in goodp:
                    comparisons += 1
                    if r["sha"][p] not in ("absent", base[p]["sha"][p]):
                        flag("C08/bytes-differ:failing-sibling", "package %s got different bytes next to a failing package" % p,
                             {"cmd": "goderive " + " ".join(v[2]), "package": p})
            rep.cov["failing_sibling_written_sets"] = dict(sib)
            if len(outcomes) > 1:
                flag("C08/failing-sibling-partial-output-varies",
                     "with one rejected package in the invocation, WHICH of the other packages get their derived.gen.go written differs between runs / "
                     "argument orders (%s over %d runs with the failing package in every position)" % (dict(sib), len(sjobs)),
                     {"cmd": "goderive " + " ".join(sjobs[0][0][2]), "written_sets": dict(sib),
                      "files": {p: runs.read_tree(os.path.join(src, p)) for p in goodp + [badp]}})

        # ---- 5. cross-package flow from a clean state: a package whose call argument type is only known once the
        # named package it imports has its derived.gen.go; every order and spelling of the two arguments
        fb = [p for p in pkgs if kind_of.get(p) == "flow-base"]
        ft = [p for p in pkgs if kind_of.get(p) == "flow-top"]
        fmid = [p for p in pkgs if kind_of.get(p) == "flow-mid"]  # passes the types on, never an argument
        for t0 in (ft if fb and status.get(fb[0]) == "ok" else []):
            b0 = fb[0]
            fvars = [[x + b0, x + t0] for x in ("./", "ambig/")] + [[x + t0, x + b0] for x in ("./", "ambig/")] + \
                    [["./" + t0, "ambig/" + b0], ["ambig/" + t0, "./" + b0], ["./" + b0, "ambig/" + t0], ["ambig/" + b0, "./" + t0]]
            keep = tuple(q for q in pkgs if q not in (b0, t0) and kind_of.get(q) not in ("assignable-named-unnamed",))
            fjobs = [(("flow-pair", None, a, [b0, t0], ()), i) for a in fvars for i in range(2)]
            fjobs += [(("flow-one-by-one", None, ["./" + b0, "./" + t0], [b0, t0], ()), 0)]
            fjobs += [(("flow-pair-cwd", t0, ["../" + b0, "."], [b0, t0], ()), 0), (("flow-pair-cwd", b0, ["../" + t0, "."], [b0, t0], ()), 0)]
            fres = runs.par(variant_run, fjobs)
            evaluations += len(fjobs)
            ref = fres[0]  # dependency first, relative paths
            if ref["rc"] != 0:
                flag("C08/flow-pair-rejected", "goderive %s fails from a clean state: %s" % (" ".join(fvars[0]), ref["out"][-300:]),
                     {"cmd": "goderive " + " ".join(fvars[0]), "files": {p: runs.read_tree(os.path.join(src, p)) for p in [b0, t0] + fmid}})
            for (v, i), r in zip(fjobs, fres):
                for p in (b0, t0):
                    comparisons += 1
                    if r["sha"][p] != "absent":
                        distinct.add((p, "flow:" + " ".join(v[2])))
                    if r["sha"][p] != ref["sha"][p] or r["rc"] != ref["rc"]:
                        flag("C08/bytes-differ:cross-package-flow" + ("-from-package-dir" if v[0] == "flow-pair-cwd" else ""),
                             "from a clean state `%sgoderive %s`%s (exit %s) leaves %s/derived.gen.go %s, `goderive %s` (exit %s) leaves %s" % (
                                 "cd %s && " % v[1] if v[1] else "", " ".join(v[2]), " (one invocation per package)" if v[0] == "flow-one-by-one" else "", r["rc"], p, r["sha"][p][:12], " ".join(fvars[0]), ref["rc"], ref["sha"][p][:12]),
                             {"cmd": "goderive " + " ".join(v[2]), "baseline_cmd": "goderive " + " ".join(fvars[0]), "package": p, "stderr": r["out"][-600:],
                              "files": {q: runs.read_tree(os.path.join(src, q)) for q in [b0, t0] + fmid}})
            rep.cov["flow_pair_runs"] = rep.cov.get("flow_pair_runs", 0) + len(fjobs)

        # ---- 6. history: the bytes are a function of the CURRENT sources (the package's own and those it imports) and the
        # flags: generate htop, add a field to a struct of the imported hbase, generate htop again with the same arguments;
        # the result must be what a from-scratch generation over the changed sources gives
        if "htop" in ok and "hbase" in pkgs:
            def add_field(root):
                fp = os.path.join(root, "hbase", "hbase.go")
                txt = open(fp).read().replace("// FIELDS", "Count map[string]int\n\tNote  *string")
                open(fp, "w").write(txt)

            def history(mode):
                root = fresh(src, work, "hist-" + mode)
                out = []
                if mode != "scratch":
                    out.append(runs.goderive(binp, root, ["./htop"] if mode == "alone" else ["./hbase", "./htop"], timeout=TIMEOUT * 2))
                    time.sleep(1.1)  # the generated file is older than the edit that follows by a full mtime tick
                    for fn in os.listdir(os.path.join(root, "htop")):  # … and newer than the package's own sources
                        if fn != DERIVED:
                            os.utime(os.path.join(root, "htop", fn), (time.time() - 3600, time.time() - 3600))
                add_field(root)
                r = runs.goderive(binp, root, ["./htop"] if mode != "both" else ["./hbase", "./htop"], timeout=TIMEOUT * 2)
                r["sha"] = shas(root, pkgs)
                r["text"] = open(os.path.join(root, "htop", DERIVED), errors="replace").read() if r["sha"]["htop"] != "absent" else ""
                shutil.rmtree(root, ignore_errors=True)
                return r

            hres = {m: history(m) for m in ("scratch", "alone", "both")}
            evaluations += 5
            for m in ("alone", "both"):
                comparisons += 1
                distinct.add(("htop", "history-" + m))
                if hres[m]["sha"]["htop"] != hres["scratch"]["sha"]["htop"] or hres[m]["rc"] != hres["scratch"]["rc"]:
                    flag("C08/bytes-differ:history-imported-package-changed",
                         "htop/derived.gen.go after `goderive ./htop`, adding two fields to hbase.Item, `goderive ./htop` again (%s) is %s (exit %s); generated from "
                         "scratch over the same final sources it is %s (exit %s)%s" % (
                             m, hres[m]["sha"]["htop"][:12], hres[m]["rc"], hres["scratch"]["sha"]["htop"][:12], hres["scratch"]["rc"],
                             "" if "Count" in hres[m]["text"] else ": the new fields are missing from the regenerated file"),
                         {"cmd": "goderive ./htop; <add fields Count, Note to hbase.Item>; goderive ./htop", "baseline_cmd": "<add fields>; goderive ./htop",
                          "files": {q: runs.read_tree(os.path.join(src, q)) for q in ("hbase", "htop")}})
            rep.cov["history_runs"] = 5

        # ---- 6b. histories of one package: generate for an earlier version of the sources, put the current sources in place,
        # generate again: the result (exit status, bytes) must be that of a generation from scratch over the current sources
        def hist_run(p, with_history):
            root = fresh(src, work, "h-%s-%d" % (p, with_history))
            pdir = os.path.join(root, p)
            first = None
            if with_history:
                cur = {}
                for fn, old in hist_of[p].items():
                    fp = os.path.join(pdir, fn)
                    cur[fn] = open(fp).read() if os.path.exists(fp) else None
                    if old == "":
                        if os.path.exists(fp):
                            os.remove(fp)
                    else:
                        open(fp, "w").write(old)
                first = runs.goderive(binp, root, ["./" + p], timeout=TIMEOUT * 2)
                for fn, txt in cur.items():
                    fp = os.path.join(pdir, fn)
                    if txt is None:
                        if os.path.exists(fp):
                            os.remove(fp)
                    else:
                        open(fp, "w").write(txt)
            r = runs.goderive(binp, root, ["./" + p], timeout=TIMEOUT * 2)
            r["first"] = first
            r["sha"] = shas(root, pkgs)
            r["derived"] = open(os.path.join(pdir, DERIVED), errors="replace").read() if r["sha"][p] != "absent" else ""
            shutil.rmtree(root, ignore_errors=True)
            return r

        hjobs = [(p, w) for p in sorted(hist_of) for w in (0, 1)]
        hres = dict(zip(hjobs, runs.par(lambda j: hist_run(*j), hjobs)))
        evaluations += len(hjobs) + len(hist_of)
        for p in sorted(hist_of):
            a, b = hres[(p, 0)], hres[(p, 1)]
            comparisons += 1
            distinct.add((p, "history"))
            if b["first"] is not None and b["first"]["rc"] != 0:
                rep.notes.append("history step of %s fails on the earlier version: %s" % (p, b["first"]["out"][-200:]))
            if (a["rc"], a["sha"][p]) != (b["rc"], b["sha"][p]):
                flag("C08/bytes-differ:history-of-the-package",
                     "package %s: generated from scratch `goderive ./%s` exits %s and leaves %s; after an earlier version of the sources was generated for, the same "
                     "command over the same current sources exits %s and leaves %s%s" % (
                         p, p, a["rc"], a["sha"][p][:12], b["rc"], b["sha"][p][:12], (": " + norm_err(b["out"])[-200:]) if b["rc"] != 0 else ""),
                     {"cmd": "<earlier sources>; goderive ./%s; <current sources>; goderive ./%s" % (p, p), "baseline_cmd": "goderive ./" + p, "package": p,
                      "files": runs.read_tree(os.path.join(src, p)), "earlier_files": hist_of[p], "stderr": b["out"][-600:]})
        rep.cov["package_history_runs"] = len(hjobs)

        # ---- 7. -autoname: what it does to a package (generated bytes AND rewritten sources) must not depend on the other
        # packages named in the invocation
        ag = sorted(p for p in pkgs if kind_of.get(p) == "autoname-group")
        if len(ag) >= 2:
            def auto_run(args, tag):
                root = fresh(src, work, "auto-" + tag)
                r = runs.goderive(binp, root, ["-autoname"] + args, timeout=TIMEOUT * 2)
                r["state"] = {p: {fn: runs.sha_file(os.path.join(root, p, fn)) for fn in sorted(os.listdir(os.path.join(root, p)))} for p in ag}
                r["text"] = {p: runs.read_tree(os.path.join(root, p)) for p in ag}
                shutil.rmtree(root, ignore_errors=True)
                return r

            alone_a = {p: auto_run(["./" + p], "alone-" + p) for p in ag}
            groups = [["./" + p for p in ag], ["./" + p for p in reversed(ag)], ["ambig/" + p for p in ag]] + [["./" + a, "./" + b] for a in ag for b in ag if a != b]
            evaluations += len(ag) + len(groups)
            for gi, g in enumerate(groups):
                r = auto_run(g, "g%d" % gi)
                for p in ag:
                    if not any(a.endswith("/" + p) for a in g):
                        continue
                    comparisons += 1
                    distinct.add((p, "autoname:" + " ".join(g)))
                    if r["state"][p] != alone_a[p]["state"][p]:
                        diff = [fn for fn in set(r["state"][p]) | set(alone_a[p]["state"][p]) if r["state"][p].get(fn) != alone_a[p]["state"][p].get(fn)]
                        flag("C08/autoname-depends-on-other-packages",
                             "`goderive -autoname %s` leaves %s of package %s different from `goderive -autoname ./%s`: %s" % (
                                 " ".join(g), ", ".join(sorted(diff)), p, p,
                                 "; ".join("%s: %r" % (fn, [l for l in r["text"][p].get(fn, "").splitlines() if "derive" in l][:3]) for fn in sorted(diff) if fn != DERIVED)[:300]),
                             {"cmd": "goderive -autoname " + " ".join(g), "baseline_cmd": "goderive -autoname ./" + p, "package": p,
                              "files": {q: runs.read_tree(os.path.join(src, q)) for q in ag}})
            rep.cov["autoname_group_runs"] = len(ag) + len(groups)

        rep.cov["evaluations"] = evaluations
        rep.cov["programs"] = len(pkgs)
        rep.cov["disagreements_checked"] = comparisons
        rep.cov["distinct_nontrivial"] = len(distinct)
        rep.cov["repetitions_per_package"] = n_rep
        rep.cov["packages_ok_alone"] = ok
        rep.cov["packages_rejected_alone"] = rejected
        for p in ok[:3]:
            rep.cov["samples"].append({"package": p, "baseline_sha256": base[p]["sha"][p], "runs_compared": n_rep - 1 + sum(
                1 for (v, i) in vjobs if p in v[3])})
        runs.report_classes(rep, "C08", classes)


def replay(rep, path):
    r = json.load(open(path))
    print("replay of %s: %s" % (r.get("class"), r.get("what")))
    print("command: %s   (baseline: %s)" % (r.get("cmd"), r.get("baseline_cmd", "-")))
    _, binp = common.build_goderive()
    files = r.get("files") or {}
    if not files:
        return 1
    nested = all(isinstance(v, dict) for v in files.values())
    with runs.Scratch("c08r") as sd:
        seen = collections.Counter()
        for i in range(12):
            root = os.path.join(sd, "r%d" % i)
            os.makedirs(root)
            open(os.path.join(root, "go.mod"), "w").write("module ambig\n\ngo 1.24\n")
            if nested:
                for p, fs in files.items():
                    runs.write_tree(os.path.join(root, p), fs)
                args = r.get("cmd", "").split()[1:]
                pk = sorted(files)
            else:
                pk = [r.get("package", "p")]
                runs.write_tree(os.path.join(root, pk[0]), files)
                args = ["./" + pk[0]]
            out = runs.goderive(binp, root, args, timeout=TIMEOUT)
            seen[(out["rc"],) + tuple(runs.sha_file(os.path.join(root, p, DERIVED))[:12] for p in pk)] += 1
        print("12 runs of goderive %s -> (rc, sha per package): %s" % (" ".join(args), dict(seen)))
        return 1 if len(seen) > 1 else 0
