"""C20 — Do runs all functions concurrently and returns every result and an error.
Proof: Props/C20.lean (K/Do: all spawned before the first receive, return only after every worker wrote,
error rule, no conflicting access, progress with rendezvousing functions, no worker left).  Ties: T4 skeleton,
T5 trace validation on harness/vsched with replay on the Lean LTS, real-runtime stress under the race detector."""
from vlib import common, conc

SYSTEMS = ["do"]


def run(rep):
    rep.cov["rule"] = (
        "executions of the emitted deriveDo for 2, 3 and 4 functions x every subset of failing functions x rendezvous patterns between the "
        "functions (none, one pair in both directions, a chain, crossing pairs): every interleaving by DFS (2 and 3 functions; 4 in the "
        "thorough tier), every interleaving up to commutation of independent steps (sleep sets) for all of them, random configurations and "
        "schedules seeded from VERIF_SEED; every execution checked against the observable clauses (values in position, error rule, all "
        "started before the first receive, results read after all writes, no deadlock, nothing left) and its step log replayed on the Lean "
        "LTS; plus real-runtime repetitions under -race. distinct_nontrivial = distinct accepted step logs; states/transitions as traversed "
        "by the replayed traces (not deduplicated)")
    rep.assumptions += [
        "the user functions terminate once all of them are running (they rendezvous pairwise in one global order)",
        "Go channel semantics as modelled in K/Lts.lean (= harness/vsched); memory-level race freedom observed with the race detector"]
    conc.run(rep, "C20", SYSTEMS)


def replay(rep, path):
    return conc.replay(rep, path, "C20", SYSTEMS)
