"""C14 — set and list helpers (derived Contains, Unique, Set, Union, Intersect, Filter, TakeWhile, All, Any).
Proof: Props/C14.lean (each emitted loop — in-place compaction of filter and of the hash-bucket unique
included — equals its textbook definition, with the predicate's call log). Tie: T1 on the list corpus of
harness/cmd/genlists (ops contains unique set unionl intersectl unionm intersectm filter takewhile all any)."""
from vlib.props import c13

PLUGINS = ["contains", "unique", "set", "union", "intersect", "filter", "takewhile", "all", "any"]
OPS = {"contains", "unique", "set", "unionl", "intersectl", "unionm", "intersectm", "filter", "takewhile", "all", "any",
       "containseq", "uniqueeq", "seteq", "unioneq", "intersecteq"}

RULE = ("27 element types (==-comparable and not: basics incl. +0/-0 floats, named basics, comparable struct, pointers to structs "
        "incl. recursive and imported, slices, struct with pointers, named floats with -0/+0 inside non-comparable elements ([]NF, *NF, *SNF), slice elements that are views of one backing array) and 9 key types x the boundary-biased list pool of C13 (nil, "
        "empty, duplicates fresh and aliased, Equal-but-not-identical variants, nil elements, random lists); contains with present / "
        "absent / Equal-but-not-identical / single-mutation items; unique and set on every list; union / intersect on 81 + random "
        "ordered list pairs and on all ordered pairs of key sets (nil, empty, singletons, both insertion orders, +0 vs -0 keys, the "
        "same map twice); filter / takewhile / all / any with scripted predicates (all 2^n scripts for n <= 3, else all-true, "
        "all-false, alternating, late first false, exhausted, random) and the call log in the answer; distinct = distinct op lines "
        "whose containers hold >= 2 elements in total; consistency ops (containseq, uniqueeq, seteq, unioneq, intersecteq) decide the clauses relative to the EMITTED Equal on the emitted functions themselves over float / complex / named-float elements and structs holding floats, NaN included; every answer of an op that returns a slice carries an alias flag (result shares the "
        "backing array of an input / fresh) next to the input as observed after the call")

KNOWN_TEXT = {
    "C14/unique-noncomparable-own-equal-no-hash": "F115 deriveUnique on an element type that is not ==-comparable and holds an own Equal without an "
                                                  "own Hash buckets by the structural hash: two elements that derived Equal holds equal are kept "
                                                  "(nothing is lost or invented)",
    "C14/unique-own-equal-no-hash": "deriveUnique on a ==-comparable element type with its own Equal but no own Hash buckets by the structural "
                                    "hash: mutually Equal elements are kept",
    "C14/unique-named-basic-own-hash-ignored": "deriveUnique on a named basic type with its own Equal and Hash() int32: the hash function "
                                               "generated for the type itself ignores the method, mutually Equal elements are kept",
}


def classify(op, impl, model, spec):
    """type names LNH<i> / LBH<i> are the element types of the two finding classes (harness/cmd/genlists)"""
    f = op.rstrip("\n").split(" ", 4)
    if f[2] in ("unique", "uniqueeq") and impl == model if f[2] == "unique" else f[2] == "uniqueeq":
        if f[3].startswith("LNH"):
            return "C14/unique-own-equal-no-hash"
        if f[3].startswith("LBH"):
            return "C14/unique-named-basic-own-hash-ignored"
    if f[3].startswith("LNC") and ((f[2] == "uniqueeq" and impl.strip() == "false;kept-equal") or (f[2] == "unique" and impl == model)):
        # element type not ==-comparable, holding an own Equal without an own Hash; nothing lost or invented
        return "C14/unique-noncomparable-own-equal-no-hash"
    return None


def run(rep):
    c13.run_family(rep, "C14", PLUGINS, OPS, RULE, classify=classify, known_text=KNOWN_TEXT)
    rep.notes.append("union / intersect over lists keep duplicates that the first list already has (the emitted code documents "
                     "\"assumes that the first list only contains unique items\"); the list specification used here is first list's order, "
                     "then the new items once each, which that behaviour satisfies")

    from vlib import probes
    probes.run(rep, "C14")

def replay(rep, path):
    return c13.replay_family(rep, path, run)
