"""Shared machinery of the C11 / C12 checks: the in-process tie T3 (harness-t3/cmd/tmdrive on the real
typesMap / sortPlugins / printer through the `verif` hooks vs the Lean driver) and the black-box
pipeline tie T2 (harness/cmd/gennames: tiny packages through the real goderive binary vs the Lean
model's `regall`, plus an independent clash oracle written here)."""
import json
import os
import shutil
import subprocess
import tempfile
import time

from vlib import common

T3SRC = os.path.join(common.VERIF, "harness-t3")


def esc(s):
    if s == "":
        return "%"
    out = []
    for b in s.encode("utf-8", "surrogateescape"):
        c = chr(b)
        if c.isascii() and (c.isalnum() or c == "_"):
            out.append(c)
        else:
            out.append("%%%02X" % b)
    return "".join(out)


def build_tmdrive():
    """Builds harness-t3/cmd/tmdrive (module verift3, build tag verif) against /repo's working tree in
    .work/t3-<hash>/ (the sources are copied there together with /repo/go.sum)."""
    h = common.repo_hash() + "-" + common.hash_tree(T3SRC, ["."])
    d = os.path.join(common.WORK, "t3-" + h)
    binp = os.path.join(d, "tmdrive")
    with common.Lock("t3"):
        if not os.path.exists(binp):
            shutil.rmtree(d, ignore_errors=True)
            shutil.copytree(T3SRC, os.path.join(d, "src"))
            shutil.copy(os.path.join(common.REPO, "go.sum"), os.path.join(d, "src", "go.sum"))
            if common.REPO != "/repo":  # VERIF_REPO: point the replace directive at the tree under check
                gm = os.path.join(d, "src", "go.mod")
                txt = open(gm).read().replace("=> /repo", "=> " + common.REPO)
                open(gm, "w").write(txt)
            p = common.sh(["go", "build", "-tags", "verif", "-o", binp, "./cmd/tmdrive"], cwd=os.path.join(d, "src"), timeout=900)
            if p.returncode != 0:
                raise common.CheckError("tmdrive does not build against %s (verif hooks missing?):\n%s" % (common.REPO, p.stderr[-3000:]))
        # other checks (other repo hashes: seeded runs with VERIF_REPO) may be using their own t3-* build
        # right now: prune only old ones, never the recent
        olds = sorted((os.path.join(common.WORK, x) for x in os.listdir(common.WORK)
                       if x.startswith("t3-") and os.path.join(common.WORK, x) != d), key=os.path.getmtime)
        for x in olds[:-6]:
            if time.time() - os.path.getmtime(x) > 3600:
                shutil.rmtree(x, ignore_errors=True)
    return binp


def private_copy(path, tmp, lock=None):
    """Copies a binary into this run's scratch directory: build caches under .work (tools-*, repo-*, t3-*)
    and the Lean driver are replaced or pruned by concurrent checks while this one is still running."""
    dst = os.path.join(tmp, "bin-" + os.path.basename(path))
    if not os.path.exists(dst):
        for attempt in range(3):
            try:
                if lock:
                    with common.Lock(lock):
                        shutil.copy2(path, dst)
                else:
                    shutil.copy2(path, dst)
                break
            except OSError:
                if attempt == 2:
                    raise common.CheckError("cannot copy %s (removed by a concurrent build?)" % path)
                time.sleep(1)
    return dst


def run_lines(binary, path_in, path_out, timeout=3600):
    with open(path_in) as fin, open(path_out, "w") as fout:
        p = subprocess.run([binary], stdin=fin, stdout=fout, stderr=subprocess.PIPE, timeout=timeout)
    if p.returncode != 0:
        raise common.CheckError("%s failed: %s" % (binary, p.stderr.decode(errors="replace")[-2000:]))


def t3(rep, streams, what):
    """Runs the T3 streams whose name starts with one of `streams`. A difference is a violation without
    failing input of the property itself (the correspondence broke); the replay holds the op line."""
    tmp = tempfile.mkdtemp(prefix="verif-t3-")
    try:
        tm = private_copy(build_tmdrive(), tmp, "t3")
        gen = private_copy(common.tool_path("gennames"), tmp, "tools")
        drv = private_copy(common.driver_path(), tmp, "lake")
        args = [gen, "-mode", "t3", "-out", tmp, "-seed", str(rep.seed)]
        if rep.tier == "thorough":
            args.append("-thorough")
        common.sh(args, check=True, timeout=900)
        ops_all = open(os.path.join(tmp, "ops.txt")).read().splitlines()
        keep = []
        for l in ops_all:
            name = l.split(" ", 3)[2]
            if name in streams:
                keep.append(l)
        with open(os.path.join(tmp, "sel.txt"), "w") as f:
            f.write("\n".join(keep) + "\n")
        run_lines(drv, os.path.join(tmp, "sel.txt"), os.path.join(tmp, "model.txt"))
        run_lines(tm, os.path.join(tmp, "sel.txt"), os.path.join(tmp, "impl.txt"))
        m = open(os.path.join(tmp, "model.txt")).read().splitlines()
        i = open(os.path.join(tmp, "impl.txt")).read().splitlines()
        if len(m) != len(keep) or len(i) != len(keep):
            raise common.CheckError("T3 line protocol out of step: %d ops, %d model, %d impl" % (len(keep), len(m), len(i)))
        bad, n, rejected = [], 0, 0
        per = {}
        distinct = set()
        for op, lm, li in zip(keep, m, i):
            idm, am = lm.split(" ", 1)
            idi, ai = li.split(" ", 1)
            oid = op.split(" ", 2)[1]
            if idm != oid or idi != oid:
                raise common.CheckError("T3 line protocol out of step at op %s" % oid)
            if am in ("ill-typed",) and ai == am:
                rejected += 1
                continue
            if not am.startswith("model=") or not ai.startswith("impl="):
                raise common.CheckError("T3 op rejected: %s -> model %s impl %s" % (op[:200], am[:100], ai[:100]))
            n += 1
            name = op.split(" ", 3)[2]
            per[name] = per.get(name, 0) + 1
            distinct.add(ai)
            if am[6:] != ai[5:]:
                bad.append((op, am[6:], ai[5:]))
            elif len(rep.cov["samples"]) < 3 and n % 1499 == 1:
                rep.cov["samples"].append({"op": op[:300], "impl": ai[5:][:200], "model": am[6:][:200]})
        stats = json.load(open(os.path.join(tmp, "stats.json")))
        rep.cov.setdefault("t3", {})
        rep.cov["t3"].update({"lines_by_op": per, "generator": stats, "ill_typed_rejected_by_both": rejected,
                              "distinct_answers": len(distinct)})
        rep.cov["traces_validated_against_impl"] += n
        rep.cov["evaluations"] += n
        rep.cov["disagreements_checked"] += n
        if bad:
            op, am, ai = bad[0]
            rep.violation("correspondence T3 broken (%s): the real code and the Lean model differ on %d of %d op lines, first: %s | impl=%s | model=%s" % (
                what, len(bad), n, op[:300], ai[:300], am[:300]),
                {"correspondence": "T3 " + what, "kind": "t3", "op": op, "impl": ai, "model": am}, False)
        return n
    finally:
        shutil.rmtree(tmp, ignore_errors=True)


def replay_t3(op):
    tm = build_tmdrive()
    pm = subprocess.run([common.driver_path()], input=op + "\n", stdout=subprocess.PIPE, text=True)
    pi = subprocess.run([tm], input=op + "\n", stdout=subprocess.PIPE, text=True)
    return pm.stdout.strip(), pi.stdout.strip()


# ---------------------------------------------------------------- T2


def parse_tables(s):
    """'PFX=name[t,t],name[t];PFX2=' -> {pfx: [(name, '[t,t]'), …]}"""
    out = {}
    for part in split_top(s, ";"):
        pfx, _, rest = part.partition("=")
        ents = []
        i = 0
        while i < len(rest):
            j = rest.index("[", i)
            name = rest[i:j]
            depth, k = 0, j
            while True:
                if rest[k] in "[(":
                    depth += 1
                elif rest[k] in "])":
                    depth -= 1
                    if depth == 0:
                        break
                k += 1
            ents.append((name, rest[j:k + 1]))
            i = k + 1
            if i < len(rest) and rest[i] == ",":
                i += 1
        out[pfx] = ents
    return out


def split_top(s, sep):
    out, depth, cur = [], 0, []
    for ch in s:
        if ch in "[(":
            depth += 1
        elif ch in "])":
            depth -= 1
        if ch == sep and depth == 0:
            out.append("".join(cur))
            cur = []
        else:
            cur.append(ch)
    out.append("".join(cur))
    return out


def parse_model(ans):
    """model answer of regall -> dict"""
    if not ans.startswith("model="):
        return {"class": "bad", "raw": ans}
    a = ans[6:]
    if a == "panic":
        return {"class": "panic"}
    if a.startswith("err:"):
        _, cls, pfx = a.split(":", 2)
        return {"class": cls, "prefix": pfx}
    parts = a.split("/")
    names = [[x for x in f.split(",")] if f else [] for f in parts[1].split(";")]
    changed = [x == "1" for x in parts[2].split(",")] if parts[2] else []
    return {"class": "ok", "names": names, "changed": changed, "tables": parse_tables("/".join(parts[3:]))}


def handler(case, name):
    """independent re-statement of the dispatch: the plugin with the longest prefix of `name`"""
    best = None
    for p in case["plugins"]:
        if name.startswith(p["prefix"]):
            if best is None or len(p["prefix"]) > len(best["prefix"]):
                best = p
    return best


def clashes(case, pkg="files"):
    """independent oracle: (conflict exists, duplicate exists) on the call list of one package, as the property words it"""
    calls = []
    files = sorted(case.get(pkg) or [], key=lambda f: f["name"])
    if pkg == "files" and case.get("extra_calls"):
        files = files + [{"name": "~extra", "calls": case["extra_calls"]}]
    for f in files:
        for c in f["calls"]:
            h = handler(case, c["name"])
            # argument type list = (type, number of arguments): lists of different length are different lists
            calls.append((h["name"] if h else None, c["name"], case["types"][c["type"]]["go"], c.get("arity") or arity(c["plugin"])))
    conflict = duplicate = False
    for i in range(len(calls)):
        for j in range(i + 1, len(calls)):
            a, b = calls[i], calls[j]
            if a[0] is None or a[0] != b[0]:
                continue
            same_types = a[2:] == b[2:]
            if a[1] == b[1] and not same_types:
                conflict = True
            if a[1] != b[1] and same_types:
                duplicate = True
    return conflict, duplicate


def unresolvable_duplicate(case, pkg="files"):
    files = sorted(case.get(pkg) or [], key=lambda f: f["name"])
    calls = []
    for f in files:
        for c in f["calls"]:
            h = handler(case, c["name"])
            calls.append((h["name"] if h else None, c["name"], (case["types"][c["type"]]["go"], c.get("arity") or arity(c["plugin"]))))
    for j in range(len(calls)):
        hj, nj, tj = calls[j]
        if hj is None:
            continue
        first = [i for i in range(j) if calls[i][0] == hj and calls[i][2] == tj]
        if not first:
            continue
        i = first[0]
        if calls[i][1] == nj:
            continue
        pre = [c for c in calls[:i + 1] if c[0] == hj]
        if any(a[1] == b[1] and a[2] != b[2] for x, a in enumerate(pre) for b in pre[x + 1:]):
            continue
        return True
    return False


def arity(plugin):
    return 2 if plugin in ("equal", "compare", "deepcopy", "tuple") else 1


def spec_verdict(case, variant):
    """What the property says about the exit status of the invocation: 'fail', 'ok' or None (the property does
    not say). With two packages in one invocation: fails if one of them must fail, ok if both must be accepted."""
    if case.get("pkg2"):
        vs = [spec_verdict_pkg(case, variant, "files"), spec_verdict_pkg(case, variant, "pkg2")]
        if "fail" in vs:
            return "fail"
        return "ok" if vs == ["ok", "ok"] else None
    return spec_verdict_pkg(case, variant, "files")


def spec_verdict_pkg(case, variant, pkg):
    conflict, duplicate = clashes(case, pkg)
    if case.get("stream") == "chan":
        # types that are assignable one way (chan int for <-chan int) are outside the property's domain: what is
        # fixed is the conflict clause where sharing is impossible — a name used with a type list and LATER with
        # a different one that cannot be passed for the first (4422487) must be rejected without flags
        if variant != "-":
            return None
        calls = [(c["name"], case["types"][c["type"]]["go"]) for f in sorted(case["files"], key=lambda f: f["name"]) for c in f["calls"]]
        for i in range(len(calls)):
            if any(calls[k][0] == calls[i][0] for k in range(i)):
                continue   # only the first call of a name is certain to have bound the name to its types
            for j in range(i + 1, len(calls)):
                (n1, t1), (n2, t2) = calls[i], calls[j]
                if n1 == n2 and t1 != t2 and not (t2 == "chan int"):
                    return "fail"
        return None
    if variant == "-":
        return "fail" if (conflict or duplicate) else "ok"
    if variant == "a":
        # -autoname: a failure always comes from a duplicate (78f76aa: not from a conflict, nor from a renamed
        # call that occurs again); a duplicate-only package must fail; duplicate + conflict: not determined
        if not duplicate:
            return "ok"
        if not conflict:
            return "fail"
        # both: -autoname must still not resolve a duplicate whose first name was registered as written: the FIRST call
        # with a type list binds it to its written name when no rename can have happened before (no conflict so far)
        return "fail" if unresolvable_duplicate(case, pkg) else None
    if variant == "d":
        if not conflict:
            return "ok"
        return "fail" if not duplicate else None
    return "ok"


def unqual(t):
    """type string without package qualifiers (the generated file chooses its own import aliases)"""
    import re
    t = re.sub(r"\b\w+\.", "", t)
    t = re.sub(r"\brune\b", "int32", re.sub(r"\bbyte\b", "uint8", t))   # aliases printed for untyped rune constants
    # struct tags: `json:"id"` in the source, "json:\"id\"" as printed from the AST; layout differs too
    return re.sub(r"\s+", "", t.replace('\\"', '"').replace("`", '"'))


def go_params(case, typs):
    for t in case["types"]:
        w = t["wire"].replace(" ", ",")
        for k in (1, 2):
            if typs == "[" + ",".join([w] * k) + "]":
                return [t["go"]] * k
    return None


def compare_case(case, variant, obs, model, check_types=True):
    """Returns (spec_problem, corr_problem): strings or None."""
    spec = None
    corr = None
    want = spec_verdict(case, variant) if case["stream"] in ("exhaustive", "exhaustive-arity", "exhaustive-repeat", "random", "imported", "pending", "chan", "twopkg", "tags", "iface", "untyped", "methods") else None
    if obs["class"] in ("timeout", "other", "panic"):
        spec = "goderive ended with %s (rc=%s): %s" % (obs["class"], obs["rc"], obs.get("stderr", "")[:300])
        return spec, corr
    got = "ok" if obs["class"] == "ok" else "fail"
    if want is not None and want != got:
        spec = "the property requires %s for flags %s (conflict, duplicate = %s), goderive: %s %s" % (
            want, variant, clashes(case), obs["class"], obs.get("stderr", "")[:200])
    if obs["class"] == "ok" and case.get("stream") == "chan":
        pass  # outside C11's domain (assignable types share a function whose result type mentions the type)
    elif obs["class"] == "ok":
        if obs.get("type_error"):
            spec = "run succeeded but the package does not type-check: " + obs["type_error"][:300]
        elif check_types and obs.get("calls_bad"):
            spec = "run succeeded but a call site does not invoke a function generated for exactly its argument types: " + "; ".join(obs["calls_bad"])[:300]
        elif obs.get("other_changed"):
            spec = "the file defining the reserved functions was modified"
        elif case.get("extra_fixed") and obs.get("extra_changed"):
            spec = "a hand-written file without derive calls was rewritten: %s" % ", ".join(obs["extra_changed"])
        else:
            seen = {}
            # (result type, parameter types) identifies (plugin, argument types) in the C11 streams only
            for f in (obs.get("funcs", []) if check_types and case["stream"] != "pending" else []):
                k = (f["result"], tuple(f["params"]))
                if k in seen:
                    spec = "two generated functions for the same plugin and argument types: %s and %s %s" % (seen[k], f["name"], k)
                seen[k] = f["name"]
            for f in obs.get("funcs", []):
                if f["name"] in (case.get("reserved") or []):
                    spec = "generated function takes a name the user calls elsewhere: " + f["name"]
    # correspondence with the model
    if model["class"] != obs["class"]:
        corr = "model predicts %s, goderive: %s %s" % (model["class"], obs["class"], obs.get("stderr", "")[:200])
        return spec, corr
    if model["class"] != "ok":
        pl = [p["name"] for p in case["plugins"] if esc(p["prefix"]) == model.get("prefix")]
        if obs.get("plugin") not in pl:
            corr = "model: error in plugin with prefix %s, goderive: %s" % (model.get("prefix"), obs.get("plugin"))
        return spec, corr
    onames = [[esc(n) for n in f] for f in obs.get("names", [])]
    mnames = [[n for n in f if n != "-"] for f in model["names"]]
    onames_cmp = onames
    if any("-" in f for f in model["names"]):
        # calls no plugin handles keep their identifier
        mnames = None
    if mnames is not None and mnames != onames_cmp:
        corr = "final call names differ: model %s, goderive %s" % (model["names"], onames)
    elif model["changed"] != obs.get("changed", []):
        corr = "rewritten files differ: model %s, goderive %s" % (model["changed"], obs.get("changed"))
    elif check_types:
        funcs = {f["name"]: f for f in obs.get("funcs", [])}
        for pfx, ents in model["tables"].items():
            for name, typs in ents:
                want_params = go_params(case, typs)
                f = None
                for fn in obs.get("funcs", []):
                    if esc(fn["name"]) == name:
                        f = fn
                if f is None:
                    corr = "model registers %s%s, goderive generated no function of that name" % (name, typs)
                elif want_params is not None and [unqual(x) for x in f["params"]] != [unqual(x) for x in want_params]:
                    corr = "model registers %s%s, goderive generated %s(%s)" % (name, typs, f["name"], ",".join(f["params"]))
    return spec, corr


def t2(rep, prop, handle):
    """Generates the cases of `prop`, runs the model and the real binary, hands every
    (case, variant, obs, model) to `handle`. Returns stats."""
    tmp = tempfile.mkdtemp(prefix="verif-t2-")
    try:
        gen = private_copy(common.tool_path("gennames"), tmp, "tools")
        binp = private_copy(common.build_goderive()[1], tmp)
        drv = private_copy(common.driver_path(), tmp, "lake")
        args = [gen, "-mode", "cases", "-prop", prop, "-out", tmp, "-seed", str(rep.seed)]
        if rep.tier == "thorough":
            args.append("-thorough")
        common.sh(args, check=True, timeout=900)
        run_lines(drv, os.path.join(tmp, "model_ops.txt"), os.path.join(tmp, "model.txt"))
        p = common.sh([gen, "-mode", "run", "-out", tmp, "-goderive", binp, "-jobs", str(min(16, os.cpu_count() or 4))], timeout=7200)
        if p.returncode != 0:
            raise common.CheckError("gennames -mode run failed: " + p.stderr[-2000:])
        cases = {}
        with open(os.path.join(tmp, "cases.jsonl")) as f:
            for l in f:
                c = json.loads(l)
                cases[c["id"]] = c
        n = 0
        with open(os.path.join(tmp, "obs.jsonl")) as fo, open(os.path.join(tmp, "model.txt")) as fm, \
                open(os.path.join(tmp, "model_ops.txt")) as fl:
            for lo, lm, ll in zip(fo, fm, fl):
                obs = json.loads(lo)
                mid, ans = lm.rstrip("\n").split(" ", 1)
                if mid != obs["id"] + "/" + obs["variant"]:
                    raise CheckErrorOutOfStep(mid, obs)
                handle(cases[obs["id"]], obs["variant"], obs, parse_model(ans), ll.rstrip("\n"))
                n += 1
        stats = json.load(open(os.path.join(tmp, "stats.json")))
        return n, stats, cases
    finally:
        shutil.rmtree(tmp, ignore_errors=True)


def CheckErrorOutOfStep(mid, obs):
    return common.CheckError("T2 out of step: model line %s vs observation %s/%s" % (mid, obs["id"], obs["variant"]))


def run_one(case, variant, keep=None):
    """Replays one (case, variant) on the real binary and the model. Returns (obs, model, model_line)."""
    gen = common.tool_path("gennames")
    _, binp = common.build_goderive()
    tmp = tempfile.mkdtemp(prefix="verif-one-")
    try:
        cf = os.path.join(tmp, "case.json")
        json.dump(case, open(cf, "w"))
        args = [gen, "-mode", "one", "-case", cf, "-variant", variant, "-goderive", binp]
        if keep:
            args += ["-keep", keep]
        p = common.sh(args, check=True, timeout=300)
        line, ob = p.stdout.strip().split("\n")[:2]
        pm = subprocess.run([common.driver_path()], input=line + "\n", stdout=subprocess.PIPE, text=True)
        return json.loads(ob), parse_model(pm.stdout.strip().split(" ", 1)[1]), line
    finally:
        shutil.rmtree(tmp, ignore_errors=True)


def sources_of(case):
    """the package as text, for replay files (re-materialised by gennames -mode one)"""
    return {"files": case["files"], "reserved": case.get("reserved"), "goderive_args": case.get("goderive_args")}


def known_finding(fid):
    try:
        kf = json.load(open(os.path.join(common.VERIF, "known_findings.json")))
    except (OSError, ValueError):
        return None
    for f in kf.get("findings", []):
        if f.get("id") == fid and f.get("status") == "known":
            return f
    return None
