"""C07, correspondence tie: the executable model `Goderive.Reload.regen` (lean/GoderiveModel/G/Reload.lean) is RUN on
the same scenario as the real goderive and the outcomes are compared.

Scenario (harness/cmd/genregen): a package whose derive calls form flows (a derive result is an argument of another
derive call, through local variables, package-level variables and nested calls, depth 1-4) plus independent calls;
an OLD version of the package under other type choices / with one more or one less chain, whose from-scratch output
(possibly with function declarations cut out) is the derived.gen.go the run starts from; and the abstract description
for the model: the calls in registration order with `known <type>` / `resultOf <callee>` arguments.

What the model is given, all MEASURED on the implementation, none of it from the run under comparison:
  calls   from the generator (names, plugins, texts numbered here; Go types numbered by their printed form);
  gen     the table plugin x argument types -> result type | rejected, filled by running the real goderive on
          ONE-CALL packages (`func probe(a0 T0, a1 T1) { deriveXP(a0, a1) }`) for every combination of argument
          types that can arise (closure over what the old file declares and what the rows produce; the driver
          re-checks that the table is closed and never defaults);
  old     the signatures of the old derived.gen.go (name -> result type), a function whose result type mentions a
          type the new sources no longer declare being undeclared for the loader's purposes (its result is invalid).

Compared per scenario (driver op `regen`, one line): the run on the new sources WITH the old file, the run on the new
sources from scratch, and (a third point for free) the old sources from scratch: exit status and message kind
(ok / Add Error / cannot generate), derived.gen.go removed or the set of generated user functions with their result
types.

Verdicts:
  * the implementation's result with the old file differs from its own from-scratch result and the model does not
    predict exactly these two outcomes (where the driver says `agree=1` the hypotheses of Props/C07 `regen_congr` /
    `regen_one_pass` hold: no stale flowing signature); or the functions are the same and the bytes differ
                                                 -> VIOLATION of C07 with the scenario as failing input;
  * they differ and the model predicted exactly both outcomes (it can only do so through a stale flowing signature:
    `regen_congr`)                               -> known finding F7 (predicted, not excused);
  * the implementation does not differ from scratch, but model and implementation disagree on one of the three runs
                                                 -> VIOLATION ... no-failing-input-found (correspondence G/Reload.regen).
"""
import json
import os
import re
import shutil
import tempfile
import threading
from concurrent.futures import ThreadPoolExecutor

from vlib import common

GOMOD = "module rg\n\ngo 1.24\n"
PLUGINS = ["Keys", "Sort", "Fmap", "Unique", "Filter", "TakeWhile", "Union", "Intersect", "Set", "Min", "Max", "Clone",
           "Equal", "Compare", "Hash", "Contains", "Any", "All"]
NAMED = ("Heat", "Temp")

# ---------------------------------------------------------------- derived.gen.go -> signatures


def split_top(s):
    """splits at the commas that are not inside brackets"""
    out, depth, cur = [], 0, ""
    for c in s:
        if c in "([{":
            depth += 1
        elif c in ")]}":
            depth -= 1
        if c == "," and depth == 0:
            out.append(cur.strip())
            cur = ""
        else:
            cur += c
    if cur.strip():
        out.append(cur.strip())
    return out


def param_types(params):
    """`this, that []int` -> ['[]int', '[]int'] (goderive names every parameter; a name without a type takes the next type)"""
    pieces = split_top(params)
    types = [None] * len(pieces)
    for i, piece in enumerate(pieces):
        if " " in piece:
            types[i] = piece.split(" ", 1)[1].strip()
    for i in range(len(pieces) - 1, -1, -1):
        if types[i] is None:
            types[i] = types[i + 1] if i + 1 < len(pieces) else "?"
    return types


def parse_sigs3(data):
    """[(name, result type as printed, [parameter types])] of the top-level functions of a derived.gen.go, in file order."""
    out = []
    for m in re.finditer(r"^func (\w+)\(", data, re.M):
        i, depth = m.end(), 1
        while i < len(data) and depth:
            c = data[i]
            depth += (c == "(") - (c == ")")
            i += 1
        eol = data.find("\n", i)
        rest = data[i:eol if eol >= 0 else len(data)].rstrip()
        if not rest.endswith("{"):
            continue            # not a complete signature line (the generator never cuts there)
        out.append((m.group(1), rest[:-1].strip(), param_types(data[m.end():i - 1])))
    return out


def parse_sigs(data):
    return [(n, r) for n, r, _ in parse_sigs3(data)]


def cut_functions(data, names):
    """Removes the declarations (with their doc comment) of the named top-level functions."""
    for n in names:
        m = re.search(r"(^//[^\n]*\n)*^func %s\(.*?^}\n\n?" % re.escape(n), data, re.M | re.S)
        if m:
            data = data[:m.start()] + data[m.end():]
    return data


def message_kind(rc, err):
    if rc == 0:
        return "ok"
    if "Add Error" in err:
        return "error:AddError"
    if "Generator Error" in err:
        return "error:GeneratorError"
    if "cannot generate" in err:
        return "error:cannotgenerate"
    return "error:other"


# ---------------------------------------------------------------- numbering


class Numbering:
    def __init__(self):
        self.types, self.lock = {}, threading.Lock()

    def ty(self, s):
        with self.lock:
            if s not in self.types:
                self.types[s] = len(self.types) + 1
            return self.types[s]


# ---------------------------------------------------------------- runs of the real goderive


def write_pkg(d, files, derived=None):
    shutil.rmtree(d, ignore_errors=True)
    os.makedirs(d)
    with open(os.path.join(d, "go.mod"), "w") as f:
        f.write(GOMOD)
    for name, src in files.items():
        with open(os.path.join(d, name), "w") as f:
            f.write(src)
    if derived is not None:
        with open(os.path.join(d, "derived.gen.go"), "w") as f:
            f.write(derived)


def run_real(binp, d):
    """-> (message kind, derived.gen.go text or None, stderr tail, crashed)"""
    rc, err, to = common.run_goderive(binp, d, ["."], timeout=120, mem_gb=4)
    p = os.path.join(d, "derived.gen.go")
    data = open(p).read() if os.path.exists(p) else None
    crashed = to or "panic:" in err or "goroutine " in err
    return message_kind(rc, err), data, err[-400:], crashed


class GenTable:
    """plugin x argument type strings -> result type string | None (rejected), measured on one-call packages."""

    def __init__(self, binp, root):
        self.binp, self.root, self.rows, self.helpers, self.odd = binp, root, {}, {}, {}
        self.n = 0
        self.lock = threading.Lock()

    def probe(self, key):
        plugin, ts = key
        with self.lock:
            self.n += 1
            d = os.path.join(self.root, "p%d" % self.n)
        name = "derive%sP" % plugin
        src = "package rg\n\ntype Heat float64\n\ntype Temp float64\n\nfunc probe(%s) {\n\t%s(%s)\n}\n" % (
            ", ".join("a%d %s" % (i, t) for i, t in enumerate(ts)), name, ", ".join("a%d" % i for i in range(len(ts))))
        write_pkg(d, {"a.go": src})
        kind, data, err, crashed = run_real(self.binp, d)
        shutil.rmtree(d, ignore_errors=True)
        res = None
        if kind == "ok" and data is not None:
            sigs = parse_sigs(data)
            got = [r for n, r in sigs if n == name]
            if len(got) == 1:
                res = ("ok", got[0], len(sigs) - 1)
        elif kind == "error:AddError":
            res = ("reject", None, 0)
        elif kind == "error:GeneratorError":
            res = ("genfail", None, 0)
        if res is None:
            res = ("odd", "%s: %s" % (kind, err[-200:]), 0)
        with self.lock:
            self.rows[key] = res

    def fill(self, keys, pool):
        todo = [k for k in set(keys) if k not in self.rows]
        list(pool.map(self.probe, todo))
        return len(todo)


# ---------------------------------------------------------------- one scenario


def valid_result(res, declared):
    """the loader can resolve the result type of an old signature against the new sources"""
    return not any(t in res and t not in declared for t in NAMED)


def prepare(sc, binp, root):
    """Runs the real goderive: old sources from scratch, new sources from scratch, new sources with the old file."""
    d = os.path.join(root, sc["id"])
    out = {"old_scratch": None, "old_file": None}
    if sc["old"] is not None:
        if sc["old"]["files"] == sc["new"]["files"]:
            out["old_same_sources"] = True
        write_pkg(d, sc["old"]["files"])
        out["old_scratch"] = run_real(binp, d)
        kind, data, _, _ = out["old_scratch"]
        if kind == "ok" and data is not None:
            out["old_file"] = cut_functions(data, sc["old_drop"]) if sc["old_drop"] else data
    write_pkg(d, sc["new"]["files"])
    out["scratch"] = run_real(binp, d)
    if out["old_file"] is not None:
        write_pkg(d, sc["new"]["files"], out["old_file"])
        out["incr"] = run_real(binp, d)
    else:
        out["incr"] = out["scratch"]
    shutil.rmtree(d, ignore_errors=True)
    return out


def closure_keys(calls, old_sigs, table):
    """The (plugin, argument types) that can arise, given the rows known so far; returns (all of them, those without a row)."""
    poss = {}
    for n, r in old_sigs:
        poss.setdefault(n, set()).add(r)
    missing, used = set(), set()
    for _ in range(len(calls) + 2):
        for c in calls:
            argss = [[a["k"]] if a.get("k") else sorted(poss.get(a["r"], ())) for a in c["args"]]
            combos = [[]]
            for xs in argss:
                combos = [p + [x] for p in combos for x in xs]
            for ts in combos:
                key = (c["plugin"], tuple(ts))
                used.add(key)
                row = table.rows.get(key)
                if row is None:
                    missing.add(key)
                elif row[0] == "ok":
                    poss.setdefault(c["name"], set()).add(row[1])
    return used, missing


def encode(calls, old_sigs, table, num, names, texts):
    """The op arguments `(<call>…) (<row>…) (<old>…)`, and whether a row is unusable (neither ok nor Add Error)."""
    def nm(n):
        return names.setdefault(n, len(names))

    cs = []
    for c in calls:
        args = " ".join("(k %d)" % num.ty(a["k"]) if a.get("k") else "(r %d)" % nm(a["r"]) for a in c["args"])
        cs.append("(%d %d %d (%s))" % (nm(c["name"]), PLUGINS.index(c["plugin"]), texts.setdefault(c["text"], len(texts)), args))
    rows, odd = [], []
    for (p, ts) in sorted(closure_keys(calls, old_sigs, table)[0]):
        row = table.rows[(p, ts)]
        if row[0] == "odd":
            odd.append((p, ts, row[1]))
            continue
        rows.append("(%d (%s) %s)" % (PLUGINS.index(p), " ".join(str(num.ty(t)) for t in ts),
                                      num.ty(row[1]) if row[0] == "ok" else {"reject": "x", "genfail": "g"}[row[0]]))
    old = " ".join("(%d %d)" % (nm(n), num.ty(r)) for n, r in old_sigs)
    return "(%s) (%s) (%s)" % (" ".join(cs), " ".join(rows), old), odd


def impl_outcome(run, universe, names, num):
    kind, data, _, _ = run
    if kind != "ok":
        return kind
    if data is None:
        return "ok:none"
    fs = sorted((names[n], ".".join(str(num.ty(t)) for t in ps), num.ty(r)) for n, r, ps in parse_sigs3(data) if n in universe)
    return "ok:" + ",".join("%d:%s:%d" % f for f in fs)


def cls(o):
    return o if not o.startswith("ok:") else ("removed" if o == "ok:none" else "ok")


# ---------------------------------------------------------------- the tie


def run(rep, n=None):
    tier, seed = rep.tier, rep.seed
    n = n or int(os.environ.get("VERIF_REGEN_N", "0")) or (240 if tier == "quick" else 4000)
    gen = common.tool_path("genregen")
    _, binp = common.build_goderive()
    known = {f["id"]: f for f in json.load(open(os.path.join(common.VERIF, "known_findings.json")))["findings"]}
    root = tempfile.mkdtemp(prefix="verif-regen-")
    stats = {"scenarios": 0, "by_old_kind": {}, "by_effective_old": {}, "by_depth": {}, "features": {},
             "outcomes_with_old": {}, "outcomes_scratch": {}, "outcomes_old_sources": {}, "model_runs_compared": 0,
             "model_predicts_difference_from_scratch": 0, "impl_differs_from_scratch": 0, "differences": {}, "agree_1": 0,
             "bytes_compared_with_scratch": 0, "probe_rows": 0, "probe_rows_with_helpers": 0, "skipped_odd_rows": 0,
             "goderive_runs": 0}
    try:
        p = common.sh([gen, "-out", root, "-seed", str(seed), "-n", str(n)], timeout=600)
        if p.returncode != 0:
            raise common.CheckError("genregen failed: " + p.stderr[-2000:])
        scs = json.load(open(os.path.join(root, "scenarios.json")))
        num = Numbering()
        table = GenTable(binp, root)
        with ThreadPoolExecutor(max_workers=12) as pool:
            runs = list(pool.map(lambda sc: prepare(sc, binp, root), scs))
            # the table of the plugins, closed under what can flow
            jobs = []          # (scenario index, which, calls, old signatures)
            for i, (sc, r) in enumerate(zip(scs, runs)):
                olds = []
                if r["old_file"] is not None:
                    olds = [(nm, res) for nm, res in parse_sigs(r["old_file"]) if valid_result(res, sc["new"]["declared"])]
                jobs.append((i, "new", sc["new"]["calls"], olds))
                if sc["old"] is not None and not r.get("old_same_sources"):
                    jobs.append((i, "oldsrc", sc["old"]["calls"], []))
            for _ in range(12):
                missing = set()
                for _, _, calls, olds in jobs:
                    missing |= closure_keys(calls, olds, table)[1]
                if not missing:
                    break
                table.fill(missing, pool)
            else:
                raise common.CheckError("regen tie: the plugin table does not close")
        stats["goderive_runs"] = sum(1 + (1 if r["old_scratch"] else 0) + (1 if r["old_file"] is not None else 0) for r in runs) + table.n
        stats["probe_rows"] = len(table.rows)
        stats["probe_rows_with_helpers"] = sum(1 for v in table.rows.values() if v[0] == "ok" and v[2] > 0)
        # one op line per (scenario, new | old sources)
        lines, meta = [], []
        for i, which, calls, olds in jobs:
            names, texts = {}, {}
            for nm in sorted({c["name"] for c in calls} | {a["r"] for c in calls for a in c["args"] if a.get("r")} | {nm for nm, _ in olds}):
                names[nm] = len(names)
            for t in sorted({c["text"] for c in calls}):
                texts[t] = len(texts)
            enc, odd = encode(calls, olds, table, num, names, texts)
            if odd:
                stats["skipped_odd_rows"] += 1
                rep.notes.append("regen tie: scenario %s skipped, a plugin neither accepted nor refused with an Add Error: %s" % (scs[i]["id"], odd[0]))
                continue
            lines.append("op %d regen %s" % (len(lines) + 1, enc))
            meta.append((i, which, names, {c["name"] for c in calls}))
        drv = common.sh([common.driver_path()], input="\n".join(lines) + "\n", timeout=3600, env=dict(os.environ))
        answers = drv.stdout.splitlines()
        if drv.returncode != 0 or len(answers) != len(lines):
            raise common.CheckError("model driver failed on the regen ops (rc %s, %d answers for %d ops): %s" % (
                drv.returncode, len(answers), len(lines), drv.stderr[-500:]))
        f7 = 0
        f7_example = None
        for k, ((i, which, names, universe), ans) in enumerate(zip(meta, answers), 1):
            sc, r = scs[i], runs[i]
            m = re.match(r"^%d model=(\S+) scratch=(\S+) agree=([01])$" % k, ans)
            if not m:
                raise common.CheckError("model driver rejected regen op %d (%s %s): %s" % (k, sc["id"], which, ans[:300]))
            m_old, m_scr, agree = m.group(1), m.group(2), m.group(3) == "1"
            replay = {"scenario": sc, "which": which, "op": lines[k - 1], "model": ans, "tie": "regen"}
            if which == "oldsrc":
                # third point: the old sources from scratch
                i_scr = impl_outcome(r["old_scratch"], universe, names, num)
                stats["model_runs_compared"] += 1
                stats["outcomes_old_sources"][cls(i_scr)] = stats["outcomes_old_sources"].get(cls(i_scr), 0) + 1
                if r["old_scratch"][3]:
                    rep.violation("goderive crashed or hung on the old sources of regen scenario %s" % sc["id"], replay, True)
                elif i_scr != m_scr:
                    rep.violation("correspondence G/Reload.regen: scenario %s, old sources from scratch: goderive %s, model %s" % (
                        sc["id"], i_scr, m_scr), dict(replay, impl=i_scr, stderr=r["old_scratch"][2]), False)
                continue
            i_old = impl_outcome(r["incr"], universe, names, num)
            i_scr = impl_outcome(r["scratch"], universe, names, num)
            eff = sc["old_kind"] if r["old_file"] is not None else ("absent" if sc["old"] is None else "old-sources-rejected")
            stats["scenarios"] += 1
            stats["model_runs_compared"] += 2
            for key, val in (("by_old_kind", sc["old_kind"]), ("by_effective_old", eff), ("by_depth", str(sc["depth"]))):
                stats[key][val] = stats[key].get(val, 0) + 1
            for ft in sc["features"]:
                stats["features"][ft] = stats["features"].get(ft, 0) + 1
            stats["outcomes_with_old"][cls(i_old)] = stats["outcomes_with_old"].get(cls(i_old), 0) + 1
            stats["outcomes_scratch"][cls(i_scr)] = stats["outcomes_scratch"].get(cls(i_scr), 0) + 1
            if m_old != m_scr:
                stats["model_predicts_difference_from_scratch"] += 1
            if agree:
                stats["agree_1"] += 1
            if len(rep.cov["samples"]) < 8 and (m_old != m_scr or k % 40 == 1):
                rep.cov["samples"].append({"regen_scenario": sc["id"], "old": eff, "depth": sc["depth"], "with_old": i_old,
                                           "scratch": i_scr, "model_with_old": m_old, "model_scratch": m_scr, "agree": agree})
            if r["incr"][3] or r["scratch"][3]:
                rep.violation("goderive crashed or hung on regen scenario %s" % sc["id"], replay, True)
                continue
            differs = i_old != i_scr
            same_bytes = True
            if not differs and r["old_file"] is not None and r["incr"][0] == "ok":
                # same signatures: then the same bytes (function order, helper functions, helper names)
                stats["bytes_compared_with_scratch"] += 1
                same_bytes = r["incr"][1] == r["scratch"][1]
            if differs:
                stats["impl_differs_from_scratch"] += 1
                dk = "with old %s / from scratch %s" % (cls(i_old), cls(i_scr))
                stats["differences"][dk] = stats["differences"].get(dk, 0) + 1
            predicted = i_old == m_old and i_scr == m_scr
            if (differs and not predicted) or not same_bytes:
                # the property is violated on this input (the run with the old file does not leave what the run from
                # scratch leaves) and it is not the known stale-signature behaviour, which the model reproduces exactly
                why = ("no stale signature flows into another derive call (model: agree=1)" if agree else
                       "the model predicts the same functions with and without the old file" if not differs else
                       "the model, which reproduces the stale-signature behaviour F7, predicts with old %s / from scratch %s" % (m_old, m_scr))
                rep.violation("regen scenario %s (old file: %s, depth %d): the run with the old derived.gen.go gives %s and the run from scratch %s%s; %s" % (
                                  sc["id"], eff, sc["depth"], i_old, i_scr, "" if differs else " (same signatures, other bytes)", why),
                              dict(replay, impl_with_old=i_old, impl_scratch=i_scr, old_file=r["old_file"], stderr=r["incr"][2]), True)
                if len(rep.violations) > 8:
                    break
                continue
            if not predicted:
                what = []
                if i_old != m_old:
                    what.append("with the old file (%s): goderive %s, model %s" % (eff, i_old, m_old))
                if i_scr != m_scr:
                    what.append("from scratch: goderive %s, model %s" % (i_scr, m_scr))
                rep.violation("correspondence G/Reload.regen: scenario %s: %s" % (sc["id"], "; ".join(what)),
                              dict(replay, impl_with_old=i_old, impl_scratch=i_scr, old_file=r["old_file"],
                                   stderr=r["incr"][2], stderr_scratch=r["scratch"][2]), False)
                if len(rep.violations) > 8:
                    break
                continue
            if differs:
                # a stale signature flows and the model predicted exactly what the implementation did
                f = known.get("F7")
                if f and f["status"] == "known":
                    f7 += 1
                    f7_example = f7_example or "%s (old file: %s): with old %s, from scratch %s" % (sc["id"], eff, i_old, i_scr)
                else:
                    rep.violation("regen scenario %s: a stale signature of a derive call whose result feeds another derive call: "
                                  "with the old file %s, from scratch %s (as the model predicts)" % (sc["id"], i_old, i_scr),
                                  dict(replay, impl_with_old=i_old, impl_scratch=i_scr, old_file=r["old_file"]), True)
        if f7:
            rep.known.append("F7: %d regen scenarios with a stale flowing signature differ from from-scratch exactly as G/Reload.regen predicts, e.g. %s" % (f7, f7_example))
        stats["known_F7_predicted"] = f7
        stats["generator"] = json.load(open(os.path.join(root, "stats.json")))
        rep.cov["regen_tie"] = stats
        rep.cov["evaluations"] += stats["model_runs_compared"]
        rep.cov["distinct_nontrivial"] += stats["model_predicts_difference_from_scratch"]
        rep.cov["programs"] += stats["scenarios"]
        rep.cov["disagreements_checked"] += stats["model_runs_compared"]
        rep.cov["traces_validated_against_impl"] += stats["model_runs_compared"]
    finally:
        shutil.rmtree(root, ignore_errors=True)
    return stats
