"""C07, correspondence tie: the executable model `Goderive.Reload.regen` (lean/GoderiveModel/G/Reload.lean) is RUN on
the same scenario as the real goderive and the outcomes are compared.

Scenario (harness/cmd/genregen): a package whose derive calls form flows (a derive result is an argument of another
derive call, through local variables, package-level variables and nested calls, depth 1-4) plus independent calls;
an OLD version of the package under other type choices / with one more or one less chain, whose from-scratch output
(possibly with function declarations cut out) is the derived.gen.go the run starts from; and the abstract description
for the model: the calls in registration order with `known <type>` / `resultOf <callee>` arguments.

What the model is given, all MEASURED on the implementation, none of it from the run under comparison:
  calls   from the generator (names, plugins, texts numbered here; Go types numbered by their printed form);
  gen     the table plugin x argument types -> result type | rejected, filled by running the real goderive on
          ONE-CALL packages (`func probe(a0 T0, a1 T1) { deriveXP(a0, a1) }`) for every combination of argument
          types that can arise (closure over what the old file declares and what the rows produce; the driver
          re-checks that the table is closed and never defaults);
  old     the signatures of the old derived.gen.go (name -> result type), a function whose result type mentions a
          type the new sources no longer declare being undeclared for the loader's purposes (its result is invalid).

Compared per scenario (driver op `regen`, one line): the run on the new sources WITH the old file, the run on the new
sources from scratch, and (a third point for free) the old sources from scratch: exit status and message kind
(ok / Add Error / cannot generate), derived.gen.go removed or the set of generated user functions with their result
types.

Second family (multi.json): ONE invocation over 2-5 packages — 2-3 packages with derive calls in an import chain, each
starting from the exported result of the previous one, directly or through a package without derive calls that is not
named on the command line; names drawn so that the path order often contradicts the import order; every derived.gen.go
absent. The generation order is the answer of op `genorder` (model G/Order), the packages are run by op `regenall`
(`Reload.invocation`: a package's first pass sees the other packages' files as loaded at the start, later passes as
they are on disk). goderive is run twice in a row; both invocations are compared with the model (exit kind, every
package's functions; an unnamed package gets no file), the second run must leave the bytes of the first, and the result
of the first must type-check (`go vet ./...`).

About 45 % of these invocations are HISTORIES (m["v1"]): in version 1 the first package declares `Out` with an explicit
type of another element type and has no derive calls; version 1 is generated (run 0), the package is edited, and the
compared runs start from the files of run 0 — often with every call of an importing package waiting in its first pass,
so that this pass must remove the stale file before the reload. Such a run is also compared byte for byte with a run
from scratch in a fresh module (allowed to differ only where the model predicts exactly both outcomes: F7).

Third family (moved.json; half of them with ./lib keeping a source file without derive calls): a module of two packages (. and ./lib), each with a chain; v1 is generated with `goderive
./...`; in v2 lib's declarations and calls have moved into the root package and lib's only source file is deleted, its
derived.gen.go stays behind; `goderive ./...` again. The model says `regen [] old = removed` for ./lib
(`regen_removes_when_empty`) and what the root package leaves (op `regen` with the v1 file as the old one); checked on the
implementation: lib/derived.gen.go is gone, the root's file is the from-scratch one, `go build ./...` passes, a further
run changes nothing.

Verdicts:
  * the implementation's result with the old file differs from its own from-scratch result and the model does not
    predict exactly these two outcomes (where the driver says `agree=1` the hypotheses of Props/C07 `regen_congr` /
    `regen_one_pass` hold: no stale flowing signature); or the functions are the same and the bytes differ
                                                 -> VIOLATION of C07 with the scenario as failing input;
  * they differ and the model predicted exactly both outcomes (it can only do so through a stale flowing signature:
    `regen_congr`)                               -> known finding F7 (predicted, not excused);
  * the implementation does not differ from scratch, but model and implementation disagree on one of the three runs:
    if it is a successful run from scratch, goderive is run again over its own output and the package is type-checked —
    a second run that changes the file, or a package that does not type-check, is a VIOLATION of C07 with the
    sources as failing input (one run suffices, the result type-checks); otherwise
                                                 -> VIOLATION ... no-failing-input-found (correspondence G/Reload.regen).
"""
import json
import os
import re
import shutil
import tempfile
import threading
from concurrent.futures import ThreadPoolExecutor

from vlib import common

GOMOD = "module rg\n\ngo 1.24\n"
PLUGINS = ["Keys", "Sort", "Fmap", "Unique", "Filter", "TakeWhile", "Union", "Intersect", "Set", "Min", "Max", "Clone",
           "Equal", "Compare", "Hash", "Contains", "Any", "All"]
NAMED = ("Heat", "Temp")

# ---------------------------------------------------------------- derived.gen.go -> signatures


def split_top(s):
    """splits at the commas that are not inside brackets"""
    out, depth, cur = [], 0, ""
    for c in s:
        if c in "([{":
            depth += 1
        elif c in ")]}":
            depth -= 1
        if c == "," and depth == 0:
            out.append(cur.strip())
            cur = ""
        else:
            cur += c
    if cur.strip():
        out.append(cur.strip())
    return out


def param_types(params):
    """`this, that []int` -> ['[]int', '[]int'] (goderive names every parameter; a name without a type takes the next type)"""
    pieces = split_top(params)
    types = [None] * len(pieces)
    for i, piece in enumerate(pieces):
        if " " in piece:
            types[i] = piece.split(" ", 1)[1].strip()
    for i in range(len(pieces) - 1, -1, -1):
        if types[i] is None:
            types[i] = types[i + 1] if i + 1 < len(pieces) else "?"
    return types


def parse_sigs3(data):
    """[(name, result type as printed, [parameter types])] of the top-level functions of a derived.gen.go, in file order."""
    out = []
    for m in re.finditer(r"^func (\w+)\(", data, re.M):
        i, depth = m.end(), 1
        while i < len(data) and depth:
            c = data[i]
            depth += (c == "(") - (c == ")")
            i += 1
        eol = data.find("\n", i)
        rest = data[i:eol if eol >= 0 else len(data)].rstrip()
        if not rest.endswith("{"):
            continue            # not a complete signature line (the generator never cuts there)
        out.append((m.group(1), rest[:-1].strip(), param_types(data[m.end():i - 1])))
    return out


def parse_sigs(data):
    return [(n, r) for n, r, _ in parse_sigs3(data)]


def cut_functions(data, names):
    """Removes the declarations (with their doc comment) of the named top-level functions."""
    for n in names:
        m = re.search(r"(^//[^\n]*\n)*^func %s\(.*?^}\n\n?" % re.escape(n), data, re.M | re.S)
        if m:
            data = data[:m.start()] + data[m.end():]
    return data


def message_kind(rc, err):
    if rc == 0:
        return "ok"
    if "Add Error" in err:
        return "error:AddError"
    if "Generator Error" in err:
        return "error:GeneratorError"
    if "cannot generate" in err:
        return "error:cannotgenerate"
    return "error:other"


# ---------------------------------------------------------------- numbering


class Numbering:
    def __init__(self):
        self.types, self.lock = {}, threading.Lock()

    def ty(self, s):
        with self.lock:
            if s not in self.types:
                self.types[s] = len(self.types) + 1
            return self.types[s]


# ---------------------------------------------------------------- runs of the real goderive


def write_pkg(d, files, derived=None):
    shutil.rmtree(d, ignore_errors=True)
    os.makedirs(d)
    with open(os.path.join(d, "go.mod"), "w") as f:
        f.write(GOMOD)
    for name, src in files.items():
        with open(os.path.join(d, name), "w") as f:
            f.write(src)
    if derived is not None:
        with open(os.path.join(d, "derived.gen.go"), "w") as f:
            f.write(derived)


def run_real(binp, d):
    """-> (message kind, derived.gen.go text or None, stderr tail, crashed)"""
    rc, err, to = common.run_goderive(binp, d, ["."], timeout=120, mem_gb=4)
    p = os.path.join(d, "derived.gen.go")
    data = open(p).read() if os.path.exists(p) else None
    crashed = to or "panic:" in err or "goroutine " in err
    return message_kind(rc, err), data, err[-400:], crashed


class GenTable:
    """plugin x argument type strings -> result type string | None (rejected), measured on one-call packages."""

    def __init__(self, binp, root):
        self.binp, self.root, self.rows, self.helpers, self.odd = binp, root, {}, {}, {}
        self.n = 0
        self.lock = threading.Lock()

    def probe(self, key):
        plugin, ts = key
        with self.lock:
            self.n += 1
            d = os.path.join(self.root, "p%d" % self.n)
        name = "derive%sP" % plugin
        src = "package rg\n\ntype Heat float64\n\ntype Temp float64\n\nfunc probe(%s) {\n\t%s(%s)\n}\n" % (
            ", ".join("a%d %s" % (i, t) for i, t in enumerate(ts)), name, ", ".join("a%d" % i for i in range(len(ts))))
        write_pkg(d, {"a.go": src})
        kind, data, err, crashed = run_real(self.binp, d)
        shutil.rmtree(d, ignore_errors=True)
        res = None
        if kind == "ok" and data is not None:
            sigs = parse_sigs(data)
            got = [r for n, r in sigs if n == name]
            if len(got) == 1:
                res = ("ok", got[0], len(sigs) - 1)
        elif kind == "error:AddError":
            res = ("reject", None, 0)
        elif kind == "error:GeneratorError":
            res = ("genfail", None, 0)
        if res is None:
            res = ("odd", "%s: %s" % (kind, err[-200:]), 0)
        with self.lock:
            self.rows[key] = res

    def fill(self, keys, pool):
        todo = [k for k in set(keys) if k not in self.rows]
        list(pool.map(self.probe, todo))
        return len(todo)


# ---------------------------------------------------------------- one scenario


def valid_result(res, declared):
    """the loader can resolve the result type of an old signature against the new sources"""
    return not any(t in res and t not in declared for t in NAMED)


def prepare(sc, binp, root):
    """Runs the real goderive: old sources from scratch, new sources from scratch, new sources with the old file."""
    d = os.path.join(root, sc["id"])
    out = {"old_scratch": None, "old_file": None}
    if sc["old"] is not None:
        if sc["old"]["files"] == sc["new"]["files"]:
            out["old_same_sources"] = True
        write_pkg(d, sc["old"]["files"])
        out["old_scratch"] = run_real(binp, d)
        kind, data, _, _ = out["old_scratch"]
        if kind == "ok" and data is not None:
            out["old_file"] = cut_functions(data, sc["old_drop"]) if sc["old_drop"] else data
    write_pkg(d, sc["new"]["files"])
    out["scratch"] = run_real(binp, d)
    if out["old_file"] is not None:
        write_pkg(d, sc["new"]["files"], out["old_file"])
        out["incr"] = run_real(binp, d)
    else:
        out["incr"] = out["scratch"]
    shutil.rmtree(d, ignore_errors=True)
    return out


def attribute(binp, root, files, first):
    """A from-scratch run whose result the model does not predict: is the property itself visibly violated?
    Runs goderive again over its own output (C07: that must change nothing) and type-checks the package (C07: the
    result of one run type-checks). Returns a description of the violated clause, or None."""
    kind, data, _, _ = first
    if data is None:
        return None
    d = os.path.join(root, "attr")
    try:
        write_pkg(d, files, data)
        k2, data2, err2, _ = run_real(binp, d)
        if kind != "ok":
            # the failed run left a file behind (written by an earlier pass): does the outcome depend on it?
            if k2 == "ok":
                return ("the run from scratch fails (%s), the next run over the derived.gen.go that the failed run left behind succeeds: "
                        "the outcome depends on the old file" % kind)
            return None
        if k2 != "ok" or data2 != data:
            return "a second run over the output of the run from scratch %s: one run did not suffice, the output from scratch is not what regeneration leaves" % (
                "changes derived.gen.go" if k2 == "ok" else "fails (%s)" % k2)
        write_pkg(d, files, data)
        p = common.sh(["go", "vet", "."], cwd=d, timeout=300)
        if p.returncode != 0:
            return "the package left by the successful run from scratch does not type-check: %s" % p.stderr.strip().splitlines()[-1][:200]
        return None
    finally:
        shutil.rmtree(d, ignore_errors=True)


def closure_keys(calls, old_sigs, table):
    """The (plugin, argument types) that can arise, given the rows known so far; returns (all of them, those without a row)."""
    poss = {}
    for n, r in old_sigs:
        poss.setdefault(n, set()).add(r)
    missing, used = set(), set()
    for _ in range(len(calls) + 2):
        for c in calls:
            argss = [[a["k"]] if a.get("k") else sorted(poss.get(a["r"], ())) for a in c["args"]]
            combos = [[]]
            for xs in argss:
                combos = [p + [x] for p in combos for x in xs]
            for ts in combos:
                key = (c["plugin"], tuple(ts))
                used.add(key)
                row = table.rows.get(key)
                if row is None:
                    missing.add(key)
                elif row[0] == "ok":
                    poss.setdefault(c["name"], set()).add(row[1])
    return used, missing


def encode(calls, old_sigs, table, num, names, texts, parts=False):
    """The op arguments `(<call>…) (<row>…) (<old>…)`, and whether a row is unusable (neither ok nor Add Error)."""
    def nm(n):
        return names.setdefault(n, len(names))

    cs = []
    for c in calls:
        args = " ".join("(k %d)" % num.ty(a["k"]) if a.get("k") else "(r %d)" % nm(a["r"]) for a in c["args"])
        cs.append("(%d %d %d (%s))" % (nm(c["name"]), PLUGINS.index(c["plugin"]), texts.setdefault(c["text"], len(texts)), args))
    rows, odd = [], []
    for (p, ts) in sorted(closure_keys(calls, old_sigs, table)[0]):
        row = table.rows[(p, ts)]
        if row[0] == "odd":
            odd.append((p, ts, row[1]))
            continue
        rows.append("(%d (%s) %s)" % (PLUGINS.index(p), " ".join(str(num.ty(t)) for t in ts),
                                      num.ty(row[1]) if row[0] == "ok" else {"reject": "x", "genfail": "g"}[row[0]]))
    old = " ".join("(%d %d)" % (nm(n), num.ty(r)) for n, r in old_sigs)
    if parts:
        return "(%s)" % " ".join(cs), "(%s)" % " ".join(rows), "(%s)" % old, odd
    return "(%s) (%s) (%s)" % (" ".join(cs), " ".join(rows), old), odd


def impl_outcome(run, universe, names, num):
    kind, data, _, _ = run
    if kind != "ok":
        return kind
    if data is None:
        return "ok:none"
    fs = sorted((names[n], ".".join(str(num.ty(t)) for t in ps), num.ty(r)) for n, r, ps in parse_sigs3(data) if n in universe)
    return "ok:" + ",".join("%d:%s:%d" % f for f in fs)


def cls(o):
    return o if not o.startswith("ok:") else ("removed" if o == "ok:none" else "ok")


# ---------------------------------------------------------------- several packages in one invocation


def write_module(d, m, derived=None):
    shutil.rmtree(d, ignore_errors=True)
    os.makedirs(d)
    with open(os.path.join(d, "go.mod"), "w") as f:
        f.write(GOMOD)
    for p in m["packages"]:
        os.makedirs(os.path.join(d, p["name"]))
        for name, src in p["files"].items():
            with open(os.path.join(d, p["name"], name), "w") as f:
                f.write(src)
        if derived and derived.get(p["name"]) is not None:
            with open(os.path.join(d, p["name"], "derived.gen.go"), "w") as f:
                f.write(derived[p["name"]])


def run_module(binp, d, m):
    """-> (message kind, {package: derived.gen.go text or None}, stderr tail, crashed)"""
    rc, err, to = common.run_goderive(binp, d, m["args"], timeout=180, mem_gb=4)
    files = {}
    for p in m["packages"]:
        fp = os.path.join(d, p["name"], "derived.gen.go")
        files[p["name"]] = open(fp).read() if os.path.exists(fp) else None
    return message_kind(rc, err), files, err[-400:], to or "panic:" in err or "goroutine " in err


def prepare_multi(m, binp, root):
    """every derived.gen.go absent -> run 1; run 2 over what run 1 left.
    A history (m["v1"]): version 1 (the first package declares Out with an explicit type, no derive calls) is generated
    first (run 0); the first package's files are then replaced: run 1 starts from the files of run 0; the same version
    is also generated from scratch in a fresh module."""
    d = os.path.join(root, m["id"])
    r0 = rs = None
    if m.get("v1"):
        write_module(d, m)
        rs = run_module(binp, d, m)
        m1 = dict(m, packages=[dict(p, files=m["v1"][p["name"]]) if p["name"] in m["v1"] else p for p in m["packages"]])
        write_module(d, m1)
        r0 = run_module(binp, d, m1)
        for p in m["packages"]:
            if p["name"] in m["v1"]:
                for name in m["v1"][p["name"]]:
                    os.remove(os.path.join(d, p["name"], name))
                for name, src in p["files"].items():
                    open(os.path.join(d, p["name"], name), "w").write(src)
    else:
        write_module(d, m)
    r1 = run_module(binp, d, m)
    r2 = run_module(binp, d, m)
    vet = None
    if r1[0] == "ok":
        write_module(d, m, r1[1])
        p = common.sh(["go", "vet", "./..."], cwd=d, timeout=600)
        vet = (p.returncode == 0, (p.stderr.strip().splitlines() or [""])[-1][:200])
    shutil.rmtree(d, ignore_errors=True)
    return r1, r2, vet, r0, rs


def order_line(m):
    """the op `genorder` of G/Order for the invocation: the named packages under their relative paths, every imported
    package under its import path (the twin of a named one shares its directory)"""
    nodes = []
    imported = set()
    for p in m["packages"]:
        imported |= set(p["imports"])
    for p in m["packages"]:
        if p["named"]:
            nodes.append("(./%s /w/%s 1 (%s))" % (p["name"], p["name"], " ".join("rg/" + i for i in p["imports"])))
    for p in m["packages"]:
        if p["name"] in imported:
            nodes.append("(rg/%s /w/%s 0 (%s))" % (p["name"], p["name"], " ".join("rg/" + i for i in p["imports"])))
    # in listing order of the command line
    named = {"./" + p["name"]: n for p, n in zip([p for p in m["packages"] if p["named"]], nodes)}
    listed = [named[a] for a in m["args"]] + nodes[len(named):]
    return "genorder " + " ".join(listed)


def qualified_sigs(pkg, data):
    return [(pkg + "." + n, r, ps) for n, r, ps in parse_sigs3(data or "")]


def run_multi(rep, scs, binp, root, table, num, pool, drvbin, stats, known_f7=True):
    """The multi-package family: order by G/Order (op genorder), every package by G/Reload (op regenall), against two
    consecutive runs of the real goderive starting with every derived.gen.go absent."""
    runs = list(pool.map(lambda m: prepare_multi(m, binp, root), scs))
    # closure of the plugin table over all packages of a scenario, with the files of run 1 as the old files of run 2
    jobs = []
    for m, (r1, r2, vet, r0, rs) in zip(scs, runs):
        calls = [c for p in m["packages"] for c in p["calls"]]
        olds = [(n, r) for p in m["packages"] for n, r, _ in qualified_sigs(p["name"], r1[1][p["name"]])]
        if r0 is not None:
            olds += [(n, r) for p in m["packages"] for n, r, _ in qualified_sigs(p["name"], r0[1][p["name"]])]
            olds = sorted(set(olds))
        jobs.append((calls, olds))
    for _ in range(12):
        missing = set()
        for calls, olds in jobs:
            missing |= closure_keys(calls, olds, table)[1]
        if not missing:
            break
        table.fill(missing, pool)
    else:
        raise common.CheckError("regen tie: the plugin table does not close (multi)")
    # generation order from the order model
    olines = ["op %d %s" % (i + 1, order_line(m)) for i, m in enumerate(scs)]
    drv = common.sh([drvbin], input="\n".join(olines) + "\n", timeout=3600, env=dict(os.environ))
    oans = drv.stdout.splitlines()
    if drv.returncode != 0 or len(oans) != len(olines):
        raise common.CheckError("model driver failed on the genorder ops of the regen tie: %s" % drv.stderr[-500:])
    lines, meta = [], []
    for i, (m, (r1, r2, vet, r0, rs), (calls, olds), oa) in enumerate(zip(scs, runs, jobs, oans)):
        mo = re.match(r"^%d model=(.*)$" % (i + 1), oa)
        if not mo:
            raise common.CheckError("model driver rejected genorder op of regen scenario %s: %s" % (m["id"], oa[:200]))
        order = [x[2:] for x in mo.group(1).split(",") if x]
        pk = {p["name"]: p for p in m["packages"]}
        pid = {p["name"]: j for j, p in enumerate(m["packages"])}
        names, texts = {}, {}
        for nm in sorted({c["name"] for c in calls} | {a["r"] for c in calls for a in c["args"] if a.get("r")} | {n for n, _ in olds}):
            names[nm] = len(names)
        for t in sorted({c["text"] for c in calls}):
            texts[t] = len(texts)
        for which, start in ((("scratch", {}),) if r0 is not None else ()) + (("run1", r0[1] if r0 is not None else {}), ("run2", r1[1])):
            parts, odd = [], []
            for pn in order:
                po = [(n, r) for n, r, _ in qualified_sigs(pn, start.get(pn))]
                calls_part, _, old_part, _ = encode(pk[pn]["calls"], po, table, num, names, texts, parts=True)
                parts.append("(%d %s %s)" % (pid[pn], calls_part, old_part))
            _, rows_part, _, odd = encode(calls, olds, table, num, names, texts, parts=True)
            if odd:
                stats["skipped_odd_rows"] += 1
                continue
            lines.append("op %d regenall (%s) %s" % (len(lines) + 1, " ".join(parts), rows_part))
            meta.append((i, which, order, names, pid))
    drv = common.sh([drvbin], input="\n".join(lines) + "\n", timeout=3600, env=dict(os.environ))
    answers = drv.stdout.splitlines()
    if drv.returncode != 0 or len(answers) != len(lines):
        raise common.CheckError("model driver failed on the regenall ops (rc %s, %d answers for %d ops): %s" % (
            drv.returncode, len(answers), len(lines), drv.stderr[-500:]))
    ms = stats["multi"] = {"scenarios": len(scs), "invocations_compared": 0, "features": {}, "packages": {}, "outcomes": {},
                           "order_differs_from_path_order": 0, "second_run_byte_identical": 0, "type_checked": 0}
    for m in scs:
        for ft in m["features"]:
            ms["features"][ft] = ms["features"].get(ft, 0) + 1
        ms["packages"][str(len(m["packages"]))] = ms["packages"].get(str(len(m["packages"])), 0) + 1
    flagged = set()
    f7hist = set()
    scr = {}          # history scenario -> (model answer for the run from scratch, its disagreements)
    ms.update({"histories": sum(1 for m in scs if m.get("v1")), "history_as_from_scratch": 0, "history_known_F7_predicted": 0})
    for k, ((i, which, order, names, pid), ans) in enumerate(zip(meta, answers), 1):
        m, (r1, r2, vet, r0, rs) = scs[i], runs[i]
        mm = re.match(r"^%d model=(.*)$" % k, ans)
        if not mm:
            raise common.CheckError("model driver rejected regenall op %d (%s %s): %s" % (k, m["id"], which, ans[:300]))
        real = {"run1": r1, "run2": r2, "scratch": rs}[which]
        replay = {"scenario": m, "which": which, "op": lines[k - 1], "model": ans, "tie": "regen", "order": order}
        ms["invocations_compared"] += 1
        if which == ("scratch" if r0 is not None else "run1") and order != sorted(order):
            ms["order_differs_from_path_order"] += 1
        if real[3]:
            rep.violation("goderive crashed or hung on regen scenario %s (%s)" % (m["id"], which), replay, True)
            continue
        # the model's answer per package, the implementation's state per package
        model = dict(x.split("=", 1) for x in mm.group(1).split(";") if x)
        rid = {v: kname for kname, v in pid.items()}
        mkind = next((o for o in model.values() if o.startswith("error:")), "ok")
        ms["outcomes"][real[0]] = ms["outcomes"].get(real[0], 0) + 1
        diffs = []
        if real[0] != mkind:
            diffs.append("exit: goderive %s, model %s" % (real[0], mkind))
        for pn in order:
            mo = model.get(str(pid[pn]))
            if mo is None or mo.startswith("error:"):
                continue     # not reached / failed: what is on disk is not part of the comparison
            universe = {c["name"] for c in next(p for p in m["packages"] if p["name"] == pn)["calls"]}
            data = real[1][pn]
            io = "ok:none" if data is None else "ok:" + ",".join("%d:%s:%d" % f for f in sorted(
                (names[n], ".".join(str(num.ty(t)) for t in ps), num.ty(r)) for n, r, ps in qualified_sigs(pn, data) if n in universe))
            if io != mo:
                diffs.append("package %s: goderive %s, model %s" % (pn, io, mo))
        for p in m["packages"]:
            if not p["named"] and real[1][p["name"]] is not None:
                diffs.append("package %s is not named and got a derived.gen.go" % p["name"])
        if which == "scratch":
            scr[i] = (mm.group(1), diffs)
        # the property itself: the second run, over the files of the first, changes nothing; the result type-checks
        why = None
        if which == "run1" and r0 is not None and i in scr and i not in flagged:
            # a history: what the run over the old files leaves is what the run from scratch leaves (bytes, per package),
            # unless the model predicts exactly both outcomes (then a stale signature flows: F7)
            same = r1[0] == rs[0] and (r1[0] != "ok" or r1[1] == rs[1])
            if same:
                ms["history_as_from_scratch"] += 1
            elif not diffs and not scr[i][1] and mm.group(1) != scr[i][0] and known_f7:
                # (what such a run leaves is healed by the next run: the second-run clause below is part of F7 here;
                # the second run is still compared with the model)
                ms["history_known_F7_predicted"] += 1
                f7hist.add(i)
            else:
                ch = [pn for pn in r1[1] if r1[1][pn] != rs[1][pn]]
                why = ("after the history (version 1 generated, first package edited, one run) %s; from scratch: %s" % (
                    "the run ends with %s" % r1[0] if r1[0] != rs[0] else "derived.gen.go of %s differs from the from-scratch one" % ", ".join(ch), rs[0]))
        if which == "run1" and r1[0] != "ok" and r2[0] == "ok" and mkind == "ok" and i not in flagged:
            why = ("the first run fails (%s), the second run, over the files the failed run left behind, succeeds: "
                   "the outcome depends on the old files" % r1[0])
        if which == "run1" and r1[0] == "ok" and i not in flagged and not why and i not in f7hist:
            if r2[0] != "ok" or r2[1] != r1[1]:
                ch = [pn for pn in r1[1] if r1[1][pn] != r2[1][pn]]
                why = ("the second run, over the files the first run left, %s: one run did not suffice" % (
                    "fails (%s)" % r2[0] if r2[0] != "ok" else "changes derived.gen.go of %s" % ", ".join(ch)))
            elif vet is not None and not vet[0]:
                why = "the packages left by the successful first run do not type-check: %s" % vet[1]
            else:
                ms["second_run_byte_identical"] += 1
                ms["type_checked"] += 1 if vet else 0
        if why:
            flagged.add(i)
            rep.violation("regen scenario %s (goderive %s, %s; generation order by G/Order: %s): %s%s" % (
                m["id"], " ".join(m["args"]), "every derived.gen.go absent at the start" if r0 is None else "the files of an earlier version present",
                " ".join(order), why, ("; " + "; ".join(diffs)) if diffs else ""),
                dict(replay, run1=r1[0], run2=r2[0], stderr=real[2]), True)
        elif diffs and i not in flagged:
            flagged.add(i)
            rep.violation("correspondence G/Order + G/Reload.invocation: scenario %s (%s, goderive %s): %s" % (
                m["id"], which, " ".join(m["args"]), "; ".join(diffs)), dict(replay, stderr=real[2]), False)
        if len(rep.violations) > 10:
            break
    stats["model_runs_compared"] += ms["invocations_compared"]
    stats["goderive_runs"] += 2 * len(scs) + 2 * ms["histories"]


# ---------------------------------------------------------------- a package left with nothing but its derived.gen.go


def prepare_moved(mv, binp, root):
    """v1 (root + ./lib) -> goderive ./... ; v2 (everything in the root, lib's source file deleted, its derived.gen.go
    left behind) -> goderive ./... ; v2 from scratch; go build ./... of what the history left."""
    d = os.path.join(root, mv["id"])
    shutil.rmtree(d, ignore_errors=True)
    os.makedirs(os.path.join(d, "lib"))
    open(os.path.join(d, "go.mod"), "w").write(GOMOD)
    for n, src in mv["v1_root"]["files"].items():
        open(os.path.join(d, n), "w").write(src)
    for n, src in mv["v1_lib"]["files"].items():
        open(os.path.join(d, "lib", n), "w").write(src)

    def state():
        out = {}
        for k, fp in (("root", os.path.join(d, "derived.gen.go")), ("lib", os.path.join(d, "lib", "derived.gen.go"))):
            out[k] = open(fp).read() if os.path.exists(fp) else None
        return out

    def run():
        rc, err, to = common.run_goderive(binp, d, ["./..."], timeout=180, mem_gb=4)
        return message_kind(rc, err), state(), err[-400:], to or "panic:" in err or "goroutine " in err
    r1 = run()
    for n in mv["v1_lib"]["files"]:
        os.remove(os.path.join(d, "lib", n))
    for n, src in (mv.get("v2_lib") or {}).items():
        open(os.path.join(d, "lib", n), "w").write(src)      # lib keeps a source file, without derive calls
    for n, src in mv["v2_root"]["files"].items():
        open(os.path.join(d, n), "w").write(src)
    r2 = run()
    p = common.sh(["go", "build", "./..."], cwd=d, timeout=600)
    build = (p.returncode == 0, (p.stderr.strip().splitlines() or [""])[-1][:200])
    r3 = run()      # once more: does a further run change anything?
    shutil.rmtree(d, ignore_errors=True)
    ds = os.path.join(root, mv["id"] + "s")
    write_pkg(ds, mv["v2_root"]["files"])
    scratch = run_real(binp, ds)
    shutil.rmtree(ds, ignore_errors=True)
    return r1, r2, build, r3, scratch


def run_moved(rep, mvs, binp, root, table, num, pool, drvbin, stats):
    runs = list(pool.map(lambda mv: prepare_moved(mv, binp, root), mvs))
    st = stats["moved"] = {"scenarios": len(mvs), "v1_generated_both_files": 0, "lib_file_removed": 0, "root_as_from_scratch": 0,
                           "builds": 0, "model_runs_compared": 0}
    jobs = []
    for mv, (r1, r2, build, r3, scratch) in zip(mvs, runs):
        olds = parse_sigs(r1[1]["root"] or "")
        jobs.append((mv["v2_root"]["calls"], olds))
    for _ in range(12):
        missing = set()
        for calls, olds in jobs:
            missing |= closure_keys(calls, olds, table)[1]
        if not missing:
            break
        table.fill(missing, pool)
    else:
        raise common.CheckError("regen tie: the plugin table does not close (moved)")
    lines, meta = [], []
    for i, (mv, (r1, r2, build, r3, scratch), (calls, olds)) in enumerate(zip(mvs, runs, jobs)):
        if r1[0] != "ok" or r1[1]["lib"] is None:
            continue          # v1 is not a package pair with two generated files: not this history
        st["v1_generated_both_files"] += 1
        libold = parse_sigs(r1[1]["lib"])
        names, texts = {}, {}
        for nm in sorted({c["name"] for c in calls} | {a["r"] for c in calls for a in c["args"] if a.get("r")} | {n for n, _ in olds} | {n for n, _ in libold}):
            names[nm] = len(names)
        for t in sorted({c["text"] for c in calls}):
            texts[t] = len(texts)
        enc, odd = encode(calls, olds, table, num, names, texts)
        if odd:
            stats["skipped_odd_rows"] += 1
            continue
        lines.append("op %d regen %s" % (len(lines) + 1, enc))
        lines.append("op %d regen () () (%s)" % (len(lines) + 1, " ".join("(%d %d)" % (names[n], num.ty(r)) for n, r in libold)))
        meta.append((i, names, {c["name"] for c in calls}))
    drv = common.sh([drvbin], input="\n".join(lines) + "\n", timeout=3600, env=dict(os.environ))
    answers = drv.stdout.splitlines()
    if drv.returncode != 0 or len(answers) != len(lines):
        raise common.CheckError("model driver failed on the regen ops of the moved-package histories: %s" % drv.stderr[-500:])
    for j, (i, names, universe) in enumerate(meta):
        mv, (r1, r2, build, r3, scratch) = mvs[i], runs[i]
        ma = re.match(r"^\d+ model=(\S+) scratch=(\S+) agree=([01])$", answers[2 * j])
        mb = re.match(r"^\d+ model=(\S+) scratch=(\S+) agree=([01])$", answers[2 * j + 1])
        if not ma or not mb:
            raise common.CheckError("model driver rejected a regen op of history %s: %s | %s" % (mv["id"], answers[2 * j][:200], answers[2 * j + 1][:200]))
        st["model_runs_compared"] += 3
        replay = {"scenario": mv, "tie": "regen", "which": "moved", "op": lines[2 * j], "model": answers[2 * j]}
        if r2[3] or scratch[3]:
            rep.violation("goderive crashed or hung on history %s" % mv["id"], replay, True)
            continue
        i_root = impl_outcome((r2[0], r2[1]["root"], "", False), universe, names, num)
        i_scr = impl_outcome(scratch, universe, names, num)
        m_root, m_scr, m_lib = ma.group(1), ma.group(2), mb.group(1)
        bad = []
        # the property: no derive call remains in ./lib => its derived.gen.go is removed (model: regen [] old = ok:none);
        # the root's file is the from-scratch one; the module builds; a further run changes nothing
        if m_lib != "ok:none":
            raise common.CheckError("model: regen on no calls is not `removed`: %s" % m_lib)
        if r2[0] == "ok" and r2[1]["lib"] is not None:
            bad.append("no derive call remains in ./lib (%s), but lib/derived.gen.go is still there after goderive ./... " % (
                       "its call moved to the root package" if mv.get("v2_lib") else "every source file is gone") +
                       "(model: removed)")
        else:
            st["lib_file_removed"] += 1
        predicted = i_root == m_root and i_scr == m_scr
        if r2[0] == "ok" and scratch[0] == "ok" and i_root == i_scr and r2[1]["root"] != scratch[1]:
            bad.append("./derived.gen.go after the history has the functions of the from-scratch file and other bytes")
        elif i_root != i_scr and not predicted:
            bad.append("./derived.gen.go after the history: %s, from scratch: %s (model: %s / %s)" % (i_root, i_scr, m_root, m_scr))
        else:
            st["root_as_from_scratch"] += 1 if i_root == i_scr else 0
        if r2[0] == "ok" and i_root == i_scr and not build[0]:
            bad.append("go build ./... fails after the run: %s" % build[1])
        else:
            st["builds"] += 1 if build[0] else 0
        if r2[0] == "ok" and (r3[0] != "ok" or r3[1] != r2[1]) and not bad:
            bad.append("a further goderive ./... changes the files again")
        if bad:
            rep.violation("regen history %s (v1: packages . and ./lib with derive calls; v2: lib's declarations and calls moved into ., "
                          "lib's only source file deleted; goderive ./...): %s" % (mv["id"], "; ".join(bad)),
                          dict(replay, stderr=r2[2]), True)
        elif not predicted:
            rep.violation("correspondence G/Reload.regen: history %s: root package with the v1 file: goderive %s, model %s; from scratch: goderive %s, model %s" % (
                mv["id"], i_root, m_root, i_scr, m_scr), dict(replay, stderr=r2[2]), False)
        if len(rep.violations) > 10:
            break
    stats["model_runs_compared"] += st["model_runs_compared"]
    stats["goderive_runs"] += 4 * len(mvs)


# ---------------------------------------------------------------- the tie


def run(rep, n=None):
    tier, seed = rep.tier, rep.seed
    n = n or int(os.environ.get("VERIF_REGEN_N", "0")) or (240 if tier == "quick" else 4000)
    gen = common.tool_path("genregen")
    _, binp = common.build_goderive()
    known = {f["id"]: f for f in json.load(open(os.path.join(common.VERIF, "known_findings.json")))["findings"]}
    root = tempfile.mkdtemp(prefix="verif-regen-")
    stats = {"scenarios": 0, "by_old_kind": {}, "by_effective_old": {}, "by_depth": {}, "features": {},
             "outcomes_with_old": {}, "outcomes_scratch": {}, "outcomes_old_sources": {}, "model_runs_compared": 0,
             "model_predicts_difference_from_scratch": 0, "impl_differs_from_scratch": 0, "differences": {}, "agree_1": 0,
             "bytes_compared_with_scratch": 0, "probe_rows": 0, "probe_rows_with_helpers": 0, "skipped_odd_rows": 0,
             "goderive_runs": 0}
    try:
        p = common.sh([gen, "-out", root, "-seed", str(seed), "-n", str(n)], timeout=600)
        if p.returncode != 0:
            raise common.CheckError("genregen failed: " + p.stderr[-2000:])
        scs = json.load(open(os.path.join(root, "scenarios.json")))
        num = Numbering()
        table = GenTable(binp, root)
        with ThreadPoolExecutor(max_workers=12) as pool:
            runs = list(pool.map(lambda sc: prepare(sc, binp, root), scs))
            # the table of the plugins, closed under what can flow
            jobs = []          # (scenario index, which, calls, old signatures)
            for i, (sc, r) in enumerate(zip(scs, runs)):
                olds = []
                if r["old_file"] is not None:
                    olds = [(nm, res) for nm, res in parse_sigs(r["old_file"]) if valid_result(res, sc["new"]["declared"])]
                jobs.append((i, "new", sc["new"]["calls"], olds))
                if sc["old"] is not None and not r.get("old_same_sources"):
                    jobs.append((i, "oldsrc", sc["old"]["calls"], []))
            for _ in range(12):
                missing = set()
                for _, _, calls, olds in jobs:
                    missing |= closure_keys(calls, olds, table)[1]
                if not missing:
                    break
                table.fill(missing, pool)
            else:
                raise common.CheckError("regen tie: the plugin table does not close")
        stats["goderive_runs"] = sum(1 + (1 if r["old_scratch"] else 0) + (1 if r["old_file"] is not None else 0) for r in runs) + table.n
        stats["probe_rows"] = len(table.rows)
        stats["probe_rows_with_helpers"] = sum(1 for v in table.rows.values() if v[0] == "ok" and v[2] > 0)
        # one op line per (scenario, new | old sources)
        lines, meta = [], []
        for i, which, calls, olds in jobs:
            names, texts = {}, {}
            for nm in sorted({c["name"] for c in calls} | {a["r"] for c in calls for a in c["args"] if a.get("r")} | {nm for nm, _ in olds}):
                names[nm] = len(names)
            for t in sorted({c["text"] for c in calls}):
                texts[t] = len(texts)
            enc, odd = encode(calls, olds, table, num, names, texts)
            if odd:
                stats["skipped_odd_rows"] += 1
                rep.notes.append("regen tie: scenario %s skipped, a plugin neither accepted nor refused with an Add Error: %s" % (scs[i]["id"], odd[0]))
                continue
            lines.append("op %d regen %s" % (len(lines) + 1, enc))
            meta.append((i, which, names, {c["name"] for c in calls}))
        # a private copy of the driver: a concurrent check may rebuild it (lake replaces the binary)
        drvbin = os.path.join(root, "driver")
        with common.Lock("lake"):
            shutil.copy2(common.driver_path(), drvbin)
        drv = common.sh([drvbin], input="\n".join(lines) + "\n", timeout=3600, env=dict(os.environ))
        answers = drv.stdout.splitlines()
        if drv.returncode != 0 or len(answers) != len(lines):
            raise common.CheckError("model driver failed on the regen ops (rc %s, %d answers for %d ops): %s" % (
                drv.returncode, len(answers), len(lines), drv.stderr[-500:]))
        f7 = 0
        f7_example = None
        for k, ((i, which, names, universe), ans) in enumerate(zip(meta, answers), 1):
            sc, r = scs[i], runs[i]
            m = re.match(r"^%d model=(\S+) scratch=(\S+) agree=([01])$" % k, ans)
            if not m:
                raise common.CheckError("model driver rejected regen op %d (%s %s): %s" % (k, sc["id"], which, ans[:300]))
            m_old, m_scr, agree = m.group(1), m.group(2), m.group(3) == "1"
            replay = {"scenario": sc, "which": which, "op": lines[k - 1], "model": ans, "tie": "regen"}
            if which == "oldsrc":
                # third point: the old sources from scratch
                i_scr = impl_outcome(r["old_scratch"], universe, names, num)
                stats["model_runs_compared"] += 1
                stats["outcomes_old_sources"][cls(i_scr)] = stats["outcomes_old_sources"].get(cls(i_scr), 0) + 1
                if r["old_scratch"][3]:
                    rep.violation("goderive crashed or hung on the old sources of regen scenario %s" % sc["id"], replay, True)
                elif i_scr != m_scr:
                    why = attribute(binp, root, sc["old"]["files"], r["old_scratch"])
                    rep.violation("%s: scenario %s, old sources from scratch: goderive %s, model %s%s" % (
                        "regen" if why else "correspondence G/Reload.regen", sc["id"], i_scr, m_scr, "; " + why if why else ""),
                        dict(replay, impl=i_scr, stderr=r["old_scratch"][2], files=sc["old"]["files"]), bool(why))
                    if len(rep.violations) > 8:
                        break
                continue
            i_old = impl_outcome(r["incr"], universe, names, num)
            i_scr = impl_outcome(r["scratch"], universe, names, num)
            eff = sc["old_kind"] if r["old_file"] is not None else ("absent" if sc["old"] is None else "old-sources-rejected")
            stats["scenarios"] += 1
            stats["model_runs_compared"] += 2
            for key, val in (("by_old_kind", sc["old_kind"]), ("by_effective_old", eff), ("by_depth", str(sc["depth"]))):
                stats[key][val] = stats[key].get(val, 0) + 1
            for ft in sc["features"]:
                stats["features"][ft] = stats["features"].get(ft, 0) + 1
            stats["outcomes_with_old"][cls(i_old)] = stats["outcomes_with_old"].get(cls(i_old), 0) + 1
            stats["outcomes_scratch"][cls(i_scr)] = stats["outcomes_scratch"].get(cls(i_scr), 0) + 1
            if m_old != m_scr:
                stats["model_predicts_difference_from_scratch"] += 1
            if agree:
                stats["agree_1"] += 1
            if len(rep.cov["samples"]) < 8 and (m_old != m_scr or k % 40 == 1):
                rep.cov["samples"].append({"regen_scenario": sc["id"], "old": eff, "depth": sc["depth"], "with_old": i_old,
                                           "scratch": i_scr, "model_with_old": m_old, "model_scratch": m_scr, "agree": agree})
            if r["incr"][3] or r["scratch"][3]:
                rep.violation("goderive crashed or hung on regen scenario %s" % sc["id"], replay, True)
                continue
            differs = i_old != i_scr
            same_bytes = True
            if not differs and r["old_file"] is not None and r["incr"][0] == "ok":
                # same signatures: then the same bytes (function order, helper functions, helper names)
                stats["bytes_compared_with_scratch"] += 1
                same_bytes = r["incr"][1] == r["scratch"][1]
            if differs:
                stats["impl_differs_from_scratch"] += 1
                dk = "with old %s / from scratch %s" % (cls(i_old), cls(i_scr))
                stats["differences"][dk] = stats["differences"].get(dk, 0) + 1
            predicted = i_old == m_old and i_scr == m_scr
            if (differs and not predicted) or not same_bytes:
                # the property is violated on this input (the run with the old file does not leave what the run from
                # scratch leaves) and it is not the known stale-signature behaviour, which the model reproduces exactly
                why = ("no stale signature flows into another derive call (model: agree=1)" if agree else
                       "the model predicts the same functions with and without the old file" if not differs else
                       "the model, which reproduces the stale-signature behaviour F7, predicts with old %s / from scratch %s" % (m_old, m_scr))
                rep.violation("regen scenario %s (old file: %s, depth %d): the run with the old derived.gen.go gives %s and the run from scratch %s%s; %s" % (
                                  sc["id"], eff, sc["depth"], i_old, i_scr, "" if differs else " (same signatures, other bytes)", why),
                              dict(replay, impl_with_old=i_old, impl_scratch=i_scr, old_file=r["old_file"], stderr=r["incr"][2]), True)
                if len(rep.violations) > 8:
                    break
                continue
            if not predicted:
                what = []
                if i_old != m_old:
                    what.append("with the old file (%s): goderive %s, model %s" % (eff, i_old, m_old))
                why = None
                if i_scr != m_scr:
                    what.append("from scratch: goderive %s, model %s" % (i_scr, m_scr))
                    why = attribute(binp, root, sc["new"]["files"], r["scratch"])
                    if why:
                        what.append(why)
                rep.violation("%s: scenario %s: %s" % ("regen" if why else "correspondence G/Reload.regen", sc["id"], "; ".join(what)),
                              dict(replay, impl_with_old=i_old, impl_scratch=i_scr, old_file=r["old_file"], files=sc["new"]["files"],
                                   stderr=r["incr"][2], stderr_scratch=r["scratch"][2]), bool(why))
                if len(rep.violations) > 8:
                    break
                continue
            if differs:
                # a stale signature flows and the model predicted exactly what the implementation did
                f = known.get("F7")
                if f and f["status"] == "known":
                    f7 += 1
                    f7_example = f7_example or "%s (old file: %s): with old %s, from scratch %s" % (sc["id"], eff, i_old, i_scr)
                else:
                    rep.violation("regen scenario %s: a stale signature of a derive call whose result feeds another derive call: "
                                  "with the old file %s, from scratch %s (as the model predicts)" % (sc["id"], i_old, i_scr),
                                  dict(replay, impl_with_old=i_old, impl_scratch=i_scr, old_file=r["old_file"]), True)
        multis = json.load(open(os.path.join(root, "multi.json")))
        if multis:
            with ThreadPoolExecutor(max_workers=12) as pool:
                run_multi(rep, multis, binp, root, table, num, pool, drvbin, stats,
                          known_f7=bool(known.get("F7") and known["F7"]["status"] == "known"))
            if stats["multi"].get("history_known_F7_predicted"):
                f7 += stats["multi"]["history_known_F7_predicted"]
                f7_example = f7_example or "a multi-package history"
            stats["probe_rows"] = len(table.rows)
        mvs = json.load(open(os.path.join(root, "moved.json"))) if os.path.exists(os.path.join(root, "moved.json")) else []
        if mvs:
            with ThreadPoolExecutor(max_workers=12) as pool:
                run_moved(rep, mvs, binp, root, table, num, pool, drvbin, stats)
            stats["probe_rows"] = len(table.rows)
        if f7:
            rep.known.append("F7: %d regen scenarios with a stale flowing signature differ from from-scratch exactly as G/Reload.regen predicts, e.g. %s" % (f7, f7_example))
        stats["known_F7_predicted"] = f7
        stats["generator"] = json.load(open(os.path.join(root, "stats.json")))
        rep.cov["regen_tie"] = stats
        rep.cov["evaluations"] += stats["model_runs_compared"]
        rep.cov["distinct_nontrivial"] += stats["model_predicts_difference_from_scratch"]
        rep.cov["programs"] += stats["scenarios"]
        rep.cov["disagreements_checked"] += stats["model_runs_compared"]
        rep.cov["traces_validated_against_impl"] += stats["model_runs_compared"]
    finally:
        shutil.rmtree(root, ignore_errors=True)
    return stats
