"""Tie of the generation-order model (lean/GoderiveModel/G/Order.lean, theorems Props/C08o.lean) with the real
`sort.Slice` + `importedFirst` of derive/generate.go, run in-process on abstract import graphs through the hook
derive.VerifGenerationOrder (harness-t3/cmd/orderdrive, build tag verif).

One op line = one invocation: `op <id> genorder (<path> <dir> <named 0|1> (<import>…)) …`; the Lean driver
answers `model=<paths>`, orderdrive answers `impl=<paths>`. Besides the diff, the statements of the theorems are
checked directly on the implementation's answers (so that a difference can be attributed):
 (a) the answer is a permutation of the named packages,
 (b) if the walked relation (import, or named package in the directory of an import) is acyclic, every named
     package comes after all the named packages it reaches,
 (c) the answer is the same for every listing order of one graph,
 (d) if no named package reaches another named package, the answer is the named packages in path order."""
import itertools
import json
import os
import random
import shutil
import subprocess
import tempfile
import time

from vlib import common

T3SRC = os.path.join(common.VERIF, "harness-t3")


def build_orderdrive():
    """Builds harness-t3/cmd/orderdrive (module verift3, build tag verif) against the tree under check."""
    h = common.repo_hash() + "-" + common.hash_tree(T3SRC, ["."])
    d = os.path.join(common.WORK, "t3order-" + h)
    binp = os.path.join(d, "orderdrive")
    with common.Lock("t3order"):
        if not os.path.exists(binp):
            shutil.rmtree(d, ignore_errors=True)
            shutil.copytree(T3SRC, os.path.join(d, "src"))
            shutil.copy(os.path.join(common.REPO, "go.sum"), os.path.join(d, "src", "go.sum"))
            if common.REPO != "/repo":
                gm = os.path.join(d, "src", "go.mod")
                txt = open(gm).read().replace("=> /repo", "=> " + common.REPO)
                open(gm, "w").write(txt)
            p = common.sh(["go", "build", "-tags", "verif", "-o", binp, "./cmd/orderdrive"], cwd=os.path.join(d, "src"), timeout=900)
            if p.returncode != 0:
                raise common.CheckError("orderdrive does not build against %s (hook derive.VerifGenerationOrder missing?):\n%s" % (common.REPO, p.stderr[-3000:]))
        olds = sorted((os.path.join(common.WORK, x) for x in os.listdir(common.WORK)
                       if x.startswith("t3order-") and os.path.join(common.WORK, x) != d), key=os.path.getmtime)
        for x in olds[:-6]:
            if time.time() - os.path.getmtime(x) > 3600:
                shutil.rmtree(x, ignore_errors=True)
    return binp


# ---------------------------------------------------------------- graphs
# a graph is a list of packages (path, dir, named, imports) in listing order


def line(oid, g):
    return "op %d genorder %s" % (oid, " ".join("(%s %s %d (%s))" % (p, d, 1 if n else 0, " ".join(imps)) for p, d, n, imps in g))


def canon(g):
    return tuple(sorted((p, d, n, tuple(sorted(imps))) for p, d, n, imps in g))


def acyclic(nodes, edges):
    succ = {x: [b for a, b in edges if a == x] for x in nodes}
    state = {}

    def go(x):
        state[x] = 1
        for y in succ[x]:
            if state.get(y) == 1 or (y not in state and not go(y)):
                return False
        state[x] = 2
        return True
    return all(x in state or go(x) for x in nodes)


def partitions(n):
    """all set partitions of range(n) as block-index lists (restricted growth strings)"""
    def rec(i, cur, mx):
        if i == n:
            yield list(cur)
            return
        for b in range(mx + 2):
            cur.append(b)
            yield from rec(i + 1, cur, max(mx, b))
            cur.pop()
    return list(rec(0, [], -1))


def exhaustive(tier):
    """All digraphs without self-loops on <= 3 packages that are acyclic (thorough: the cyclic ones too) x all
    assignments of directories (set partitions) x all named subsets x all listing orders."""
    names = {0: [], 1: ["m/x"], 2: ["../x", "m/x"], 3: ["../x", "m/x", "m/y"]}
    out = []
    for n in range(0, 4):
        ps = names[n]
        pairs = [(a, b) for a in range(n) for b in range(n) if a != b]
        for k in range(len(pairs) + 1):
            for es in itertools.combinations(pairs, k):
                dag = acyclic(range(n), es)
                if not dag and tier != "thorough":
                    continue
                for part in partitions(n):
                    for mask in range(1 << n):
                        g = [(ps[a], "/w/d%d" % part[a], bool(mask >> a & 1), [ps[b] for (x, b) in es if x == a]) for a in range(n)]
                        for perm in itertools.permutations(range(n)):
                            out.append([g[i] for i in perm])
    return out


def four(rnd):
    """thorough: all DAGs on 4 packages x all named subsets, distinct directories and one random partition, 2 listing orders"""
    ps = ["../x", "./y", "m/x", "m/y"]
    pairs = [(a, b) for a in range(4) for b in range(4) if a != b]
    parts = partitions(4)
    out = []
    for k in range(len(pairs) + 1):
        for es in itertools.combinations(pairs, k):
            if not acyclic(range(4), es):
                continue
            for mask in range(16):
                for part in ([0, 1, 2, 3], rnd.choice(parts)):
                    g = [(ps[a], "/w/d%d" % part[a], bool(mask >> a & 1), [ps[b] for (x, b) in es if x == a]) for a in range(4)]
                    for _ in range(2):
                        h = list(g)
                        rnd.shuffle(h)
                        out.append(h)
    return out


def random_graph(rnd):
    """1-8 packages over 1-5 directories. Every directory has the package under its import path (m/<dir>), some
    also a twin under a relative path (../<dir> or ./<dir>, same imports unless perturbed). The directories are
    layered by a random order (independent of the names) and import earlier ones; a share of the graphs gets a
    back edge (cycle), an import of the twin instead of the import path, an unknown import, a repeated import."""
    k = rnd.randint(1, 5)
    dnames = rnd.sample(["a", "b", "c", "d", "e", "f", "x", "y"], k)
    topo = list(dnames)
    rnd.shuffle(topo)
    imports = {}
    dens = rnd.choice([0.2, 0.4, 0.7])
    for i, d in enumerate(topo):
        imports[d] = [e for e in topo[:i] if rnd.random() < dens]
    pk = []
    budget = 8
    for d in dnames:
        imps = ["m/" + e for e in imports[d]]
        pk.append(["m/" + d, "/w/" + d, imps])
        budget -= 1
    for d in dnames:
        if budget > 0 and rnd.random() < 0.5:
            imps = ["m/" + e for e in imports[d]]
            pk.append([rnd.choice(["../", "./"]) + d, "/w/" + d, imps])
            budget -= 1
    kinds = set()
    paths = [p[0] for p in pk]
    if rnd.random() < 0.12 and len(pk) > 1:  # an import of a twin / of any package object
        a, b = rnd.sample(range(len(pk)), 2)
        if topo.index(pk[b][1][3:]) < topo.index(pk[a][1][3:]):
            pk[a][2].append(pk[b][0])
            kinds.add("import-of-any-object")
    if rnd.random() < 0.10:
        a = rnd.randrange(len(pk))
        pk[a][2] = [i for i in pk[a][2] if rnd.random() < 0.5]
        kinds.add("twin-imports-perturbed")
    if rnd.random() < 0.10:
        a, b = rnd.randrange(len(pk)), rnd.randrange(len(pk))
        pk[a][2].append(pk[b][0])
        kinds.add("back-edge")
    if rnd.random() < 0.06:
        pk[rnd.randrange(len(pk))][2].append("m/zz")
        kinds.add("unknown-import")
    if rnd.random() < 0.06:
        a = rnd.randrange(len(pk))
        if pk[a][2]:
            pk[a][2].append(rnd.choice(pk[a][2]))
            kinds.add("repeated-import")
    for p in pk:
        rnd.shuffle(p[2])
    assert len(set(paths)) == len(paths)
    return pk, kinds


def random_ops(rnd, n_graphs, stats):
    out = []
    for _ in range(n_graphs):
        pk, kinds = random_graph(rnd)
        for kd in kinds:
            stats["random_kinds"][kd] = stats["random_kinds"].get(kd, 0) + 1
        n = len(pk)
        stats["random_sizes"][n] = stats["random_sizes"].get(n, 0) + 1
        if n <= 3:
            masks = list(range(1 << n))
        else:
            masks = {(1 << n) - 1, 0}
            # the twins alone, the import paths alone, random subsets
            masks.add(sum(1 << i for i, p in enumerate(pk) if p[0].startswith(".")))
            masks.add(sum(1 << i for i, p in enumerate(pk) if not p[0].startswith(".")))
            while len(masks) < 9:
                masks.add(rnd.randrange(1 << n))
            masks = sorted(masks)
        for mask in masks:
            g = [(p[0], p[1], bool(mask >> i & 1), list(p[2])) for i, p in enumerate(pk)]
            for j in range(2 if n > 1 else 1):
                h = list(g)
                if j:
                    rnd.shuffle(h)
                    h = [(p, d, nm, rnd.sample(imps, len(imps))) for p, d, nm, imps in h]
                out.append(h)
    return out


# ---------------------------------------------------------------- the statements, on an answer


def relation(g):
    """the relation the walk follows: x -> import i (a package of the graph), x -> named package t != x in the directory of i"""
    known = {p: (d, n) for p, d, n, _ in g}
    edges = set()
    for p, d, n, imps in g:
        for i in imps:
            if i not in known:
                continue
            edges.add((p, i))
            for t, (td, tn) in known.items():
                if tn and td == known[i][0] and t != p:
                    edges.add((p, t))
    return known, edges


def reach(nodes, edges):
    succ = {x: set() for x in nodes}
    for a, b in edges:
        succ[a].add(b)
    out = {}
    for x in nodes:
        seen, todo = set(), list(succ[x])
        while todo:
            y = todo.pop()
            if y not in seen:
                seen.add(y)
                todo.extend(succ[y])
        out[x] = seen
    return out


def check_answer(g, ans):
    """Returns (violated statement or None, number of (b) constraints checked, (d) applied)."""
    known, edges = relation(g)
    named = sorted(p for p, (d, n) in known.items() if n)
    if sorted(ans) != named:
        return "(a) not a permutation of the named packages", 0, False
    pos = {p: i for i, p in enumerate(ans)}
    nb = 0
    r = reach(list(known), edges)
    if acyclic(list(known), edges):
        for p in named:
            for q in r[p]:
                if known[q][1]:
                    nb += 1
                    if not pos[q] < pos[p]:
                        return "(b) %s reaches %s (import / named package in the directory of an import; acyclic) but is generated first" % (p, q), nb, False
    unrelated = all(not (known[q][1] and q != p) for p in named for q in r[p])
    if unrelated and ans != named:
        return "(d) no named package reaches another one, but the order is not the path order", nb, True
    return None, nb, unrelated


def run_lines(binary, path_in, path_out, timeout=3600):
    with open(path_in) as fin, open(path_out, "w") as fout:
        p = subprocess.run([binary], stdin=fin, stdout=fout, stderr=subprocess.PIPE, timeout=timeout)
    if p.returncode != 0:
        raise common.CheckError("%s failed: %s" % (binary, p.stderr.decode(errors="replace")[-2000:]))


def private_copy(path, tmp, lock):
    dst = os.path.join(tmp, "bin-" + os.path.basename(path))
    with common.Lock(lock):
        shutil.copy2(path, dst)
    return dst


def run(rep):
    """Generates the op lines (seed rep.seed, tier rep.tier), runs the real code and the Lean driver, compares.
    Returns the number of op lines compared."""
    rnd = random.Random(rep.seed * 7919 + 17)
    stats = {"random_kinds": {}, "random_sizes": {}}
    ex = exhaustive(rep.tier)
    graphs = list(ex)
    n_four = 0
    if rep.tier == "thorough":
        f4 = four(rnd)
        n_four = len(f4)
        graphs += f4
    rg = random_ops(rnd, 220 if rep.tier == "quick" else 4000, stats)
    graphs += rg
    tmp = tempfile.mkdtemp(prefix="verif-order-")
    try:
        od = private_copy(build_orderdrive(), tmp, "t3order")
        drv = private_copy(common.driver_path(), tmp, "lake")
        with open(os.path.join(tmp, "ops.txt"), "w") as f:
            for i, g in enumerate(graphs, 1):
                f.write(line(i, g) + "\n")
        run_lines(drv, os.path.join(tmp, "ops.txt"), os.path.join(tmp, "model.txt"))
        run_lines(od, os.path.join(tmp, "ops.txt"), os.path.join(tmp, "impl.txt"))
        m = open(os.path.join(tmp, "model.txt")).read().splitlines()
        im = open(os.path.join(tmp, "impl.txt")).read().splitlines()
        if len(m) != len(graphs) or len(im) != len(graphs):
            raise common.CheckError("order tie: line protocol out of step: %d ops, %d model, %d impl" % (len(graphs), len(m), len(im)))
        groups = {}
        bad = []          # (op, model, impl, violated statement of the impl or None)
        n_b = n_d = n_acyc = n_twin = n_reorder = 0
        distinct = set()
        for i, (g, lm, li) in enumerate(zip(graphs, m, im), 1):
            if not lm.startswith("%d model=" % i) or not li.startswith("%d impl=" % i):
                raise common.CheckError("order tie: op rejected: %s -> %s | %s" % (line(i, g)[:300], lm[:100], li[:100]))
            am, ai = lm.split("=", 1)[1], li.split("=", 1)[1]
            ans = ai.split(",") if ai else []
            viol, nb, d = check_answer(g, ans)
            n_b += nb
            n_d += 1 if d else 0
            known, edges = relation(g)
            n_acyc += 1 if acyclic(list(known), edges) else 0
            dirs = [d_ for _, d_, _, _ in g]
            n_twin += 1 if len(set(dirs)) < len(dirs) else 0
            n_reorder += 1 if ans != sorted(ans) else 0
            distinct.add((canon(g), ai))
            key = canon(g)
            first = groups.setdefault(key, (i, ai, []))
            first[2].append(i)
            if viol is None and first[1] != ai:
                viol = "(c) the answer depends on the listing order: op %d of the same graph gave %s" % (first[0], first[1])
            if viol is not None or am != ai:
                bad.append((line(i, g), am, ai, viol, g))
        n = len(graphs)
        rep.cov["order_tie"] = {
            "op_lines": n, "exhaustive_le3": len(ex), "dags_on_4": n_four, "random": len(rg),
            "distinct_graphs": len(groups), "graphs_listed_in_2_or_more_orders": sum(1 for v in groups.values() if len(v[2]) > 1),
            "walked_relation_acyclic": n_acyc, "with_two_packages_in_one_directory": n_twin,
            "answers_not_in_path_order": n_reorder,
            "imports_first_constraints_checked_on_impl": n_b, "unrelated_named_packages_in_path_order": n_d,
            "distinct_graph_answer_pairs": len(distinct), "disagreements": sum(1 for b in bad if b[1] != b[2]),
            "generator": stats,
            "what": "real sort.Slice + importedFirst (hook derive.VerifGenerationOrder) vs Lean G/Order.generationOrder, "
                    "theorems Props/C08o (order_perm, order_imports_first, order_arg_invariant, order_deterministic_roots)"}
        for op, am, ai, viol, g in bad[:1]:
            replay = {"correspondence": "order", "kind": "order", "op": op, "impl": ai, "model": am,
                      "graph": [{"path": p, "dir": d, "named": nm, "imports": imps} for p, d, nm, imps in g]}
            if viol is not None:
                rep.violation("generation order of the real code violates %s: %s -> %s (%d of %d op lines flagged)" % (
                    viol, op[:400], ai[:200], len(bad), n), replay, True)
            else:
                rep.violation("correspondence broken (generation order): the real sort + importedFirst and the Lean model G/Order differ on %d of %d op lines, first: %s | impl=%s | model=%s" % (
                    len(bad), n, op[:400], ai[:200], am[:200]), replay, False)
        return n
    finally:
        shutil.rmtree(tmp, ignore_errors=True)


def replay(r):
    """r: a replay object written by run(). Prints both answers for the op line; 1 if they still differ or the
    implementation's answer still violates a statement."""
    od = build_orderdrive()
    op = r["op"]
    pm = subprocess.run([common.driver_path()], input=op + "\n", stdout=subprocess.PIPE, text=True).stdout.strip()
    pi = subprocess.run([od], input=op + "\n", stdout=subprocess.PIPE, text=True).stdout.strip()
    print("op:    %s\nmodel: %s\nimpl:  %s" % (op, pm, pi))
    g = [(x["path"], x["dir"], x["named"], x["imports"]) for x in r.get("graph", [])]
    ai = pi.split("=", 1)[1] if "=" in pi else ""
    viol = check_answer(g, ai.split(",") if ai else [])[0] if g else None
    if viol:
        print("violated: " + viol)
    return 1 if viol or pm.split(" ", 1)[-1].replace("model=", "") != pi.split(" ", 1)[-1].replace("impl=", "") else 0
