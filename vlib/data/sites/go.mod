module sites

go 1.24
