"""Black-box run machinery shared by the C08 / C09 / C10 checks: fact regeneration (T4), corpus
generation into a per-run scratch directory, limited parallel runs of the real goderive, snapshots,
strace parsing, known-finding classes."""
import concurrent.futures
import hashlib
import json
import os
import re
import shutil
import subprocess
import tempfile
import time

from vlib import common

FACTS_LEAN = os.path.join(common.LEAN, "GoderiveModel", "Generated", "Facts.lean")
CRASH = re.compile(r"panic:|goroutine \d+ \[|fatal error:|runtime error|SIGSEGV|unexpected signal")
WORKERS = max(4, min(16, (os.cpu_count() or 4)))


def facts_and_proof(rep, prop):
    """T4 + proof part. Re-extracts the facts from the current sources of the tree under check into
    Generated/Facts.lean (rewritten only when the content changes, so `lake build` stays incremental), then
    builds Props/<prop> against it and audits the axioms. The lock is held across both steps so that a
    concurrent check of another tree (VERIF_REPO) cannot swap the fact file in between."""
    tool = common.tool_path("facts")
    with common.Lock("facts"):
        p = common.sh([tool, "-repo", common.REPO, "-out", FACTS_LEAN], timeout=300)
        if p.returncode != 0:
            raise common.CheckError("fact extractor failed: %s %s" % (p.stdout[-1000:], p.stderr[-2000:]))
        facts = parse_facts()
        before = len(rep.violations)
        ok = common.proof_part(rep, prop, thorough_checker=(rep.tier == "thorough"))
    if not ok:
        _name_broken_theorems(rep, prop, before)
    rep.cov["fact_file"] = p.stdout.strip()
    rep.cov["checker_cmd"] = ("harness/cmd/facts -repo %s -out lean/GoderiveModel/Generated/Facts.lean && " % common.REPO) + rep.cov.get("checker_cmd", "")
    return facts


def _name_broken_theorems(rep, prop, before):
    """Replaces proof_part's generic 'lake build failed' violation by one that names the theorems of
    Props/<prop>.lean that no longer check against the regenerated facts (and the fact they pin)."""
    idx = next((i for i in range(before, len(rep.violations)) if "lake build failed" in rep.violations[i][0]), None)
    if idx is None:
        return
    what, path, found = rep.violations[idx]
    try:
        obj = json.load(open(path))
    except (OSError, ValueError):
        return
    log = obj.get("log", "")
    src_path = os.path.join(common.LEAN, "GoderiveModel", "Props", prop + ".lean")
    lines = open(src_path).read().splitlines()
    broken = []
    for m in re.finditer(r"Props/%s\.lean:(\d+):\d+: (.*)" % prop, log):
        ln = int(m.group(1))
        name = None
        for i in range(min(ln, len(lines)) - 1, -1, -1):
            t = re.match(r"\s*(theorem|example)\s*([A-Za-z0-9_'.]*)", lines[i])
            if t:
                name = t.group(2) or "example at line %d" % (i + 1)
                break
        if name and name not in broken:
            broken.append(name)
    if not broken:
        return
    def statement(i):
        out = []
        for l in lines[i:i + 30]:
            out.append(l)
            if ":=" in l:
                break
        return "\n".join(out)

    stmts = [statement(i) for i, l in enumerate(lines)
             if re.match(r"\s*theorem\s+(%s)\b" % "|".join(re.escape(b) for b in broken), l)]
    facts_hit = [f for f in ("mapRangeSites", "mutablePackageVars", "packageVars", "fsCallSites", "fsCalls", "externalCalls",
                             "rewriteOpenFlags", "swallowedErrors", "toleratedErrors", "droppedSetFuncName", "typsIndexUses",
                             "panicSites", "typeCheckErrors")
                 if any(re.search(r"Generated\." + f + r"\b", st) for st in stmts)]
    obj["theorems_that_no_longer_check"] = broken
    obj["facts_involved"] = facts_hit
    obj["current_facts"] = {f: parse_facts().get(f) for f in facts_hit if f in parse_facts()}
    new_what = ("the regenerated facts of the current sources no longer satisfy theorem(s) %s of Props/%s.lean (facts: %s)%s" % (
        ", ".join(broken), prop, ", ".join(facts_hit) or "-",
        "".join("; %s is now %s" % (f, json.dumps(v)[:400]) for f, v in obj["current_facts"].items() if v is not None and len(json.dumps(v)) < 1500)))
    obj["what"] = new_what
    with open(path, "w") as f:
        json.dump(obj, f, indent=1)
    rep.violations[idx] = (new_what, path, found)


def parse_facts():
    """Reads the string lists of Facts.lean back (for evidence and for the effect model of C10)."""
    src = open(FACTS_LEAN).read()
    out = {}
    for m in re.finditer(r"def (\w+) : List String := \[(.*?)\]\n\n", src, flags=re.S):
        out[m.group(1)] = [json.loads(x) for x in re.findall(r'"(?:[^"\\]|\\.)*"', m.group(2))]
    return out


class Scratch:
    """Per-run scratch directory outside /repo and /verif, removed on exit."""

    def __init__(self, prefix):
        self.dir = tempfile.mkdtemp(prefix="verif-%s-" % prefix)

    def __enter__(self):
        return self.dir

    def __exit__(self, *a):
        shutil.rmtree(self.dir, ignore_errors=True)


def gen_corpus(gen, outdir, tier, seed, extra=()):
    args = [common.tool_path(gen), "-out", outdir, "-seed", str(seed), "-harness", common.HARNESS] + list(extra)
    if tier == "thorough":
        args.append("-thorough")
    common.sh(args, check=True, timeout=600)
    st = os.path.join(outdir, "stats.json")
    return json.load(open(st)) if os.path.exists(st) else {}


def _sh(cmd, cwd, timeout):
    """common.sh, but output that is not UTF-8 (goderive printing half a letter) is kept, not a crash of the check."""
    return subprocess.run(cmd, cwd=cwd, env=common.GOENV, timeout=timeout, stdout=subprocess.PIPE, stderr=subprocess.PIPE,
                          text=True, errors="backslashreplace")


def goderive(binp, cwd, args, timeout=20, mem_gb=4):
    t = time.time()
    # as common.run_goderive: wall-clock and memory limit, goderive exec'd in place of the shell so that the timeout
    # kill hits goderive itself
    pre = "ulimit -v %d; exec " % (mem_gb * 1024 * 1024)
    cmd = ["bash", "-c", pre + " ".join(["'%s'" % binp] + ["'%s'" % a for a in args])]
    try:
        p = _sh(cmd, cwd, timeout)
        rc, out, to = p.returncode, p.stderr + p.stdout, False
    except subprocess.TimeoutExpired:
        rc, out, to = -1, "timeout", True
    return {"rc": rc, "out": out, "timeout": to, "secs": round(time.time() - t, 2)}


def par(fn, items, workers=WORKERS):
    with concurrent.futures.ThreadPoolExecutor(max_workers=workers) as ex:
        return list(ex.map(fn, items))


def sha_file(path):
    try:
        with open(path, "rb") as f:
            return hashlib.sha256(f.read()).hexdigest()
    except FileNotFoundError:
        return "absent"
    except IsADirectoryError:
        return "dir"


def snapshot(root):
    """{relative path: (mode, size, sha256)} of everything under root (directories included)."""
    out = {}
    for d, dirs, files in os.walk(root):
        dirs.sort()
        for n in dirs:
            p = os.path.join(d, n)
            out[os.path.relpath(p, root) + "/"] = (oct(os.lstat(p).st_mode), 0, "dir")
        for n in sorted(files):
            p = os.path.join(d, n)
            st = os.lstat(p)
            out[os.path.relpath(p, root)] = (oct(st.st_mode), st.st_size, sha_file(p))
    return out


def snapshot_diff(before, after):
    """[(kind, path)] with kind in created / deleted / modified / chmod."""
    out = []
    for p in sorted(set(before) | set(after)):
        if p not in before:
            out.append(("created", p))
        elif p not in after:
            out.append(("deleted", p))
        elif before[p][2] != after[p][2] or before[p][1] != after[p][1]:
            out.append(("modified", p))
        elif before[p][0] != after[p][0]:
            out.append(("chmod", p))
    return out


def read_tree(root, max_bytes=20000):
    """Small text snapshot of a package tree for replay files."""
    out = {}
    for d, dirs, files in os.walk(root):
        for n in sorted(files):
            p = os.path.join(d, n)
            try:
                b = open(p, "rb").read(max_bytes)
            except OSError:
                continue
            out[os.path.relpath(p, root)] = b.decode("utf-8", errors="backslashreplace")
    return out


def write_tree(root, files):
    for rel, text in files.items():
        p = os.path.join(root, rel)
        os.makedirs(os.path.dirname(p), exist_ok=True)
        with open(p, "wb") as f:
            f.write(text.encode("utf-8", errors="backslashreplace"))


# ---------------------------------------------------------------- T3 tie of G/Imports.lean


def import_tie(rep, n):
    """Drives the real import table of derive/printer.go through the verif hooks with n seeded random request
    sequences and has the Lean kernel check (`by decide`) that the model of G/Imports.lean computes exactly
    the aliases / table / panic the code produced. Returns the number of validated sequences."""
    h = common.repo_hash()
    d = os.path.join(common.WORK, "runs-" + h + "-" + common.hash_tree(common.HARNESS, ["runs"]))
    binp = os.path.join(d, "importtie.bin")
    with common.Lock("runs-" + h):
        if not os.path.exists(binp):
            shutil.rmtree(d, ignore_errors=True)
            shutil.copytree(os.path.join(common.HARNESS, "runs"), os.path.join(d, "src"))
            gm = os.path.join(d, "src", "go.mod")
            txt = open(gm).read().replace("=> /repo", "=> " + common.REPO)
            with open(gm, "w") as f:
                f.write(txt)
            shutil.copy(os.path.join(common.REPO, "go.sum"), os.path.join(d, "src", "go.sum"))
            p = common.sh(["go", "build", "-tags", "verif", "-o", binp, "./importtie"], cwd=os.path.join(d, "src"), timeout=900)
            if p.returncode != 0:
                raise common.CheckError("importtie does not build against %s (verif hooks missing?):\n%s" % (common.REPO, p.stderr[-3000:]))
            for x in os.listdir(common.WORK):
                if x.startswith("runs-") and not x.endswith(".lock") and os.path.join(common.WORK, x) != d:
                    shutil.rmtree(os.path.join(common.WORK, x), ignore_errors=True)
    with Scratch("tie") as sd:
        lean_file = os.path.join(sd, "ImportTie.lean")
        p = common.sh([binp, "-seed", str(rep.seed), "-n", str(n), "-out", lean_file], timeout=300)
        if p.returncode != 0:
            rep.violation("the real import table broke an assumption of the tie (an entry changed or two entries were added by one call): " + p.stderr[-400:],
                          {"correspondence": "T3 importtie", "log": p.stderr[-2000:]}, False)
            return 0
        stats = json.loads(p.stdout.strip().splitlines()[-1])
        with common.Lock("lake"):
            q = common.sh(["lake", "env", "lean", lean_file], cwd=common.LEAN, env=dict(os.environ), timeout=1800)
        rep.cov["import_tie"] = stats
        if q.returncode != 0:
            src = open(lean_file).read().splitlines()
            bad = sorted(set(int(m.group(1)) for m in re.finditer(r"ImportTie\.lean:(\d+):", q.stdout + q.stderr)))
            first = src[bad[0] - 1] if bad and bad[0] - 1 < len(src) else ""
            rep.violation("correspondence T3 broken: the model of G/Imports.lean does not compute what derive/printer.go did on %d of %d sequences; first (what the CODE did, stated about the model): %s" % (
                len(bad), stats["sequences"] + stats["unvendor_cases"], first[:600]),
                {"correspondence": "T3 importtie (G/Imports.lean vs derive/printer.go)", "failing_examples": [src[i - 1] for i in bad[:10] if i - 1 < len(src)],
                 "log": (q.stdout + q.stderr)[-3000:]}, False)
            return 0
        return stats["sequences"] + stats["unvendor_cases"]


# ---------------------------------------------------------------- strace

MUTATING = re.compile(r"^(\d+)\s+(openat|open|creat|unlink|unlinkat|rename|renameat|renameat2|mkdir|mkdirat|rmdir|chmod|fchmodat|"
                      r"chown|fchownat|lchown|truncate|symlink|symlinkat|link|linkat|utimensat|mknod|mknodat)\((.*)$")


def strace_mutations(log_path, cwd):
    """Parses an `strace -f -e trace=file` log: returns [(syscall, absolute path, flags, ok)] for every
    call that can create / modify / delete a file-system object. Reads are skipped."""
    out = []
    pend = {}
    for line in open(log_path, errors="replace"):
        line = line.rstrip("\n")
        m = re.match(r"^(\d+)\s+(.*) <unfinished \.\.\.>$", line)
        if m:
            pend[m.group(1)] = m.group(2)
            continue
        m = re.match(r"^(\d+)\s+<\.\.\. \w+ resumed>(.*)$", line)
        if m and m.group(1) in pend:
            line = m.group(1) + " " + pend.pop(m.group(1)) + m.group(2)
        m = MUTATING.match(line)
        if not m:
            continue
        sc, rest = m.group(2), m.group(3)
        paths = re.findall(r'"((?:[^"\\]|\\.)*)"', rest)
        ok = not re.search(r"= -1 E", rest)
        flags = ""
        if sc in ("open", "openat"):
            fm = re.search(r'",\s*([A-Z_|0-9x]+)', rest)
            flags = fm.group(1) if fm else ""
            if not re.search(r"O_WRONLY|O_RDWR|O_CREAT|O_TRUNC|O_APPEND", flags):
                continue
        # *at calls: a path is relative to the directory of the descriptor given before it (strace -y prints it as N</dir>)
        base = cwd
        bm = re.match(r"\s*(?:AT_FDCWD|\d+)<([^>]*)>", rest)
        if bm and sc.endswith("at") or bm and sc in ("renameat2",):
            base = bm.group(1)
        for p in paths[:2] if sc.startswith(("rename", "link", "symlink")) else paths[:1]:
            if not os.path.isabs(p):
                p = os.path.normpath(os.path.join(base, p))
            out.append((sc, p, flags, ok))
    return out


def run_strace(binp, cwd, args, log, timeout=60):
    cmd = ["strace", "-f", "-y", "-e", "trace=file", "-o", log, binp] + list(args)
    try:
        p = _sh(cmd, cwd, timeout)
        return {"rc": p.returncode, "out": p.stderr + p.stdout, "timeout": False}
    except subprocess.TimeoutExpired:
        return {"rc": -1, "out": "timeout", "timeout": True}


# ---------------------------------------------------------------- known findings


def known_classes(prop):
    """Unfixed findings listed in known_findings.json for this property: {class id: entry}. An entry
    matches a violation class through its "class" key (status must be "known")."""
    try:
        kf = json.load(open(os.path.join(common.VERIF, "known_findings.json")))
    except (OSError, ValueError):
        return {}
    out = {}
    for e in kf.get("findings", []):
        if e.get("status") == "known" and (e.get("property") == prop or prop in e.get("also", [])):
            wc = e.get("witness_class") or []
            for cid in ([e["class"]] if e.get("class") else []) + ([wc] if isinstance(wc, str) else list(wc)):
                out[cid] = e
    # findings of this family's generators that are reported to the coordinator but not yet triaged into
    # known_findings.json / repaired (harness/runs/pending_findings.json, witness in .work/new-defects-runs.md):
    # printed as KNOWN-FINDING lines on every run, never silently dropped
    try:
        pend = json.load(open(os.path.join(common.HARNESS, "runs", "pending_findings.json")))
    except (OSError, ValueError):
        pend = {"findings": []}
    for e in pend.get("findings", []):
        if (e.get("property") == prop or prop in e.get("also", [])) and e.get("class") and e["class"] not in out:
            out[e["class"]] = dict(e, id="PENDING " + e.get("id", "?"))
    return out


def report_classes(rep, prop, classes):
    """classes: {class id: {"what", "count", "replay": obj, "found": bool}} -> VIOLATION or KNOWN-FINDING."""
    known = known_classes(prop)
    rep.cov["violation_classes"] = {k: v["count"] for k, v in classes.items()}
    for cid in sorted(classes):
        c = classes[cid]
        if cid in known:
            rep.known.append("%s [%s] %s (%d cases on this run; witness replayed)" % (
                known[cid].get("id", "?"), cid, c["what"][:300], c["count"]))
            continue
        obj = dict(c["replay"])
        obj["class"] = cid
        obj["cases_in_class"] = c["count"]
        rep.violation("[%s] %s (%d cases)" % (cid, c["what"], c["count"]), obj, c.get("found", True))
