"""Stage 2 of the C06 check: the texts returned by the derived GoString functions (stage 1 = the
corpus program's answers) are assembled into a second Go program, one function per distinct
(type, text), each text on known lines; the program is compiled by the real Go compiler inside the
corpus module (so it imports the types' packages — `corpus/p`, `corpus/ext`, `corpus/ext3/v2` (package ext3),
`corpus/go-lib` (package golib) — under their DECLARED names, which is what the texts must use), run, and prints per op the canonical observation of the evaluated value plus
`eq=` reflect.DeepEqual(original, evaluated). A text the compiler rejects is attributed to its op by
the file:line of the diagnostics, replaced by a stub, and the rest is still evaluated."""
import json
import os
import re
import shutil
import subprocess
import time

from vlib import common

NPKG = 8
VERSION = 4   # bump when the assembler changes: cached stage-2 results of older versions are redone
MAX_ROUNDS = 40


def _hex_text(h):
    try:
        return bytes.fromhex(h).decode("utf-8", errors="surrogateescape")
    except ValueError:
        return None


def assemble(cdir, stage1="stage1.txt"):
    """Reads ops.txt + stage-1 answers; returns the list of distinct texts [(tyname, text, [ids])] and
    the map id -> word for ops without a text."""
    texts, index, words = [], {}, {}
    with open(os.path.join(cdir, "ops.txt")) as fo, open(os.path.join(cdir, stage1)) as fi:
        for op, li in zip(fo, fi):
            f = op.split(" ", 4)
            i1, d = common.parse_kv(li)
            if i1 != f[1]:
                raise common.CheckError("stage 1 out of step at op %s (%s)" % (f[1], i1))
            a = d.get("impl")
            if a is None or a == "panic" or a.startswith("panic:"):
                words[f[1]] = "panic1"
                continue
            t = _hex_text(a)
            if t is None:
                words[f[1]] = "bad-stage1-answer"
                continue
            k = (f[3], t)
            if k not in index:
                index[k] = len(texts)
                texts.append([f[3], t, []])
            texts[index[k]][2].append(f[1])
    return texts, words


class Stage2:
    def __init__(self, cdir, texts, words):
        self.cdir, self.texts, self.words = cdir, texts, words
        self.dir = os.path.join(cdir, "stage2")
        self.bad = {}          # text index -> compiler message
        n = len(texts)
        self.npkg = max(1, min(NPKG, (n + 199) // 200))
        self.chunk = (n + self.npkg - 1) // self.npkg if n else 1
        self.lines = {}        # pkg -> list of (first line, last line, text index)

    def pkg_of(self, k):
        return k // self.chunk

    def write_pkg(self, pi):
        lo, hi = pi * self.chunk, min(len(self.texts), (pi + 1) * self.chunk)
        hdr = os.path.join(self.dir, "header.txt")   # written by gengostring: imports of every type package
        if os.path.exists(hdr):
            header = open(hdr).read().rstrip("\n").split("\n")
        else:
            header = ["import (", "\t\"reflect\"", "", "\t\"corpus/ext\"", "\t\"corpus/p\"", ")", "", "var _ ext.XN", "var _ p.NI"]
        out = ["// Code assembled by the C06 check from the texts returned by derived GoString. DO NOT EDIT.",
               "package ev%d" % pi, ""] + header + ["",
               "var Fns = []func() reflect.Value{" + ", ".join("f%d" % k for k in range(lo, hi)) + "}", ""]
        spans = []
        for k in range(lo, hi):
            tn, text, ids = self.texts[k]
            if k in self.bad:
                out.append("func f%d() reflect.Value { panic(\"compile-error\") } // %s op %s" % (k, tn, ids[0]))
                out.append("")
                continue
            out.append("func f%d() reflect.Value { // %s op %s" % (k, tn, ids[0]))
            out.append("\tv :=")
            first = len(out) + 1
            body = text.split("\n")
            if body and body[-1] == "":
                body.pop()
            out.extend(body)
            spans.append((first - 1, len(out) + 1, k))   # include the `v :=` line and the return line
            out.append("\treturn reflect.ValueOf(&v).Elem()")
            out.append("}")
            out.append("")
        self.lines[pi] = spans
        d = os.path.join(self.dir, "ev%d" % pi)
        os.makedirs(d, exist_ok=True)
        with open(os.path.join(d, "ev.go"), "w", encoding="utf-8", errors="surrogateescape") as f:
            f.write("\n".join(out))

    def write_all(self):
        for x in os.listdir(self.dir):
            if re.fullmatch(r"ev\d+", x):
                shutil.rmtree(os.path.join(self.dir, x))
        for pi in range(self.npkg):
            self.write_pkg(pi)
        imp = "".join("\t\"corpus/stage2/ev%d\"\n" % pi for pi in range(self.npkg))
        app = "".join("\tout = append(out, ev%d.Fns...)\n" % pi for pi in range(self.npkg))
        with open(os.path.join(self.dir, "fns.go"), "w") as f:
            f.write("package main\n\nimport (\n\t\"reflect\"\n\n%s)\n\nfunc fns() []func() reflect.Value {\n\tvar out []func() reflect.Value\n%s\treturn out\n}\n" % (imp, app))

    def attribute(self, stderr):
        """Maps compiler diagnostics `stage2/evN/ev.go:LINE:COL: msg` to text indices."""
        hit = {}
        for m in re.finditer(r"stage2/ev(\d+)/ev\.go:(\d+)(?::\d+)?: (.*)", stderr):
            pi, ln, msg = int(m.group(1)), int(m.group(2)), m.group(3)
            best = None
            for first, last, k in self.lines.get(pi, []):
                if first <= ln <= last:
                    best = k
                    break
            if best is None:
                # a diagnostic outside any text (cascading syntax error): blame the nearest text above
                prev = [s for s in self.lines.get(pi, []) if s[0] <= ln]
                if prev:
                    best = prev[-1][2]
            if best is not None and best not in hit:
                hit[best] = msg[:200]
        return hit

    def syntax_filter(self):
        """Texts that are not Go expressions at all (go/parser.ParseExpr) are marked before compiling."""
        inp = "".join(t[1].encode("utf-8", errors="surrogateescape").hex() + "\n" for t in self.texts)
        p = subprocess.run([common.tool_path("gengostring"), "-checksyntax"], input=inp.encode(), stdout=subprocess.PIPE,
                           stderr=subprocess.PIPE, timeout=600)
        out = p.stdout.decode("utf-8", errors="replace").split("\n")
        if p.returncode != 0 or len(out) < len(self.texts):
            raise common.CheckError("gengostring -checksyntax failed: " + p.stderr.decode(errors="replace")[-500:])
        for k, l in enumerate(out[:len(self.texts)]):
            if l != "ok":
                self.bad[k] = "syntax: " + l[4:204]

    def build(self):
        """Compiles; stubs out rejected texts and retries. Returns (ok, log)."""
        self.syntax_filter()
        self.write_all()
        log = ""
        for rnd in range(MAX_ROUNDS):
            p = subprocess.run(["go", "build", "-gcflags=corpus/stage2/...=-e", "-o", "stage2.bin", "./stage2"], cwd=self.cdir, timeout=3000,
                               env=common.GOENV, stdout=subprocess.PIPE, stderr=subprocess.PIPE)
            if p.returncode == 0:
                return True, log
            err = p.stderr.decode("utf-8", errors="replace")   # rejected texts may hold arbitrary bytes
            log = err[-6000:]
            hit = self.attribute(err)
            hit = {k: v for k, v in hit.items() if k not in self.bad}
            if not hit:
                return False, log
            self.bad.update(hit)
            for pi in sorted(set(self.pkg_of(k) for k in hit)):
                self.write_pkg(pi)
        return False, log

    def write_idx(self):
        with open(os.path.join(self.cdir, "idx.txt"), "w") as f:
            for k, (tn, text, ids) in enumerate(self.texts):
                for i in ids:
                    f.write("%s %s\n" % (i, "compile-error" if k in self.bad else k))
            for i, w in self.words.items():
                f.write("%s %s\n" % (i, w))

    def run(self):
        self.write_idx()
        with open(os.path.join(self.cdir, "ops.txt")) as fin, open(os.path.join(self.cdir, "impl.txt"), "w") as fout:
            env = dict(common.GOENV)
            env["GOMEMLIMIT"] = "4GiB"
            pr = subprocess.run([os.path.join(self.cdir, "stage2.bin"), os.path.join(self.cdir, "idx.txt"),
                                 os.path.join(self.cdir, "stage1.txt")],
                                stdin=fin, stdout=fout, stderr=subprocess.PIPE, env=env, timeout=3600)
        return pr.returncode, pr.stderr.decode(errors="replace")[-2000:]


def stage2(info):
    """Runs stage 2 on a prepared corpus (idempotent: the stage-1 answers are kept in stage1.txt and
    impl.txt is replaced by the stage-2 answers). Returns a dict with what happened."""
    cdir = info["dir"]
    mark = os.path.join(cdir, "stage2.json")
    with common.Lock("corpus-" + os.path.basename(cdir) + "-s2"):
        if os.path.exists(mark):
            r = json.load(open(mark))
            if r.get("tag") == info.get("tag") and r.get("version") == VERSION:
                return r
        t0 = time.time()
        s1 = os.path.join(cdir, "stage1.txt")
        if not os.path.exists(s1):
            os.rename(os.path.join(cdir, "impl.txt"), s1)
        texts, words = assemble(cdir)
        s = Stage2(cdir, texts, words)
        ok, log = s.build()
        r = {"tag": info.get("tag"), "version": VERSION, "distinct_texts": len(texts), "stage1_panics": len(words), "build_ok": ok,
             "build_log": log if not ok else "", "packages": s.npkg,
             "compile_errors": [{"type": texts[k][0], "ops": texts[k][2][:5], "text": texts[k][1][:1500], "error": msg}
                                for k, msg in sorted(s.bad.items())][:3000],
             "n_compile_errors": len(s.bad)}
        if ok:
            rc, err = s.run()
            r["run_rc"], r["run_err"] = rc, err
        r["wall_s"] = round(time.time() - t0, 2)
        json.dump(r, open(mark, "w"), indent=1)
        return r


def text_of(info, opid):
    """The text stage 1 returned for an op id (for replay files)."""
    with open(os.path.join(info["dir"], "stage1.txt")) as f:
        for li in f:
            i, d = common.parse_kv(li)
            if i == str(opid):
                return _hex_text(d.get("impl", "")) or d.get("impl")
    return None


# ---------------------------------------------------------------- probe: two imported packages with one name

PROBE_FILES = {
    "go.mod": "module probe\n\ngo 1.24\n",
    "a/ext/x.go": "package ext\n\ntype T struct{ A int }\n",
    "b/ext/x.go": "package ext\n\ntype T struct{ B string }\n",
    "p/p.go": "package p\n\nimport (\n\taext \"probe/a/ext\"\n\tbext \"probe/b/ext\"\n)\n\n"
              "// Two has exported fields whose types come from two packages that are both named ext.\n"
              "type Two struct {\n\tX aext.T\n\tY *bext.T\n}\n\n"
              "func Orig() *Two { return &Two{X: aext.T{A: 1}, Y: &bext.T{B: \"x\"}} }\n",
    "q/q.go": "package q\n\nimport \"probe/p\"\n\nfunc GoString(x *p.Two) string { return deriveGoString(x) }\n",
    "m/main.go": "package main\n\nimport (\n\t\"fmt\"\n\n\t\"probe/p\"\n\t\"probe/q\"\n)\n\n"
                 "func main() { fmt.Print(q.GoString(p.Orig())) }\n",
}

PROBE_STAGE2 = """package main

import (
\t"fmt"
\t"reflect"

\t"probe/p"
%s)

var _ p.Two

func main() {
\tv :=
%s
\tfmt.Println(reflect.DeepEqual(v, p.Orig()))
}
"""


def probe_pkgname():
    """Type `Two struct{X aext.T; Y *bext.T}` where both imported packages are NAMED ext: the text prints
    both as `ext.T` (TypeStringBypass qualifies by package name). Tries every way an importing package can
    bind the name `ext`. Returns {"ok": bool, "text": str, "errors": [...]} ; ok = some variant compiled
    and evaluated to a DeepEqual value."""
    d, binp = common.build_goderive()
    pd = os.path.join(d, "gostring-probe")
    with common.Lock("gostring-probe"):
        mark = os.path.join(pd, "result.json")
        if os.path.exists(mark):
            return json.load(open(mark))
        shutil.rmtree(pd, ignore_errors=True)
        for rel, body in PROBE_FILES.items():
            os.makedirs(os.path.dirname(os.path.join(pd, rel)), exist_ok=True)
            with open(os.path.join(pd, rel), "w") as f:
                f.write(body)
        rc, err, to = common.run_goderive(binp, pd, ["./q"], timeout=120)
        if rc != 0:
            r = {"ok": False, "text": "", "errors": ["goderive failed on the probe package: " + err[-500:]], "generated": False}
            json.dump(r, open(mark, "w"))
            return r
        p1 = subprocess.run(["go", "run", "./m"], cwd=pd, env=common.GOENV, stdout=subprocess.PIPE, stderr=subprocess.PIPE, timeout=600)
        if p1.returncode != 0:
            raise common.CheckError("probe stage 1 failed: " + p1.stderr.decode(errors="replace")[-800:])
        text = p1.stdout.decode("utf-8", errors="replace")
        errors, ok = [], False
        variants = {"ext=a/ext": '\t"probe/a/ext"\n', "ext=b/ext": '\t"probe/b/ext"\n'}
        for name, imports in variants.items():
            m2 = os.path.join(pd, "m2")
            os.makedirs(m2, exist_ok=True)
            with open(os.path.join(m2, "main.go"), "w") as f:
                f.write(PROBE_STAGE2 % (imports, text.rstrip("\n")))
            p2 = subprocess.run(["go", "run", "./m2"], cwd=pd, env=common.GOENV, stdout=subprocess.PIPE, stderr=subprocess.PIPE, timeout=600)
            if p2.returncode == 0 and p2.stdout.decode().strip() == "true":
                ok = True
                break
            errors.append(name + ": " + (p2.stderr.decode(errors="replace").strip().split("\n") + [""])[1 if p2.returncode else 0][:300]
                          if p2.returncode else name + ": evaluates to a different value")
        r = {"ok": ok, "text": text, "errors": errors, "generated": True}
        json.dump(r, open(mark, "w"))
        return r
