"""Shared machinery of the /verif checks: rebuilds from /repo's working tree, Lean build + axiom
audit, corpus runs (T1), evidence and violation reporting."""
import fcntl
import hashlib
import json
import os
import re
import shutil
import subprocess
import sys
import tempfile
import time

VERIF = os.path.dirname(os.path.dirname(os.path.abspath(__file__)))
REPO = os.environ.get("VERIF_REPO", "/repo")
WORK = os.path.join(VERIF, ".work")
LEAN = os.path.join(VERIF, "lean")
HARNESS = os.path.join(VERIF, "harness")
ALLOWED_AXIOMS = {"propext", "Classical.choice", "Quot.sound"}

GOENV = dict(os.environ)
GOENV.update({"GOPROXY": "off", "GOFLAGS": "-mod=mod", "GOTOOLCHAIN": "auto"})
GOENV.pop("GOSUMDB", None)  # GOSUMDB=off breaks the switch to the cached go1.24.0 toolchain


class CheckError(Exception):
    """The machinery itself could not run (not a verdict about the property)."""


def sh(cmd, cwd=None, env=None, timeout=None, input=None, check=False):
    p = subprocess.run(cmd, cwd=cwd, env=env or GOENV, timeout=timeout, input=input,
                       stdout=subprocess.PIPE, stderr=subprocess.PIPE, text=True, errors="backslashreplace")
    if check and p.returncode != 0:
        raise CheckError("command failed: %s\n%s\n%s" % (cmd, p.stdout[-2000:], p.stderr[-4000:]))
    return p


class Lock:
    def __init__(self, name):
        os.makedirs(WORK, exist_ok=True)
        self.path = os.path.join(WORK, name + ".lock")

    def __enter__(self):
        self.f = open(self.path, "w")
        fcntl.flock(self.f, fcntl.LOCK_EX)
        return self

    def __exit__(self, *a):
        fcntl.flock(self.f, fcntl.LOCK_UN)
        self.f.close()


def hash_tree(root, subs, exts=(".go", ".mod", ".sum", ".lean", ".toml")):
    h = hashlib.sha256()
    for sub in subs:
        p = os.path.join(root, sub)
        if os.path.isfile(p):
            files = [p]
        else:
            files = []
            for d, dirs, fs in os.walk(p):
                dirs[:] = [x for x in dirs if x not in (".lake", ".git")]
                for f in fs:
                    if f.endswith(exts):
                        files.append(os.path.join(d, f))
        for f in sorted(files):
            h.update(os.path.relpath(f, root).encode())
            with open(f, "rb") as fh:
                h.update(fh.read())
    return h.hexdigest()[:16]


def repo_hash():
    h = hash_tree(REPO, ["main.go", "derive", "plugin", "go.mod"])
    # VERIF_COVER=1 (with GOCOVERDIR set): an instrumented goderive, cached apart from the plain one; used by
    # tools/coverage.sh to find source branches of the generator that no corpus reaches (not by any registered check)
    return h + "c" if os.environ.get("VERIF_COVER") else h


def build_goderive():
    """Builds goderive (and the verif-tagged hook driver when present) from /repo's working tree."""
    h = repo_hash()
    d = os.path.join(WORK, "repo-" + h)
    with Lock("build-" + h):
        binp = os.path.join(d, "goderive")
        if not os.path.exists(binp):
            os.makedirs(d, exist_ok=True)
            env = dict(GOENV)
            env["GOFLAGS"] = ""
            cover = ["-cover", "-coverpkg=github.com/awalterschulze/goderive/..."] if os.environ.get("VERIF_COVER") else []
            p = sh(["go", "build"] + cover + ["-o", binp + ".tmp", "."], cwd=REPO, env=env, timeout=600)
            if p.returncode != 0:
                raise CheckError("goderive does not build from %s:\n%s" % (REPO, p.stderr[-4000:]))
            os.rename(binp + ".tmp", binp)
    prune_work(keep=d)
    return d, binp


def prune_work(keep):
    """Keeps the build cache small: repo-* directories not used for 3 hours are removed (never one
    that may still be in use by a concurrent check), at most 8 are kept."""
    try:
        now = time.time()
        ds = [os.path.join(WORK, x) for x in os.listdir(WORK) if x.startswith("repo-")]
        ds = [x for x in ds if x != keep]
        ds.sort(key=lambda x: os.path.getmtime(x))
        old = [x for x in ds if now - os.path.getmtime(x) > 3 * 3600]
        extra = [x for x in ds if x not in old][:-7] if len(ds) - len(old) > 7 else []
        for x in old + [e for e in extra if now - os.path.getmtime(e) > 1800]:
            shutil.rmtree(x, ignore_errors=True)
        os.utime(keep, None)
    except OSError:
        pass


def build_tools():
    """Builds the harness commands (gencorpus, …) into .work/tools-<hash>/. A command that does not
    build is skipped here (its error is kept in <name>.err) and reported by tool_path when needed."""
    h = hash_tree(HARNESS, ["."])
    d = os.path.join(WORK, "tools-" + h)
    with Lock("tools"):
        if not os.path.exists(os.path.join(d, ".done")):
            os.makedirs(d, exist_ok=True)
            for c in sorted(os.listdir(os.path.join(HARNESS, "cmd"))):
                p = sh(["go", "build", "-o", os.path.join(d, c), "./cmd/" + c], cwd=HARNESS, timeout=600)
                if p.returncode != 0:
                    with open(os.path.join(d, c + ".err"), "w") as f:
                        f.write(p.stderr[-4000:])
            open(os.path.join(d, ".done"), "w").close()
            for x in os.listdir(WORK):
                if x.startswith("tools-") and os.path.join(WORK, x) != d:
                    shutil.rmtree(os.path.join(WORK, x), ignore_errors=True)
    return d


def tool_path(name):
    d = build_tools()
    p = os.path.join(d, name)
    if not os.path.exists(p):
        err = ""
        if os.path.exists(p + ".err"):
            err = open(p + ".err").read()
        raise CheckError("harness tool %s does not build:\n%s" % (name, err))
    return p


# ---------------------------------------------------------------- Lean

FORBIDDEN = re.compile(r"\b(sorry|admit|native_decide|bv_decide|implemented_by|unsafe)\b|^\s*axiom\s|maxHeartbeats\s+0")


def lean_sources():
    out = []
    for d, dirs, fs in os.walk(LEAN):
        dirs[:] = [x for x in dirs if x != ".lake"]
        for f in fs:
            if f.endswith(".lean"):
                out.append(os.path.join(d, f))
    return sorted(out)


def strip_comments(src):
    src = re.sub(r"/-.*?-/", "", src, flags=re.S)
    return re.sub(r"--.*", "", src)


def lean_import_closure(modules):
    """Lean source files of the project reachable from the given modules through `import` lines."""
    seen, todo = {}, list(modules)
    while todo:
        m = todo.pop()
        if m in seen:
            continue
        path = os.path.join(LEAN, *m.split(".")) + ".lean"
        if not os.path.exists(path):
            continue
        seen[m] = path
        for imp in re.findall(r"^import\s+([A-Za-z0-9_.]+)", open(path).read(), flags=re.M):
            if imp.startswith("GoderiveModel") or imp.startswith("Driver"):
                todo.append(imp)
    return seen


def lean_grep_forbidden(modules=None):
    """sorry / axiom / native_decide … in the sources the given modules depend on (all sources if None)."""
    hits = []
    files = sorted(lean_import_closure(modules).values()) if modules else lean_sources()
    for f in files:
        if os.sep + "Driver" + os.sep in f or f.endswith("Wire.lean") or f.endswith("Canon.lean"):
            # the driver, the wire parser and the canonical printer use `partial` IO loops / parsers; they are not proofs
            continue
        body = strip_comments(open(f).read())
        for i, line in enumerate(body.splitlines(), 1):
            if FORBIDDEN.search(line):
                hits.append("%s:%d: %s" % (os.path.relpath(f, LEAN), i, line.strip()))
    return hits


def lean_build(targets=None):
    """lake build; returns (ok, log)."""
    with Lock("lake"):
        cmd = ["lake", "build"] + (targets or [])
        p = sh(cmd, cwd=LEAN, env=dict(os.environ), timeout=3600)
        return p.returncode == 0, (p.stdout + p.stderr)


def prop_modules(prop):
    """Props/<prop>.lean plus continuation files Props/<prop>b.lean, … (module names)."""
    d = os.path.join(LEAN, "GoderiveModel", "Props")
    out = []
    if os.path.isdir(d):
        for f in sorted(os.listdir(d)):
            if re.fullmatch(re.escape(prop) + r"[a-z]?\.lean", f):
                out.append("GoderiveModel.Props." + f[:-5])
    return out


def prop_theorems(prop):
    """Fully qualified names of the theorems declared in the property's Props files."""
    names = []
    for m in prop_modules(prop):
        body = strip_comments(open(os.path.join(LEAN, *m.split(".")) + ".lean").read())
        ns = []
        for line in body.splitlines():
            mm = re.match(r"\s*namespace\s+([A-Za-z0-9_.]+)", line)
            if mm:
                ns.append(mm.group(1))
                continue
            mm = re.match(r"\s*end\s+([A-Za-z0-9_.]+)\s*$", line)
            if mm and ns and ns[-1].split(".")[-1] == mm.group(1).split(".")[-1]:
                ns.pop()
                continue
            mm = re.match(r"\s*(?:protected\s+)?theorem\s+([A-Za-z0-9_'.]+)", line)
            if mm:
                names.append(".".join(ns + [mm.group(1)]))
    return names


def lean_audit(prop):
    """#print axioms for every property theorem. Returns dict name -> list of axioms (None = missing)."""
    names = prop_theorems(prop)
    if not names:
        return {}
    os.makedirs(os.path.join(WORK, "audit"), exist_ok=True)
    src = "".join("import %s\n" % m for m in prop_modules(prop))
    for n in names:
        src += "#print axioms %s\n" % n
    path = os.path.join(WORK, "audit", prop + ".lean")
    with open(path, "w") as f:
        f.write(src)
    with Lock("lake"):
        p = sh(["lake", "env", "lean", path], cwd=LEAN, env=dict(os.environ), timeout=1800)
    out = p.stdout + p.stderr
    res = {n: None for n in names}
    for m in re.finditer(r"'([^']+)' depends on axioms: \[([^\]]*)\]", out, flags=re.S):
        if m.group(1) in res:
            res[m.group(1)] = [a.strip() for a in m.group(2).replace("\n", " ").split(",") if a.strip()]
    for m in re.finditer(r"'([^']+)' does not depend on any axioms", out):
        if m.group(1) in res:
            res[m.group(1)] = []
    return res


def leanchecker(module):
    with Lock("lake"):
        p = sh(["lake", "env", "leanchecker", module], cwd=LEAN, env=dict(os.environ), timeout=3600)
    return p.returncode == 0, (p.stdout + p.stderr)[-2000:]


def driver_path():
    return os.path.join(LEAN, ".lake", "build", "bin", "driver")


# ---------------------------------------------------------------- reporting


class Report:
    """Collects what one check run covered and decided; writes the evidence file."""

    def __init__(self, prop, tier, seed, level="proof"):
        self.prop, self.tier, self.seed, self.level = prop, tier, seed, level
        self.t0 = time.time()
        self.cov = {"evaluations": 0, "distinct_nontrivial": 0, "samples": [], "obligations": 0,
                    "discharged": 0, "checker_cmd": "", "trusted_base": [], "programs": 0,
                    "disagreements_checked": 0, "traces_validated_against_impl": 0}
        self.assumptions = []
        self.violations = []      # (message, replay path)
        self.known = []           # KNOWN-FINDING lines
        self.notes = []

    def violation(self, what, replay_obj, found_input):
        rdir = os.path.join(VERIF, "evidence", "replays") if REPO == "/repo" else os.path.join(WORK, "evidence-alt", "replays")
        os.makedirs(rdir, exist_ok=True)
        path = os.path.join(rdir,
                            "%s-%d-%d.json" % (self.prop, self.seed, len(self.violations)))
        replay_obj = dict(replay_obj)
        replay_obj.update({"property": self.prop, "what": what, "failing_input_found": found_input,
                           "tier": self.tier, "seed": self.seed})
        with open(path, "w") as f:
            json.dump(replay_obj, f, indent=1)
        self.violations.append((what, path, found_input))

    def finish(self):
        self.cov["samples"] = self.cov["samples"][:8]
        ev = {"property_id": self.prop, "tier": self.tier, "seed": self.seed, "level": self.level,
              "coverage": self.cov, "assumptions": self.assumptions,
              "wall_s": round(time.time() - self.t0, 2), "violations": len(self.violations),
              "known_findings_replayed": self.known, "notes": self.notes,
              "repo_hash": repo_hash()}
        # runs against another tree (VERIF_REPO set: seeded-change experiments) never overwrite the evidence of /repo
        evdir = os.path.join(VERIF, "evidence") if REPO == "/repo" else os.path.join(WORK, "evidence-alt")
        os.makedirs(evdir, exist_ok=True)
        with open(os.path.join(evdir, self.prop + ".json"), "w") as f:
            json.dump(ev, f, indent=1)
        for k in self.known:
            print("KNOWN-FINDING: property=%s %s" % (self.prop, k))
        for what, path, found in self.violations:
            tail = "" if found else " no-failing-input-found"
            print("VIOLATION property=%s replay=%s%s" % (self.prop, path, tail))
            print("  " + what)
        if self.violations:
            return 1
        print("OK %s tier=%s seed=%d evaluations=%d obligations=%d/%d wall=%.1fs" % (
            self.prop, self.tier, self.seed, self.cov["evaluations"], self.cov["discharged"],
            self.cov["obligations"], time.time() - self.t0))
        return 0


TRUSTED_COMMON = [
    "Lean 4.33.0 kernel (lake build; leanchecker re-check in the thorough tier)",
    "axioms allowed: propext, Classical.choice, Quot.sound (audited per theorem by #print axioms)",
    "the hand-written Lean model of the emitted code / generator, tied to /repo by the correspondence runs of this check",
    "the Go harness (corpus generator, reflection value builder/observer, line protocol) and the Go toolchain",
]


def proof_part(rep, prop, thorough_checker=False):
    """Builds the Lean project, audits the property's theorems. Records obligations/discharged.
    A failing build or a bad axiom is a violation without failing input (the caller may then search)."""
    mods = prop_modules(prop)
    hits = lean_grep_forbidden(mods) if mods else []
    ok, log = lean_build(mods + ["driver"])
    names = prop_theorems(prop)
    rep.cov["checker_cmd"] = "cd lean && lake build GoderiveModel.Props.%s driver && lake env lean .work/audit/%s.lean  # #print axioms of every theorem in Props/%s.lean" % (prop, prop, prop)
    rep.cov["trusted_base"] = list(TRUSTED_COMMON)
    rep.cov["obligations"] = len(names)
    if hits:
        rep.violation("forbidden construct in Lean sources: " + "; ".join(hits[:5]), {"lean": hits}, False)
    if not ok:
        err = [l for l in log.splitlines() if "error" in l][:10]
        rep.violation("lake build failed: the Lean development no longer checks: " + " | ".join(err),
                      {"theorem": "lake build", "log": log[-6000:]}, False)
        return False
    if not names:
        rep.violation("no property theorems found for %s" % prop, {"theorem": "Props/%s.lean" % prop}, False)
        return False
    ax = lean_audit(prop)
    good = 0
    rep.cov["theorems"] = {}
    for n in names:
        a = ax.get(n)
        rep.cov["theorems"][n] = a
        if a is None:
            rep.violation("theorem %s not found by the audit" % n, {"theorem": n}, False)
        elif set(a) - ALLOWED_AXIOMS:
            rep.violation("theorem %s depends on non-allowed axioms %s" % (n, a), {"theorem": n, "axioms": a}, False)
        else:
            good += 1
    rep.cov["discharged"] = good
    if thorough_checker:
        okc, logc = True, ""
        for m in mods:
            o, l = leanchecker(m)
            okc, logc = okc and o, logc + l
        rep.cov["leanchecker"] = "ok" if okc else logc
        rep.cov["checker_cmd"] += " && lake env leanchecker GoderiveModel.Props." + prop
        if not okc:
            rep.violation("leanchecker rejects GoderiveModel.Props.%s" % prop, {"theorem": "leanchecker", "log": logc}, False)
    return good == len(names)


# ---------------------------------------------------------------- T1 corpus runs


def corpus_dir(tier, seed, plugins, gen="gencorpus"):
    d, _ = build_goderive()
    return os.path.join(d, "%s-%s-%d-%s" % (gen, tier, seed, hashlib.sha1(",".join(plugins).encode()).hexdigest()[:8]))


def run_goderive(binp, cwd, args, timeout=120, mem_gb=4):
    """Runs the real goderive with a wall-clock and memory limit. Returns (rc, stderr, timed_out)."""
    pre = "ulimit -v %d; exec " % (mem_gb * 1024 * 1024)
    cmd = ["bash", "-c", pre + " ".join(["'%s'" % binp] + ["'%s'" % a for a in args])]
    try:
        p = sh(cmd, cwd=cwd, timeout=timeout)
        return p.returncode, p.stderr + p.stdout, False
    except subprocess.TimeoutExpired:
        return -1, "timeout", True


def prepare_corpus(tier, seed, plugins, gen="gencorpus", build_tags=None):
    """Generates the corpus for (tier, seed, plugins) with harness command `gen`, runs the real goderive
    from /repo on the packages it lists (pkgs.txt, default: the q<N> directories; extra goderive flags in
    goderive_args.txt), compiles the driver program, runs impl and model on all ops.
    Cached per repo hash. Returns a dict."""
    tools = build_tools()
    d, binp = build_goderive()
    cdir = corpus_dir(tier, seed, plugins, gen)
    tag = hash_tree(LEAN, ["GoderiveModel", "Driver"]) + tools[-8:]
    with Lock("corpus-" + os.path.basename(cdir)):
        info_path = os.path.join(cdir, "info.json")
        if os.path.exists(info_path):
            info = json.load(open(info_path))
            if info.get("tag") == tag:
                return info
        shutil.rmtree(cdir, ignore_errors=True)
        os.makedirs(cdir)
        args = [tool_path(gen), "-out", cdir, "-seed", str(seed), "-harness", HARNESS,
                "-plugins", ",".join(plugins)]
        if tier == "thorough":
            args.append("-thorough")
        sh(args, check=True, timeout=600)
        if os.path.exists(os.path.join(cdir, "pkgs.txt")):
            pkgs = open(os.path.join(cdir, "pkgs.txt")).read().split()
        else:
            pkgs = sorted(x for x in os.listdir(cdir) if re.fullmatch(r"q\d+", x))
        gargs = []
        if os.path.exists(os.path.join(cdir, "goderive_args.txt")):
            gargs = open(os.path.join(cdir, "goderive_args.txt")).read().split()
        info = {"dir": cdir, "tag": tag, "pkgs": pkgs, "stats": json.load(open(os.path.join(cdir, "stats.json")))}
        t = time.time()
        rc, err, to = run_goderive(binp, cdir, gargs + ["./" + p for p in pkgs], timeout=600, mem_gb=8)
        info["goderive_rc"], info["goderive_err"], info["goderive_timeout"] = rc, err[-3000:], to
        info["goderive_s"] = round(time.time() - t, 2)
        if rc == 0:
            p = sh(["go", "build"] + (["-tags", build_tags] if build_tags else []) + ["-o", "corpus.bin", "."], cwd=cdir, timeout=1800)
            info["build_rc"], info["build_err"] = p.returncode, p.stderr[-3000:]
            if p.returncode == 0:
                with open(os.path.join(cdir, "ops.txt")) as fin, open(os.path.join(cdir, "impl.txt"), "w") as fout:
                    env = dict(GOENV)
                    env["GOMEMLIMIT"] = "4GiB"
                    pr = subprocess.run([os.path.join(cdir, "corpus.bin")], stdin=fin, stdout=fout,
                                        stderr=subprocess.PIPE, env=env, timeout=3600)
                    info["impl_rc"] = pr.returncode
                    info["impl_err"] = pr.stderr.decode(errors="replace")[-2000:]
                with open(os.path.join(cdir, "model.txt"), "w") as fout:
                    cat = subprocess.Popen(["cat", os.path.join(cdir, "prelude.txt"), os.path.join(cdir, "ops.txt")],
                                           stdout=subprocess.PIPE)
                    pr = subprocess.run([driver_path()], stdin=cat.stdout, stdout=fout, stderr=subprocess.PIPE, timeout=3600)
                    cat.wait()
                    info["model_rc"] = pr.returncode
        json.dump(info, open(info_path, "w"), indent=1)
        return info


def parse_kv(line):
    """'<id> k=v k=v' -> (id, dict)"""
    parts = line.rstrip("\n").split(" ")
    d = {}
    for p in parts[1:]:
        if "=" in p:
            k, v = p.split("=", 1)
            d[k] = v
        else:
            d.setdefault("_", []).append(p)
    return parts[0], d


def compare_corpus(rep, info, opnames, classify=None, nontrivial=None, oracle=None, corr_only=()):
    """Diffs impl / model / spec answers for the ops named in opnames.
    classify(op_line, impl, model, spec) may return the id of a known finding.
    oracle(fields, impl) -> bool decides the property on the implementation's answer when the driver
    prints no spec= (ops in corr_only are outside the property's precondition: correspondence only)."""
    cdir = info["dir"]
    if info.get("goderive_rc") != 0:
        rep.violation("goderive failed on the supported corpus (exit %s%s): %s" % (
            info.get("goderive_rc"), ", timeout" if info.get("goderive_timeout") else "", info.get("goderive_err", "")[-500:]),
            {"corpus": cdir, "cmd": "goderive " + " ".join("./" + p for p in info["pkgs"])}, True)
        return
    if info.get("build_rc") != 0:
        rep.violation("emitted derived.gen.go does not compile: " + info.get("build_err", "")[:800],
                      {"corpus": cdir, "cmd": "go build ."}, True)
        return
    rep.cov["programs"] += len(info["pkgs"])
    mism_model, mism_spec = [], []
    distinct = set()
    n = 0
    with open(os.path.join(cdir, "ops.txt")) as fo, open(os.path.join(cdir, "impl.txt")) as fi, \
            open(os.path.join(cdir, "model.txt")) as fm:
        for op, li, lm in zip(fo, fi, fm):
            f = op.split(" ", 4)
            if f[2] not in opnames:
                continue
            n += 1
            i1, di = parse_kv(li)
            i2, dm = parse_kv(lm)
            if i1 != f[1] or i2 != f[1]:
                raise CheckError("line protocol out of step at op %s (%s / %s)" % (f[1], i1, i2))
            impl, model, spec = di.get("impl"), dm.get("model"), dm.get("spec")
            if model is None:
                raise CheckError("model driver rejected op %s: %s" % (f[1], lm.strip()))
            if nontrivial is None or nontrivial(f, impl, model, spec):
                distinct.add(hashlib.sha1(op.split(" ", 2)[2].encode()).digest()[:8])
            if len(rep.cov["samples"]) < 4 and n % 997 == 1:
                rep.cov["samples"].append({"op": op.strip()[:400], "impl": impl, "model": model, "spec": spec})
            if impl != model:
                mism_model.append((op, impl, model, spec))
            if f[2] in corr_only:
                pass
            elif spec is not None:
                if impl != spec:
                    mism_spec.append((op, impl, model, spec))
            elif oracle is not None:
                if not oracle(f, impl):
                    mism_spec.append((op, impl, model, spec))
    rep.cov["evaluations"] += n
    rep.cov["distinct_nontrivial"] += len(distinct)
    rep.cov["disagreements_checked"] += n
    known_hit = {}
    for op, impl, model, spec in mism_spec:
        k = classify(op, impl, model, spec) if classify else None
        if k:
            known_hit.setdefault(k, op)
            continue
        rep.violation("emitted code disagrees with the specification: impl=%s spec=%s model=%s on %s" % (
            impl, spec, model, op.strip()[:300]),
            {"corpus_seed": rep.seed, "op": op.strip(), "impl": impl, "model": model, "spec": spec,
             "types": os.path.join(cdir, "prelude.txt")}, True)
        if len(rep.violations) > 5:
            break
    spec_ops = set(op for op, *_ in mism_spec)
    rest = [m for m in mism_model if m[0] not in spec_ops]
    if rest:
        op, impl, model, spec = rest[0]
        rep.violation("correspondence T1 broken: emitted code and Lean model differ on %d ops (spec still satisfied on them), first: impl=%s model=%s on %s" % (
            len(rest), impl, model, op.strip()[:300]),
            {"correspondence": "T1 " + ",".join(sorted(opnames)), "op": op.strip(), "impl": impl, "model": model, "spec": spec}, False)
    return known_hit
