"""C01, helper-request tie: the set of functions the real goderive generates is exactly the set the Lean
model predicts.

Model: lean/GoderiveModel/G/Requests.lean (`requests pl env T` = the `GetFuncName` calls plugin `pl`
makes while generating the function for `T`; `closure` = `G/Worklist.run` instantiated with it), theorems
in Props/C01r.lean. Driver ops `reqs` (closure of one call) and `req1` (direct requests of one function).
Go side: harness/cmd/reqobserve (go/parser + go/types on the package with its derived.gen.go).

Two parts:
  A. ISOLATED packages, one derive call each (a seeded sample of corpus types x equal, compare, hash,
     deepcopy, clone; 1 in 8 of the equal/compare calls in the curried one-argument form): the generated
     function set must equal `closure [call]` exactly (missing / extra / duplicate = disagreement), and
     every generated function's body must call exactly the helpers `requests` lists for it.
  B. the shared corpus packages of C02-C05 (many calls per package, wrappers, curried forms): for every
     generated function over corpus types, the helpers its body calls (by the argument types at the call
     site) must be exactly `requests`; the package's function set must be the union of the closures of
     its roots; no function twice; every function reachable from the user's calls.

Comparison is modulo the identifications of the type universe U/Ty (int = int64, uint = uint64 = uintptr,
positional struct fields). Where typesMap's assignability fallback served a request by a function for an
assignable but not identical type list (reqobserve reports it per call), the package-level set comparison
accepts the predicted key as served by that function; the per-function comparison is by requested types
and is unaffected.
"""
import json
import os
import shutil
import tempfile

from vlib import common

ISO_PLUGINS = ["equal", "compare", "hash", "deepcopy", "clone"]


def _driver(prelude, ops):
    """Runs the Lean driver on prelude + ops; returns the model answers (list of sets of signatures)."""
    inp = prelude + "".join("op %d %s\n" % (i + 1, o) for i, o in enumerate(ops))
    p = common.sh([common.driver_path()], input=inp, timeout=3600, env=dict(os.environ))
    lines = p.stdout.splitlines()
    if p.returncode != 0 or len(lines) != len(ops):
        raise common.CheckError("model driver failed on the reqs ops (rc %s, %d answers for %d ops): %s" % (
            p.returncode, len(lines), len(ops), p.stderr[-500:]))
    out = []
    for i, (l, o) in enumerate(zip(lines, ops)):
        f = l.split(" ", 1)
        if f[0] != str(i + 1) or len(f) != 2 or not f[1].startswith("model="):
            raise common.CheckError("model driver rejected op %r: %s" % (o, l))
        out.append([x for x in f[1][6:].split("|") if x])
    return out


def _observe(tool, root, pkgs):
    obs = {}
    for i in range(0, len(pkgs), 400):
        p = common.sh([tool, "-observe", "-root", root] + pkgs[i:i + 400], timeout=1800)
        if p.returncode != 0:
            raise common.CheckError("reqobserve failed: " + p.stderr[-1000:])
        for l in p.stdout.splitlines():
            o = json.loads(l)
            obs[o["pkg"]] = o
    return obs


def _opname(f):
    """driver plugin name of a generated function (curried forms have one parameter)"""
    if f["plugin"] in ("equal", "compare") and f["arity"] == 1:
        return f["plugin"] + "c"
    return f["plugin"]


def _read(path, limit=8000):
    try:
        return open(path).read()[:limit]
    except OSError:
        return ""


def _function_level(rep, prelude, root, obs, label, stats):
    """every generated function over corpus types calls exactly the helpers `requests` lists"""
    todo = []
    for pkg in sorted(obs):
        o = obs[pkg]
        if o["types"] or o["parse"]:
            continue
        for f in o["funcs"]:
            if f["wire"] and f["plugin"]:
                todo.append((pkg, f))
            else:
                stats["functions_over_local_types"] += 1
    answers = _driver(prelude, ["req1 %s %s" % (_opname(f), f["wire"]) for _, f in todo])
    bad = 0
    for (pkg, f), pred in zip(todo, answers):
        got = sorted(set(c["sig"] for c in f["calls"]))
        stats["functions_compared"] += 1
        stats["helper_calls_compared"] += len(f["calls"])
        if sorted(pred) != got:
            bad += 1
            if bad <= 3:
                rep.violation(
                    "correspondence T-req broken (%s): the helpers called by generated function %s differ from the model's "
                    "requests: only in the model %s, only in the emitted code %s" % (
                        label, f["sig"], sorted(set(pred) - set(got)), sorted(set(got) - set(pred))),
                    {"correspondence": "requests (req1)", "package": pkg, "function": f["name"], "signature": f["sig"],
                     "model_requests": sorted(pred), "observed_calls": got,
                     "derived": _read(os.path.join(root, pkg, "derived.gen.go"))}, False)
    stats["function_level_disagreements"] += bad


def _compile_and_dup(rep, root, pkg, o, what, extra):
    """C01 itself on one package: it type-checks (every called helper exists) and no function is generated twice.
    Returns False if the package is a failing input."""
    ok = True
    if o["nofile"] or o["parse"] or o["types"]:
        msgs = (o["parse"] + o["types"])[:4] or ["no derived.gen.go"]
        rep.violation("goderive exit 0 but package + derived.gen.go do not type-check (%s): %s" % (what, "; ".join(msgs)),
                      dict(extra, package=pkg, errors=o["parse"] + o["types"],
                           derived=_read(os.path.join(root, pkg, "derived.gen.go"))), True)
        ok = False
    dups = [(f["name"], f["dup"], f["sig"]) for f in o["funcs"] if f.get("dup")]
    if dups:
        rep.violation("a function is generated twice (%s): %s and %s are both %s" % (what, dups[0][0], dups[0][1], dups[0][2]),
                      dict(extra, package=pkg, duplicates=dups,
                           derived=_read(os.path.join(root, pkg, "derived.gen.go"))), True)
        ok = False
    return ok


def iso_part(rep, binp, tool, stats):
    root = tempfile.mkdtemp(prefix="verif-req-")
    try:
        n = 150 if rep.tier == "quick" else 600
        args = [tool, "-gen", "-out", root, "-seed", str(rep.seed), "-harness", common.HARNESS, "-n", str(n),
                "-plugins", ",".join(ISO_PLUGINS)]
        if rep.tier == "thorough":
            args.append("-thorough")
        common.sh(args, check=True, timeout=600)
        cases = json.load(open(os.path.join(root, "cases.json")))
        prelude = open(os.path.join(root, "prelude.txt")).read()
        pkgs = [c["pkg"] for c in cases]
        failed = {}
        rc, err, to = common.run_goderive(binp, root, ["./" + p for p in pkgs], timeout=900, mem_gb=8)
        if rc != 0 or to:
            # attribute the failure: one run per package
            import concurrent.futures

            def one(p):
                try:
                    os.remove(os.path.join(root, p, "derived.gen.go"))
                except OSError:
                    pass
                return (p,) + common.run_goderive(binp, root, ["./" + p], timeout=120, mem_gb=4)
            with concurrent.futures.ThreadPoolExecutor(max_workers=12) as ex:
                for p, rc1, err1, to1 in ex.map(one, pkgs):
                    if rc1 != 0 or to1:
                        failed[p] = (rc1, err1, to1)
        for c in cases:
            if c["pkg"] in failed:
                rc1, err1, to1 = failed[c["pkg"]]
                rep.violation("goderive failed on an isolated supported call %s(%s) (exit %s%s): %s" % (
                    c["plugin"], c["gotype"], rc1, ", timeout" if to1 else "", err1[-400:]),
                    {"program": "requests-iso", "case": c, "file": c["src"]}, True)
        cases = [c for c in cases if c["pkg"] not in failed]
        obs = _observe(tool, root, [c["pkg"] for c in cases])
        answers = _driver(prelude, ["reqs %s %s" % (c["plugin"], c["wire"]) for c in cases])
        setbad = 0
        for c, pred in zip(cases, answers):
            o = obs[c["pkg"]]
            stats["iso_packages"] += 1
            stats["iso_by_plugin"][c["plugin"]] = stats["iso_by_plugin"].get(c["plugin"], 0) + 1
            extra = {"program": "requests-iso", "case": c, "file": c["src"]}
            if not _compile_and_dup(rep, root, c["pkg"], o, "%s(%s)" % (c["plugin"], c["gotype"]), extra):
                continue
            got = sorted(f["sig"] for f in o["funcs"])
            stats["iso_functions"] += len(got)
            stats["iso_max_functions"] = max(stats["iso_max_functions"], len(got))
            if len(got) > 1:
                stats["iso_packages_with_helpers"] += 1
            inexact = [x for f in o["funcs"] for x in f["calls"] if not x["exact"]]
            pred = sorted(pred)
            if inexact:
                stats["iso_packages_with_assignable_fallback"] += 1
                served = set(x["sig"] for x in inexact)
                pred_cmp = sorted(k for k in pred if k in got or k not in served)
            else:
                pred_cmp = pred
            if pred_cmp != got:
                setbad += 1
                if setbad <= 3:
                    rep.violation(
                        "correspondence T-req broken: the functions generated for the single call %s(%s) differ from the "
                        "model's closure: missing in the output %s, extra in the output %s (the package type-checks)" % (
                            c["plugin"], c["gotype"], sorted(set(pred_cmp) - set(got)), sorted(set(got) - set(pred_cmp))),
                        dict(extra, correspondence="requests (reqs)", model_closure=pred, observed_functions=got,
                             derived=_read(os.path.join(root, c["pkg"], "derived.gen.go"))), False)
            if len(rep.cov["samples"]) < 6 and len(got) >= 6 and stats["iso_packages"] % 7 == 0:
                rep.cov["samples"].append({"call": "%s(%s)" % (c["plugin"], c["gotype"]), "generated": got, "model": pred})
        stats["iso_set_disagreements"] += setbad
        _function_level(rep, prelude, root, obs, "isolated packages", stats)
        rep.cov["programs"] += len(cases)
    finally:
        shutil.rmtree(root, ignore_errors=True)


def shared_part(rep, tool, stats):
    for plugins in (["equal", "compare", "hash"], ["deepcopy", "clone"]):
        info = common.prepare_corpus(rep.tier, rep.seed, plugins)
        if info.get("goderive_rc") != 0 or info.get("build_rc") != 0:
            continue    # reported by the caller (c01.run) as a failing input
        root = info["dir"]
        prelude = "".join(l for l in open(os.path.join(root, "prelude.txt")) if l.startswith("decl "))
        obs = _observe(tool, root, info["pkgs"])
        for pkg in info["pkgs"]:
            o = obs[pkg]
            stats["shared_packages"] += 1
            if not _compile_and_dup(rep, root, pkg, o, "corpus package " + pkg, {"program": "requests-shared", "corpus": root}):
                continue
            funcs = o["funcs"]
            stats["shared_functions"] += len(funcs)
            names = set(f["name"] for f in funcs)
            # every generated function is called by the user's files or by a generated function
            called = set(c["callee"] for c in o["roots"])
            for f in funcs:
                called |= set(c["callee"] for c in f["calls"])
            orphan = sorted(names - called)
            if orphan:
                rep.violation("correspondence T-req broken: generated functions nobody asked for in %s: %s" % (pkg, orphan[:5]),
                              {"correspondence": "requests (shared)", "package": pkg, "corpus": root, "orphans": orphan}, False)
            # the function set = union of the model's closures of the roots; a root or wrapper over a type declared
            # in the package itself (FWE_<i> …) contributes itself and the closures of the helpers it calls
            roots, fixed = {}, set()
            byname = dict((f["name"], f) for f in funcs)
            for c in o["roots"]:
                f = byname.get(c["callee"])
                if f is None:
                    continue
                if f["wire"]:
                    roots[(_opname(f), f["wire"])] = True
                else:
                    fixed.add(f["sig"])
                    for x in f["calls"]:
                        if x["wire"]:
                            roots[(x["sig"].split("(")[0], x["wire"])] = True
            rl = sorted(roots)
            answers = _driver(prelude, ["reqs %s %s" % r for r in rl])
            pred = set(fixed)
            for a in answers:
                pred |= set(a)
            got = set(f["sig"] for f in funcs)
            inexact = set(x["sig"] for f in funcs for x in f["calls"] if not x["exact"])
            stats["shared_roots"] += len(rl)
            stats["shared_assignable_fallback_calls"] += len(inexact)
            missing = sorted(k for k in pred - got if k not in inexact)
            extra = sorted(got - pred)
            if missing or extra:
                stats["shared_set_disagreements"] += 1
                rep.violation(
                    "correspondence T-req broken: the functions generated for corpus package %s differ from the union of the "
                    "model's closures of its %d calls: missing in the output %s, extra in the output %s (the package type-checks)" % (
                        pkg, len(rl), missing[:6], extra[:6]),
                    {"correspondence": "requests (shared)", "package": pkg, "corpus": root, "missing": missing, "extra": extra}, False)
        _function_level(rep, prelude, root, obs, "corpus packages " + "/".join(plugins), stats)


def run(rep):
    """Called from vlib/props/c01.py after proof_part (the Lean build includes Props/C01r and the driver)."""
    _, binp = common.build_goderive()
    tool = common.tool_path("reqobserve")
    stats = {"iso_packages": 0, "iso_by_plugin": {}, "iso_functions": 0, "iso_max_functions": 0, "iso_packages_with_helpers": 0,
             "iso_packages_with_assignable_fallback": 0, "iso_set_disagreements": 0,
             "shared_packages": 0, "shared_functions": 0, "shared_roots": 0, "shared_assignable_fallback_calls": 0,
             "shared_set_disagreements": 0,
             "functions_compared": 0, "helper_calls_compared": 0, "functions_over_local_types": 0,
             "function_level_disagreements": 0}
    iso_part(rep, binp, tool, stats)
    shared_part(rep, tool, stats)
    rep.cov["requests_tie"] = stats
    rep.cov["evaluations"] += stats["functions_compared"] + stats["iso_packages"]
    rep.cov["distinct_nontrivial"] += stats["iso_packages_with_helpers"]
    rep.cov["disagreements_checked"] += stats["functions_compared"] + stats["iso_packages"] + stats["shared_packages"]
    rep.cov["rule"] = rep.cov.get("rule", "") + (
        "; requests tie: isolated one-call packages over a seeded sample of corpus types x equal/compare/hash/deepcopy/clone "
        "(1 in 8 equal/compare calls curried): generated function set = Lean `closure` exactly, and per generated function "
        "(isolated + shared corpus packages) the helpers called = Lean `requests` exactly")
    rep.assumptions += [
        "requests tie compares modulo the type universe's identifications (int=int64, uint=uint64=uintptr, positional struct "
        "fields) and, where typesMap's assignability fallback served a request, accepts the assignable function for the "
        "predicted key (counted in requests_tie.*assignable_fallback*)"]
    return stats
