// gengostring writes the C06 corpus: a module `corpus` whose program calls the real
// deriveGoString_<i>(x) for every op `gostring T<i> <value>` and prints the returned TEXT (hex), and
// the fixed part of the stage-2 program (stage2/types.go, stage2/run.go) into which the check later
// puts one Go function per returned text (see vlib/gostring.py).
package main

import (
	"bufio"
	"encoding/hex"
	"flag"
	"fmt"
	"go/parser"
	"math/rand"
	"os"
	"path/filepath"
	"sort"
	"strings"
	"unicode/utf8"

	"verifharness/gen"
	gs "verifharness/gostring"
	"verifharness/ty"
)

var (
	out      = flag.String("out", "", "output directory")
	seed     = flag.Int64("seed", 1, "PRNG seed")
	thorough = flag.Bool("thorough", false, "thorough tier")
	harness  = flag.String("harness", "/verif/harness", "path of the verifharness module")
	plugins  = flag.String("plugins", "gostring", "comma separated plugin list (only gostring)")
	syntax   = flag.Bool("checksyntax", false, "filter mode: read hex-encoded texts (one per line) on stdin, print `ok` or `err <message>` per line (go/parser.ParseExpr)")
)

// checkSyntax is used by stage 2 of the check: a text that is not even a Go expression is attributed
// to its op before the stage-2 program is compiled (the compiler stops after a few syntax errors).
func checkSyntax() {
	in := bufio.NewReaderSize(os.Stdin, 1<<20)
	w := bufio.NewWriter(os.Stdout)
	defer w.Flush()
	for {
		line, err := in.ReadString('\n')
		if h := strings.TrimSpace(line); h != "" || len(line) > 0 {
			b, herr := hex.DecodeString(h)
			if herr != nil {
				fmt.Fprintln(w, "err bad hex")
			} else if _, perr := parser.ParseExpr(string(b)); perr != nil {
				fmt.Fprintln(w, "err "+strings.ReplaceAll(strings.ToValidUTF8(perr.Error(), "?"), "\n", " "))
			} else {
				fmt.Fprintln(w, "ok")
			}
		}
		if err != nil {
			return
		}
	}
}

func must(err error) {
	if err != nil {
		fmt.Fprintln(os.Stderr, err)
		os.Exit(2)
	}
}

func write(path, s string) {
	must(os.MkdirAll(filepath.Dir(path), 0o755))
	must(os.WriteFile(path, []byte(s), 0o644))
}

// erased prints a value with all address ids and spare capacities as written by the templates but
// addresses zeroed: the key for de-duplicating generated values.
func erased(v *ty.Val) string {
	c := v.Clone()
	var z func(*ty.Val)
	z = func(x *ty.Val) {
		x.Addr = 0
		for _, e := range x.Elems {
			z(e)
		}
	}
	z(c)
	return c.Wire()
}

type stats map[string]int

func (s stats) leaves(env *ty.Env, t *ty.Ty, v *ty.Val) {
	u := env.Under(t)
	switch u.K {
	case ty.Basic:
		s["leaf:"+u.B]++
		if v.K == ty.VStr {
			if !utf8.Valid(v.Str) {
				s["str:non-utf8"]++
			}
			if strings.ContainsAny(string(v.Str), "\"\\`") {
				s["str:quote-or-backslash"]++
			}
			if strings.ContainsAny(string(v.Str), "\n\r\t\x00") {
				s["str:control"]++
			}
		}
		if v.K == ty.VFlt && (v.Bits == 1<<63 || (v.W == 32 && v.Bits == 1<<31)) {
			s["float:negzero"]++
		}
		return
	}
	if v.K == ty.VNil {
		s["nil:"+kindName(u.K)]++
		return
	}
	switch u.K {
	case ty.Ptr:
		s["nonnil:ptr"]++
		s.leaves(env, u.Elem, v.Elems[0])
	case ty.Slice, ty.Array:
		if u.K == ty.Slice {
			if len(v.Elems) == 0 {
				s["empty:slice"]++
			} else {
				s["nonempty:slice"]++
			}
		}
		for _, e := range v.Elems {
			s.leaves(env, u.Elem, e)
		}
	case ty.Struct:
		for i, e := range v.Elems {
			s.leaves(env, u.Fields[i].T, e)
		}
	case ty.Map:
		if len(v.Elems) == 0 {
			s["empty:map"]++
		} else {
			s["nonempty:map"]++
			if ku := env.Under(u.Key); ku.K == ty.Struct || ku.K == ty.Array {
				s["map:composite-key"]++
			}
		}
		for i := 0; i+1 < len(v.Elems); i += 2 {
			s.leaves(env, u.Key, v.Elems[i])
			s.leaves(env, u.Elem, v.Elems[i+1])
		}
	}
}

func ptrDepth(v *ty.Val) int {
	d := 0
	for _, e := range v.Elems {
		if x := ptrDepth(e); x > d {
			d = x
		}
	}
	if v.K == ty.VPtr {
		d++
	}
	return d
}

func main() {
	flag.Parse()
	if *syntax {
		checkSyntax()
		return
	}
	rng := rand.New(rand.NewSource(*seed))
	n2, extra, cap, nmut, nsub, nwide := 60, 40, 12, 3, 12, 6
	if *thorough {
		n2, extra, cap, nmut, nsub, nwide = 0, 200, 16, 4, 16, 8
	}
	c := gen.NewCorpus(rng, *thorough, n2, extra)
	env := c.Env
	// declarations whose Go source the ty universe cannot spell (blank-only structs, field TAGS on unnamed
	// struct types): written literally, keyed by package.Name; their ty shape is what the values see
	tagged := "struct {\n\tA struct {\n\t\tX int    `json:\"x,omitempty\" pct:\"100%\"`\n\t\tY string `re:\"a\\\\b %d\" q:\"say \\\"hi\\\"\"`\n\t}\n" +
		"\tL []struct {\n\t\tX int `k:\"%s %v\"`\n\t}\n\tM map[string]struct {\n\t\tY string `path:\"c:\\\\dir\"`\n\t}\n" +
		"\tP *struct {\n\t\tX int `t:\"50%% \\\\n\"`\n\t}\n\tN int `plain:\"n\"`\n}"
	localSrc := map[string]string{"q0.LBl": "struct {\n\t_ struct{}\n\t_ [0]int\n}", "q0.LTg": tagged, "golib.Tg": tagged} // LBl: blanks only, zero size
	// hand-written pointer-receiver GoString methods (the generator at HEAD ignores them; a shortcut through
	// them must not pick up PROMOTED methods of a struct that merely embeds such a type)
	gostringMethod := func(pkg, name string) string {
		q := pkg + "." + name
		return "\nfunc (this *" + name + ") GoString() string {\n\tif this == nil {\n\t\treturn \"func() *" + q + " {\\nreturn nil\\n}()\\n\"\n\t}\n" +
			"\treturn fmt.Sprintf(\"func() *" + q + " {\\nthis := &" + q + "{}\\nthis.A = %#v\\nreturn this\\n}()\\n\", this.A)\n}\n"
	}
	methodSrc := map[string]string{"golib.G": gostringMethod("golib", "G"), "q0.LG": gostringMethod("q0", "LG")}
	// named basic types with a String() method whose output is a DIFFERENT valid Go literal (zero-padded = octal,
	// rounded, quoted, constant): %#v never consults it, %v / %s / %d-less verbs would
	stringer := func(name, body string) string {
		return "\nfunc (x " + name + ") String() string { " + body + " }\n"
	}
	for k, v := range map[string]string{
		"golib.Track": stringer("Track", `return fmt.Sprintf("%04d", uint16(x))`), "golib.SInt": stringer("SInt", `return fmt.Sprintf("%+04d", int(x))`),
		"golib.Temp": stringer("Temp", `return fmt.Sprintf("%.0f", float64(x))`), "golib.Title": stringer("Title", `return fmt.Sprintf("%q", "<"+string(x)+">")`),
		"golib.Flag": stringer("Flag", `return "true"`), "golib.U64": stringer("U64", `return fmt.Sprintf("0%d", uint64(x))`),
		"q0.LTrack": stringer("LTrack", `return fmt.Sprintf("%03d", uint8(x))`), "q0.LTitle": stringer("LTitle", `return fmt.Sprintf("%q", string(x)+"!")`),
		"q0.LFlag": stringer("LFlag", `return "false"`), "q0.LSInt": stringer("LSInt", `return fmt.Sprintf("%05d", int64(x))`),
	} {
		methodSrc[k] = v
	}
	wireOverride := map[string]string{} // declaration name -> wire of its underlying type as the MODEL sees it
	taggedTy := func() *ty.Ty {
		b, f := ty.B, ty.F
		return ty.St(f("A", ty.St(f("X", b("int")), f("Y", b("string")))), f("L", ty.Sl(ty.St(f("X", b("int"))))),
			f("M", ty.M(b("string"), ty.St(f("Y", b("string"))))), f("P", ty.P(ty.St(f("X", b("int"))))), f("N", b("int")))
	}
	// Imported packages whose DECLARED NAME is not the tail of their import path (a major-version
	// directory, a directory with a dash): the text must spell their types with the declared name, which
	// is the name an importing package sees. Names are distinct from every other package of the corpus
	// (two packages with the SAME name are finding F27, covered by a separate probe).
	nd := len(env.Decls)
	addDecl := func(name, pkg string, u *ty.Ty) int {
		env.Decls = append(env.Decls, &ty.Decl{Name: name, Pkg: pkg, Under: u})
		return len(env.Decls) - 1
	}
	{
		b, f := ty.B, ty.F
		v := addDecl("V", "ext3", ty.St(f("A", b("int")), f("B", ty.Sl(b("string"))), f("P", ty.P(b("int")))))           // nd+0
		vs := addDecl("VS", "ext3", ty.Sl(ty.N(v)))                                                                      // nd+1
		vm := addDecl("VM", "ext3", ty.M(b("string"), ty.N(v)))                                                          // nd+2
		vp := addDecl("VP", "ext3", ty.P(ty.N(v)))                                                                       // nd+3
		vk := addDecl("K", "ext3", ty.St(f("X", b("int8")), f("Y", b("string"))))                                        // nd+4 comparable
		l := addDecl("L", "golib", ty.St(f("X", b("int64")), f("Next", ty.P(ty.N(nd+5))), f("V", ty.N(v))))              // nd+5 recursive, mentions ext3
		ls := addDecl("LS", "golib", ty.Sl(ty.P(ty.N(l))))                                                               // nd+6
		li := addDecl("LI", "golib", b("int"))                                                                           // nd+7
		la := addDecl("LA", "golib", ty.Ar(2, ty.N(vk)))                                                                 // nd+8
		dur := addDecl("Dur", "golib", b("int64"))                                                                       // a time.Duration-like imported named basic
		tg := addDecl("Tg", "golib", taggedTy())                                  // fields of unnamed struct types with TAGS (quotes, backslashes, %)
		ks := addDecl("KS", "ext3", ty.St(f("F", b("string")), f("G", b("string")))) // a key type whose %v renderings can coincide
		cfg := addDecl("Cfg", "golib", ty.St(f("Level", ty.P(ty.N(li))), f("Wait", ty.P(ty.N(dur))), f("N", ty.P(ty.N(19)))))
		// instantiations of generic types (package gpkg is written literally below; an instantiation is, for
		// values, the struct it expands to; its Go spelling is its name)
		track := addDecl("Track", "golib", b("uint16"))
		sint := addDecl("SInt", "golib", b("int"))
		temp := addDecl("Temp", "golib", b("float64"))
		title := addDecl("Title", "golib", b("string"))
		flagT := addDecl("Flag", "golib", b("bool"))
		u64 := addDecl("U64", "golib", b("uint64"))
		gg := addDecl("G", "golib", ty.St(f("A", b("int"))))                                               // declares func (*G) GoString() string
		emg := addDecl("EmG", "golib", ty.St(ty.Field{Name: "G", Embedded: true, T: ty.N(gg)}, f("N", b("int")))) // embeds G: GoString is only PROMOTED
		rn := addDecl("Rn", "golib", b("rune"))                                                            // a named rune type
		// Instances of generic named containers with basic elements are written element by element (never whole
		// with %#v). The model's shortcut test is syntactic (element type is *types.Basic); the generator's has the
		// extra `!isInstance`. The model is told so through the element type: it sees p.NI (a named int) there.
		tagged := addDecl("Tagged[p.S1]", "gpkg", ty.Sl(b("int")))
		wireOverride["Tagged[p.S1]"] = "(sl (n 0))"
		tm := addDecl("TM[p.S1]", "gpkg", ty.M(b("string"), b("int")))
		wireOverride["TM[p.S1]"] = "(m string (n 0))"
		ta := addDecl("TA[int8]", "gpkg", ty.Ar(2, b("int")))
		wireOverride["TA[int8]"] = "(ar 2 (n 0))"
		oi := addDecl("Opt[int]", "gpkg", ty.St(f("V", b("int")), f("Ok", b("bool"))))
		os_ := addDecl("Opt[string]", "gpkg", ty.St(f("V", b("string")), f("Ok", b("bool"))))
		op := addDecl("Opt[*int]", "gpkg", ty.St(f("V", ty.P(b("int"))), f("Ok", b("bool"))))
		o1 := addDecl("Opt[p.S1]", "gpkg", ty.St(f("V", ty.N(5)), f("Ok", b("bool"))))
		psi := addDecl("Pair[string,int]", "gpkg", ty.St(f("K", b("string")), f("V", b("int"))))
		pis := addDecl("Pair[int8,[]string]", "gpkg", ty.St(f("K", b("int8")), f("V", ty.Sl(b("string")))))
		for _, t := range []*ty.Ty{
			ty.N(v), ty.P(ty.N(v)), ty.Sl(ty.N(v)), ty.Sl(ty.P(ty.N(v))), ty.Ar(2, ty.N(v)), ty.M(b("string"), ty.N(v)), ty.M(ty.N(vk), ty.P(ty.N(v))),
			ty.N(vs), ty.P(ty.N(vs)), ty.N(vm), ty.N(vp), ty.P(ty.N(vp)), ty.N(vk), ty.M(ty.N(vk), b("int")),
			ty.N(l), ty.P(ty.N(l)), ty.Sl(ty.N(l)), ty.N(ls), ty.N(li), ty.P(ty.N(li)), ty.Sl(ty.N(li)), ty.M(ty.N(li), ty.N(l)), ty.N(la), ty.P(ty.N(la)),
			ty.St(f("A", ty.N(v)), f("B", ty.P(ty.N(l))), f("C", ty.N(vs)), f("D", ty.N(ls)), f("E", ty.N(5)), f("F", ty.N(17))),
			ty.P(ty.St(f("A", ty.P(ty.N(v))), f("M", ty.N(vm)))), ty.M(b("string"), ty.Sl(ty.N(l))),
			ty.N(tg), ty.P(ty.N(tg)), ty.Sl(ty.N(tg)), ty.M(b("string"), ty.N(tg)), ty.St(f("T", ty.N(tg)), f("P", ty.P(ty.N(tg)))),
			ty.M(ty.N(ks), b("int")), ty.M(ty.N(ks), ty.Sl(b("string"))), ty.M(ty.Ar(2, b("string")), b("int")), ty.M(ty.Ar(3, b("string")), ty.P(b("int"))),
			ty.St(f("M", ty.M(ty.N(ks), ty.N(ks)))),
			// named basics with a String() method: field, pointer, element, map key and value, root
			ty.St(f("T", ty.N(track)), f("P", ty.P(ty.N(track))), f("L", ty.Sl(ty.N(track))), f("M", ty.M(ty.N(track), ty.N(track))), f("S", ty.N(sint)),
				f("F", ty.N(temp)), f("N", ty.N(title)), f("B", ty.N(flagT)), f("U", ty.N(u64)), f("Q", ty.P(ty.N(u64))), f("A", ty.Ar(2, ty.N(track)))),
			ty.N(track), ty.P(ty.N(track)), ty.Sl(ty.N(track)), ty.M(ty.N(track), b("string")), ty.M(b("string"), ty.N(u64)), ty.N(u64), ty.N(sint), ty.P(ty.N(sint)),
			ty.N(temp), ty.N(title), ty.P(ty.N(title)), ty.N(flagT), ty.Sl(ty.N(title)), ty.M(ty.N(title), ty.N(flagT)),
			// types with a pointer-receiver GoString method, and structs that merely embed one, by value and by pointer
			ty.St(f("G", ty.N(gg)), f("P", ty.P(ty.N(gg))), f("E", ty.N(emg)), f("Q", ty.P(ty.N(emg))), f("L", ty.Sl(ty.N(emg)))),
			ty.N(gg), ty.P(ty.N(gg)), ty.N(emg), ty.P(ty.N(emg)), ty.M(b("string"), ty.N(emg)),
			// rune, *rune, named rune types (non-code-point values come from the boundary pool of "rune")
			ty.St(f("R", b("rune")), f("P", ty.P(b("rune"))), f("L", ty.Sl(b("rune"))), f("N", ty.N(rn)), f("Q", ty.P(ty.N(rn))),
				f("M", ty.M(b("rune"), b("string"))), f("A", ty.Ar(2, b("rune")))),
			b("rune"), ty.P(b("rune")), ty.Sl(b("rune")), ty.N(rn), ty.P(ty.N(rn)), ty.Sl(ty.N(rn)), ty.M(ty.N(rn), b("rune")),
			// instances of generic named slice / map / array types with basic elements
			ty.St(f("T", ty.N(tagged)), f("M", ty.N(tm)), f("A", ty.N(ta)), f("P", ty.P(ty.N(tagged)))), ty.N(tagged), ty.P(ty.N(tm)), ty.N(ta), ty.Sl(ty.N(tagged)),
			// struct FIELDS of type pointer-to-named-basic (local, imported, Duration-like): non-nil values take genField's pointer case
			ty.St(f("A", ty.P(ty.N(0))), f("B", ty.P(ty.N(1))), f("C", ty.P(ty.N(2))), f("D", ty.P(ty.N(3))), f("E", ty.P(ty.N(19))),
				f("F", ty.P(ty.N(li))), f("G", ty.P(ty.N(dur))), f("H", ty.P(ty.N(29))), f("I", ty.P(ty.N(30)))),
			ty.N(cfg), ty.P(ty.N(cfg)), ty.Sl(ty.N(cfg)), ty.P(ty.St(f("L", ty.P(ty.N(li))), f("N", ty.P(ty.N(0))))), ty.N(dur), ty.P(ty.N(dur)),
			// two instantiations of one generic type held BY VALUE in one struct / as slice element / map value
			ty.St(f("Port", ty.N(oi)), f("Host", ty.N(os_)), f("L", ty.Sl(ty.N(os_))), f("M", ty.M(b("string"), ty.N(oi))), f("P", ty.N(psi)),
				f("Q", ty.N(pis)), f("In", ty.P(ty.N(o1))), f("O", ty.N(op))),
			ty.N(oi), ty.N(os_), ty.P(ty.N(op)), ty.Sl(ty.N(os_)), ty.Sl(ty.N(oi)), ty.M(b("string"), ty.N(oi)), ty.M(ty.N(psi), ty.N(os_)),
			ty.N(pis), ty.Ar(2, ty.N(psi)), ty.P(ty.St(f("A", ty.N(psi)), f("B", ty.N(pis)))),
		} {
			c.Types = append(c.Types, t)
		}
	}
	// Declarations that live in the derive package q0 ITSELF (types local to the package of the derive call;
	// stage 2 imports q0 and the texts must spell them q0.Name): empty struct, struct with only blank fields,
	// blank field between fields, ordinary / recursive struct, named slice / map / pointer / basic, and structs
	// with unexported fields (accepted for local structs; outside the property: ops `gostringx`).
	var localTypes []*ty.Ty
	{
		b, f := ty.B, ty.F
		addL := func(name string, u *ty.Ty, priv bool) int {
			env.Decls = append(env.Decls, &ty.Decl{Name: name, Pkg: gs.LocalPkg, Under: u, Priv: priv})
			return len(env.Decls) - 1
		}
		mark := addL("LMark", ty.St(), false)
		bl := addL("LBl", ty.St(), false)
		b2u := ty.St(f("A", b("int")), f("B", ty.P(b("string"))))
		b2u.Blanks = map[int]string{1: "int32"}
		b2 := addL("LB2", b2u, false)
		ord := addL("LOrd", ty.St(f("A", b("int")), f("B", ty.Sl(b("string"))), f("M", ty.N(mark)), f("X", ty.N(nd))), false)
		rec := addL("LRec", ty.St(f("V", b("int")), f("Next", ty.P(ty.N(len(env.Decls)))), f("E", ty.N(bl))), false)
		lsl := addL("LSl", ty.Sl(ty.N(ord)), false)
		lm := addL("LM", ty.M(b("string"), ty.N(mark)), false)
		lp := addL("LP", ty.P(ty.N(ord)), false)
		lni := addL("LNI", b("int"), false)
		lu := addL("LU", ty.St(f("A", b("int")), f("b", b("string")), f("c", ty.P(b("int")))), true)
		// own Equal methods that look at the first field only (value and pointer receiver): a value they cannot tell
		// from zero ({A: 0, B: "x"}) must still be written into the text
		ltrack := addL("LTrack", b("uint8"), false)
		ltitle := addL("LTitle", b("string"), false)
		lflag := addL("LFlag", b("bool"), false)
		lsint := addL("LSInt", b("int64"), false)
		leqv := addL("LEqv", ty.St(f("A", b("int")), f("B", b("string"))), false)
		env.Decls[leqv].Methods = "Ev"
		leqp := addL("LEqp", ty.St(f("A", b("int")), f("B", ty.Sl(b("int")))), false)
		env.Decls[leqp].Methods = "Ep"
		lg := addL("LG", ty.St(f("A", b("int"))), false)
		lemg := addL("LEmG", ty.St(ty.Field{Name: "LG", Embedded: true, T: ty.N(lg)}, f("N", b("string"))), false)
		lrn := addL("LRn", b("rune"), false)
		ltg := addL("LTg", taggedTy(), false)
		lks := addL("LKS", ty.St(f("N", b("int")), f("F", b("string")), f("G", b("string"))), false)
		lur := addL("LUR", ty.St(f("V", b("int")), f("next", ty.P(ty.N(len(env.Decls))))), true)
		// a comparable struct with a blank field as map KEY next to a predeclared value type (%#v does not write
		// such a key as valid Go: the key must be written by the generated function whatever the value type is)
		b3u := ty.St(f("A", b("int")), f("C", b("string")))
		b3u.Blanks = map[int]string{1: "int32"}
		b3 := addL("LB3", b3u, false)
		localTypes = []*ty.Ty{
			ty.N(mark), ty.P(ty.N(mark)), ty.Sl(ty.N(mark)), ty.Ar(2, ty.N(mark)), ty.M(b("int8"), ty.N(mark)), ty.M(ty.N(mark), b("int")),
			ty.N(bl), ty.P(ty.N(bl)), ty.Sl(ty.N(bl)), ty.M(b("int"), ty.N(bl)), ty.N(b2), ty.P(ty.N(b2)), ty.Sl(ty.P(ty.N(b2))),
			ty.N(ord), ty.P(ty.P(ty.N(ord))), ty.Sl(ty.P(ty.N(ord))), ty.M(b("string"), ty.P(ty.N(ord))), ty.N(rec), ty.P(ty.N(rec)), ty.Sl(ty.N(rec)),
			ty.N(lsl), ty.P(ty.N(lsl)), ty.N(lm), ty.P(ty.N(lm)), ty.N(lp), ty.P(ty.N(lp)), ty.N(lni), ty.P(ty.N(lni)), ty.Sl(ty.N(lni)), ty.M(ty.N(lni), ty.N(lni)),
			ty.St(f("M", ty.N(mark)), f("B", ty.N(bl)), f("K", ty.N(lm)), f("S", ty.Sl(ty.N(mark))), f("R", ty.Ar(2, ty.N(mark))), f("O", ty.N(ord)),
				f("P", ty.N(lp)), f("L", ty.N(lsl)), f("N", ty.P(ty.N(lni))), f("X", ty.N(5)), f("Q", ty.P(ty.N(rec)))),
			ty.P(ty.St(f("A", ty.N(mark)), f("B", ty.P(ty.N(mark))), f("C", ty.N(b2)))),
			ty.St(f("G", ty.N(lg)), f("P", ty.P(ty.N(lg))), f("E", ty.N(lemg)), f("Q", ty.P(ty.N(lemg))), f("R", ty.N(lrn)), f("S", ty.P(ty.N(lrn)))),
			ty.St(f("V", ty.N(leqv)), f("W", ty.N(leqp)), f("P", ty.P(ty.N(leqv))), f("L", ty.Sl(ty.N(leqp))), f("M", ty.M(b("string"), ty.N(leqv)))),
			ty.P(ty.St(f("V", ty.N(leqv)), f("N", ty.N(32)), f("U", ty.N(31)))), ty.N(leqv), ty.N(leqp),
			ty.St(f("T", ty.N(ltrack)), f("P", ty.P(ty.N(ltrack))), f("L", ty.Sl(ty.N(ltrack))), f("M", ty.M(ty.N(ltrack), ty.N(ltitle))), f("N", ty.N(ltitle)),
				f("B", ty.N(lflag)), f("S", ty.N(lsint)), f("Q", ty.P(ty.N(lsint)))),
			ty.N(ltrack), ty.P(ty.N(ltrack)), ty.Sl(ty.N(ltrack)), ty.M(ty.N(ltrack), b("int")), ty.N(ltitle), ty.N(lflag), ty.N(lsint), ty.M(b("string"), ty.N(ltrack)),
			ty.N(lg), ty.N(lemg), ty.P(ty.N(lemg)), ty.Sl(ty.N(lemg)), ty.N(lrn), ty.Sl(ty.N(lrn)),
			ty.N(ltg), ty.P(ty.N(ltg)), ty.Sl(ty.N(ltg)), ty.M(b("int"), ty.N(ltg)), ty.M(ty.N(lks), b("string")), ty.M(ty.N(lks), ty.N(mark)),
			ty.M(ty.N(b3), b("string")), ty.M(ty.N(b3), b("int64")), ty.St(f("K", ty.M(ty.N(b3), b("bool")))),
			ty.N(lu), ty.P(ty.N(lu)), ty.Sl(ty.N(lu)), ty.N(lur), ty.P(ty.N(lur)), ty.M(b("string"), ty.N(lur)), ty.St(f("U", ty.N(lu)), f("R", ty.P(ty.N(lur)))),
		}
		// local types first: they must live in q0, the other types are spread around them
		c.Types = append(append([]*ty.Ty{}, localTypes...), c.Types...)
	}
	extPkgs := []struct{ name, dir string }{{"ext", "ext"}, {"ext3", "ext3/v2"}, {"golib", "go-lib"}, {"gpkg", "gpkg"}}
	extImports, extUses := "", ""
	for _, e := range extPkgs {
		extImports += fmt.Sprintf("\t\"corpus/%s\"\n", e.dir)
	}
	extUses = "var _ ext.XN\nvar _ ext3.V\nvar _ golib.LI\nvar _ gpkg.Opt[int]\n"
	// extra shapes the shared corpus does not enumerate: pointer chains, unnamed structs as pointee /
	// field / element, struct- and array-keyed maps with composite values, named containers as
	// components, zero-length arrays
	b, f := ty.B, ty.F
	for _, t := range []*ty.Ty{
		ty.P(ty.P(b("int"))), ty.P(ty.P(ty.P(b("string")))), ty.P(ty.P(ty.N(5))), ty.P(ty.N(13)), ty.P(ty.Sl(ty.P(b("float64")))),
		ty.P(ty.St(f("A", b("int")), f("B", ty.P(b("string"))))), ty.St(f("A", ty.St(f("X", ty.Sl(b("string")))))),
		ty.Sl(ty.St(f("K", b("uint8")), f("P", ty.P(ty.N(5))))), ty.M(ty.N(5), ty.P(ty.N(5))), ty.M(ty.N(15), ty.Sl(ty.N(15))),
		ty.M(ty.Ar(2, b("string")), ty.M(ty.N(5), b("bool"))), ty.M(ty.N(5), ty.N(5)), ty.M(ty.N(1), ty.N(0)), ty.M(b("float32"), b("float32")),
		ty.M(b("complex128"), b("string")), ty.M(b("uint8"), ty.Sl(b("uint8"))), ty.M(b("int32"), ty.P(b("int32"))),
		ty.St(f("A", ty.N(11)), f("B", ty.N(12)), f("C", ty.N(13)), f("D", ty.N(14)), f("E", ty.N(22)), f("F", ty.N(19))),
		ty.Ar(0, b("int")), ty.Ar(0, ty.N(5)), ty.Ar(3, ty.P(ty.N(7))), ty.Sl(ty.Ar(2, ty.P(b("int")))), ty.Sl(ty.Sl(ty.Sl(b("string")))),
		ty.St(f("A", b("uint")), f("B", b("uintptr")), f("C", b("int32")), f("D", b("uint8")), f("E", b("complex64")), f("F", b("float32")),
			f("G", ty.P(b("uint"))), f("H", ty.P(b("uintptr"))), f("I", ty.P(b("int32"))), f("J", ty.P(b("uint8"))), f("K", ty.P(b("complex64"))),
			f("L", ty.P(b("float32"))), f("M", ty.Sl(b("uint"))), f("N", ty.Sl(b("uintptr"))), f("O", ty.Sl(b("int32"))), f("P", ty.Sl(b("complex64"))),
			f("Q", ty.Sl(b("float32"))), f("R", ty.Sl(b("bool"))), f("S", ty.Ar(2, b("uint16"))), f("T", ty.M(b("uint32"), b("int16")))),
		ty.P(ty.N(20)), ty.P(ty.N(16)), ty.Sl(ty.N(9)), ty.M(b("string"), ty.N(8)), ty.P(ty.M(b("string"), ty.P(ty.Sl(b("int"))))),
	} {
		dup := false
		for _, o := range c.Types {
			if o.Wire() == t.Wire() {
				dup = true
			}
		}
		if !dup {
			c.Types = append(c.Types, t)
		}
	}

	// ---- imported packages (directory != declared name for ext3, golib)
	for _, e := range extPkgs {
		var sb strings.Builder
		fmt.Fprintf(&sb, "// Package %s holds imported declarations of the corpus.\npackage %s\n\n", e.name, e.name)
		if e.name == "gpkg" { // generic declarations, written literally; the env holds their instantiations
			sb.WriteString("type Opt[T any] struct {\n\tV  T\n\tOk bool\n}\n\ntype Pair[K comparable, V any] struct {\n\tK K\n\tV V\n}\n\n" +
				"// generic named containers of basic elements: fmt's %#v would spell their type arguments with import paths\n" +
				"type Tagged[T any] []int\n\ntype TM[T any] map[string]int\n\ntype TA[T any] [2]int\n")
			write(filepath.Join(*out, filepath.FromSlash(e.dir), "x.go"), sb.String())
			continue
		}
		if e.name == "golib" {
			sb.WriteString("import (\n\t\"fmt\"\n\n\t\"corpus/ext\"\n\text3 \"corpus/ext3/v2\"\n)\n\nvar _ ext3.V\nvar _ ext.XN\nvar _ = fmt.Sprintf\n\n")
		}
		for _, d := range env.Decls {
			if d.Pkg == e.name {
				if d.Src != "" {
					sb.WriteString(d.Src + "\n")
					continue
				}
				src, ok := localSrc[d.Pkg+"."+d.Name]
				if !ok {
					src = d.Under.Go(env, e.name)
				}
				fmt.Fprintf(&sb, "type %s %s\n%s", d.Name, src, methodSrc[d.Pkg+"."+d.Name])
				if d.Methods != "" {
					sb.WriteString("\n" + gen.MethodSrc(d))
				}
			}
		}
		write(filepath.Join(*out, filepath.FromSlash(e.dir), "x.go"), sb.String())
	}

	var p, m, s2 strings.Builder
	p.WriteString("package p\n\nimport \"corpus/ext\"\n\nvar _ ext.XN\n\n")
	for _, d := range env.Decls {
		if d.Pkg == "" {
			if d.Src != "" { // e.g. an alias of a generic instance (with the generic declaration itself)
				p.WriteString(d.Src + "\n")
			} else {
				fmt.Fprintf(&p, "type %s %s\n", d.Name, d.Under.Go(env, ""))
			}
			if d.Methods != "" { // own Equal / Compare / Hash / DeepCopy methods (coarser than the fields): gostring must not consult them
				p.WriteString("\n" + gen.MethodSrc(d))
			}
		}
	}
	var qs []*strings.Builder
	var qtypes [][]*ty.Ty
	newQ := func() int {
		sb := &strings.Builder{}
		fmt.Fprintf(sb, "package q%d\n\nimport (\n\t\"fmt\"\n\n%s\t\"corpus/p\"\n)\n\n%svar _ p.NI\nvar _ = fmt.Sprintf\n", len(qs), extImports, extUses)
		qs = append(qs, sb)
		qtypes = append(qtypes, nil)
		return len(qs) - 1
	}
	newQ() // q0 declares the local types
	for _, d := range env.Decls {
		if d.Pkg == gs.LocalPkg {
			src, ok := localSrc[d.Pkg+"."+d.Name]
			if !ok {
				src = d.Under.Go(env, gs.LocalPkg)
			}
			fmt.Fprintf(qs[0], "\ntype %s %s\n%s", d.Name, src, methodSrc[d.Pkg+"."+d.Name])
			if d.Methods != "" {
				qs[0].WriteString("\n" + gen.MethodSrc(d))
			}
		}
	}
	pkgOf := func(t *ty.Ty) int {
		local := gs.MentionsLocal(env, t)
		for qi := range qs {
			clash := false
			for _, o := range qtypes[qi] {
				if gen.Assignable(env, t, o) || gen.Assignable(env, o, t) {
					clash = true
					break
				}
			}
			if !clash {
				qtypes[qi] = append(qtypes[qi], t)
				return qi
			}
			if local {
				fmt.Fprintln(os.Stderr, "gengostring: local type clashes inside q0:", t.Wire())
				os.Exit(2)
			}
		}
		qi := newQ()
		qtypes[qi] = append(qtypes[qi], t)
		return qi
	}

	var prelude strings.Builder
	for _, d := range env.Decls {
		flags := ""
		if d.Pkg != "" && d.Pkg != gs.LocalPkg {
			flags += "e"
		}
		if d.Priv {
			flags += "p"
		}
		if d.Under.K == ty.Struct {
			flags += "m"
			for _, f := range d.Under.Fields {
				if f.Name[0] >= 'a' && f.Name[0] <= 'z' {
					flags += "1"
				} else {
					flags += "0"
				}
			}
		}
		if flags == "" {
			flags = "-"
		}
		w := d.Under.Wire()
		if o, ok := wireOverride[d.Name]; ok {
			w = o
		}
		fmt.Fprintf(&prelude, "decl %s %s\n", flags, w)
	}

	opsf, err := os.Create(filepath.Join(*out, "ops.txt"))
	must(err)
	vg := gen.NewVGen(env, rng, cap)
	st := stats{}
	id := 0
	s2.WriteString("package main\n\nimport (\n\t\"reflect\"\n\n" + extImports + "\t\"corpus/p\"\n\t\"corpus/q0\"\n)\n\n" + extUses + "var _ p.NI\nvar _ q0.LMark\n\nvar types = map[string]reflect.Type{\n")
	// the import block of the packages the check assembles from the returned texts: every type package
	// under its DECLARED name (what `import "path"` binds)
	write(filepath.Join(*out, "stage2", "header.txt"), "import (\n\t\"reflect\"\n\n"+extImports+"\t\"corpus/p\"\n\t\"corpus/q0\"\n)\n\n"+extUses+"var _ p.NI\nvar _ q0.LMark\n")
	nsup := 0
	for i, t := range c.Types {
		tn := fmt.Sprintf("T%d", i)
		fmt.Fprintf(&prelude, "ty %s %s\n", tn, t.Wire())
		if !gs.SupportedX(env, t) {
			st["unsupported"]++
			continue
		}
		opname := "gostring"
		if !gs.Supported(env, t) { // a local struct with unexported fields: outside the property, correspondence only
			opname = "gostringx"
			st["types_local_unexported"]++
		}
		if gs.MentionsLocal(env, t) {
			st["types_local"]++
		}
		nsup++
		gt := t.Go(env, "main")
		qi := pkgOf(t)
		fmt.Fprintf(qs[qi], "\nfunc GoString_%d(a %s) string { return deriveGoString_%d(a) }\n", i, t.Go(env, fmt.Sprintf("q%d", qi)), i)
		fmt.Fprintf(&m, "\tt%d := reflect.TypeOf((*%s)(nil)).Elem()\n", i, gt)
		fmt.Fprintf(&m, "\trt.Reg(\""+opname+"\", %q, func(c *rt.Ctx, a []*rt.SExp) string {\n\t\tx := c.Build(t%d, a[0]).Interface().(%s)\n\t\treturn hex.EncodeToString([]byte(q%d.GoString_%d(x)))\n\t})\n", tn, i, gt, qi, i)
		fmt.Fprintf(&s2, "\t%q: reflect.TypeOf((*%s)(nil)).Elem(),\n", tn, gt)
		st["head:"+kindName(env.Under(t).K)]++

		// ---- values: pool, single-position mutations, boundary-leaf substitutions, wide random values
		seen := map[string]bool{}
		var vals []*ty.Val
		add := func(src string, v *ty.Val) {
			if !gs.Finite(v) {
				st["skipped:non-finite"]++
				return
			}
			k := erased(v)
			if seen[k] {
				return
			}
			seen[k] = true
			st["src:"+src]++
			vals = append(vals, v)
		}
		pool := vg.Pool(t)
		for _, a := range pool {
			add("pool", a)
		}
		for _, a := range pool {
			if !gs.Finite(a) {
				continue
			}
			for _, mu := range vg.Mutations(t, a, nmut) {
				add("mutation", mu)
			}
		}
		for k := 0; k < nsub; k++ {
			a := pool[rng.Intn(len(pool))]
			pr := 1.0
			if k%2 == 1 {
				pr = 0.5
			}
			add("boundary-subst", gs.Subst(env, rng, t, a, pr))
		}
		if env.Under(t).K == ty.Basic {
			for _, a := range gs.Boundary(env.Under(t).B) {
				add("boundary", a)
			}
		}
		for k := 0; k < nwide; k++ {
			add("wide", gs.Wide(env, rng, t, 3))
		}
		if u := env.Under(t); u.K == ty.Map {
			// distinct struct / array keys whose %v renderings coincide ({"a b","c"} and {"a","b c"})
			if ks := gs.CollidingKeys(env, u.Key, vg.Pool(u.Key)[0]); ks != nil {
				vp := vg.Pool(u.Elem)
				for n := 2; n <= len(ks); n++ {
					mv := &ty.Val{K: ty.VMap}
					for j := 0; j < n; j++ {
						mv.Elems = append(mv.Elems, ks[j], vp[(j+n)%len(vp)])
					}
					add("colliding-keys", mv)
				}
			}
		}
		emit := func(x *ty.Val) {
			id++
			fmt.Fprintf(opsf, "op %d %s %s %s\n", id, opname, tn, x.Wire())
			st["ops:"+opname]++
			st.leaves(env, t, x)
			if d := ptrDepth(x); d >= 2 {
				st["ptr-chain>=2"]++
			}
		}
		nalias := 0
		for _, v := range vals {
			x := vg.Inst(v)
			emit(x)
			if nalias < 3 {
				if al := gs.Alias(x); al != nil { // the same value with equal pointer targets shared
					nalias++
					st["src:aliased"]++
					emit(al)
				}
			}
		}
	}
	s2.WriteString("}\n")
	must(opsf.Close())
	write(filepath.Join(*out, "p", "p.go"), p.String())
	var mh strings.Builder
	mh.WriteString("package main\n\nimport (\n\t\"encoding/hex\"\n\t\"reflect\"\n\n" + extImports + "\t\"corpus/p\"\n")
	for qi, q := range qs {
		write(filepath.Join(*out, fmt.Sprintf("q%d", qi), "q.go"), q.String())
		fmt.Fprintf(&mh, "\t\"corpus/q%d\"\n", qi)
	}
	mh.WriteString("\t\"verifharness/rt\"\n)\n\n" + extUses + "var _ p.NI\n\nfunc main() { rt.Main() }\n\nfunc init() {\n")
	write(filepath.Join(*out, "main.go"), mh.String()+m.String()+"}\n")
	write(filepath.Join(*out, "stage2", "types.go"), s2.String())
	write(filepath.Join(*out, "stage2", "run.go"), `// Stage 2 of the C06 check: evaluates the texts returned by the derived GoString functions.
package main

import (
	"os"

	gs "verifharness/gostring"
)

func main() { gs.Main2(types, fns(), os.Args[1], os.Args[2]) }
`)
	write(filepath.Join(*out, "prelude.txt"), prelude.String())
	write(filepath.Join(*out, "go.mod"), fmt.Sprintf("module corpus\n\ngo 1.24\n\nrequire verifharness v0.0.0\n\nreplace verifharness => %s\n", *harness))

	st["pkgs"] = len(qs)
	st["types_supported"] = nsup
	var keys []string
	for k := range st {
		keys = append(keys, k)
	}
	sort.Strings(keys)
	var sb strings.Builder
	fmt.Fprintf(&sb, "{\"types\": %d", len(c.Types))
	for _, k := range keys {
		fmt.Fprintf(&sb, ", %q: %d", k, st[k])
	}
	sb.WriteString("}\n")
	write(filepath.Join(*out, "stats.json"), sb.String())
	_ = plugins
}

func kindName(k ty.Kind) string {
	return [...]string{"basic", "named", "ptr", "slice", "array", "map", "struct", "chan", "func", "iface"}[k]
}
