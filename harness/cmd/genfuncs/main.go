// genfuncs writes the corpus of the function-plumbing / error-chaining family (C15, C16): a Go module
// `corpus` of many small packages (one per signature class and combinator, so that one wrapper that
// does not compile hides nothing else), the op lines and the prelude for the Lean driver.
//
// Unlike gencorpus it generates *signatures* and *chains*, not data types. The caller runs the real
// goderive on every package separately, type-checks every package separately, and then links the
// packages that compile into one driver program (main.go is written by the caller: it depends on
// which packages compiled).
package main

import (
	"encoding/json"
	"flag"
	"fmt"
	"math/rand"
	"os"
	"path/filepath"
	"sort"
	"strings"

	"verifharness/funcs"
)

var (
	out      = flag.String("out", "", "output directory")
	seed     = flag.Int64("seed", 1, "PRNG seed")
	thorough = flag.Bool("thorough", false, "thorough tier")
	harness  = flag.String("harness", "/verif/harness", "path of the verifharness module")
	plugins  = flag.String("plugins", "curry,uncurry,flip,apply,tuple", "comma separated plugin list")
	cfg      = flag.String("cfg", "00000000000000000", "model variant flags written into every op line: unnamedFixed shadowFixed crossFixed voidFixed prefixFixed universeFixed resultsFixed resultOuterFixed qualFixed zeroFixed lhsFixed errTypeFixed errRecvFixed typedNilFixed localsFixed")
)

func must(err error) {
	if err != nil {
		fmt.Fprintln(os.Stderr, err)
		os.Exit(2)
	}
}

func write(path, s string) {
	must(os.MkdirAll(filepath.Dir(path), 0o755))
	must(os.WriteFile(path, []byte(s), 0o644))
}

type gen struct {
	rng     *rand.Rand
	classes []*funcs.Class
	stats   map[string]int
}

func (g *gen) add(c *funcs.Class) {
	c.Pkg = fmt.Sprintf("k%d", len(g.classes))
	g.classes = append(g.classes, c)
	g.stats["pkgs:"+c.Kind]++
	g.stats["tag:"+c.Kind+":"+c.Tag]++
}

func (g *gen) anyType() int { pt := funcs.PoolTypes(); return pt[g.rng.Intn(len(pt))].ID }

func (g *gen) okType() int {
	ok := funcs.OKTypes()
	return ok[g.rng.Intn(len(ok))]
}

func (g *gen) types(n int, okOnly bool) []int {
	ts := make([]int, n)
	for i := range ts {
		if okOnly {
			ts[i] = g.okType()
		} else {
			ts[i] = g.anyType()
		}
	}
	return ts
}

var letters = []string{"a", "b", "c", "d", "e"}

// vocab: identifiers the generator's templates use themselves (parameters and locals of the emitted
// functions), apart from f and err which have their own schemes.
var vocab = []string{"last", "rest", "this", "that", "v", "out", "in", "list", "item", "elem", "res", "ok", "i", "m", "h",
	"dst", "src", "buf", "g", "c", "r", "l", "ss", "wg", "wait", "success", "out0", "v0", "err0", "fn", "w", "e"}

// naming returns the parameter names of scheme s for n parameters, or nil when the scheme does not
// exist for that arity.
func naming(s string, n int) []string {
	ns := append([]string{}, letters[:n]...)
	switch s {
	case "named":
	case "blankall":
		for i := range ns {
			ns[i] = "_"
		}
	case "blankmix":
		for i := range ns {
			if i%2 == 1 {
				ns[i] = "_"
			}
		}
		if n == 1 {
			ns[0] = "_"
		}
	case "unnamed":
		for i := range ns {
			ns[i] = ""
		}
	case "f0":
		ns[0] = "f"
	case "flast":
		if n < 2 {
			return nil
		}
		ns[n-1] = "f"
	case "fmid":
		if n < 3 {
			return nil
		}
		ns[1] = "f"
	case "prefixed":
		ns[0] = "param_1"
	case "prefixblank":
		if n < 2 {
			return nil
		}
		ns[0], ns[1] = "param_1", "_"
	case "gennames":
		copy(ns, []string{"v0", "innerParam_0", "v1", "param_x", "g"}[:n])
	case "blankf":
		if n < 2 {
			return nil
		}
		ns[0], ns[1] = "_", "f"
	case "err0":
		ns[0] = "err"
	case "universe":
		copy(ns, []string{"nil", "string", "true", "len", "error"}[:n])
	case "universe2":
		copy(ns, []string{"a", "int", "b", "nil", "new"}[:n])
	case "prefixuser":
		copy(ns, []string{"param_3", "b", "innerParam_0", "param_x", "e"}[:n])
	default:
		panic(s)
	}
	return ns
}

func (g *gen) params(names []string) []funcs.Param {
	ps := make([]funcs.Param, len(names))
	for i, n := range names {
		ps[i] = funcs.Param{Name: n, T: g.anyType()}
	}
	return ps
}

func (g *gen) genC15() {
	schemes := []string{"named", "blankall", "blankmix", "unnamed", "f0", "flast", "fmid", "prefixed", "prefixblank", "gennames", "blankf",
		"universe", "universe2", "prefixuser"}
	idx := 0
	reps := 1
	if *thorough {
		reps = 2 // two independent draws of the parameter and result types per (scheme, arity, result count)
	}
	for rep := 0; rep < reps; rep++ {
		for _, s := range schemes {
			for n := 2; n <= 5; n++ {
				names := naming(s, n)
				if names == nil {
					continue
				}
				var rcs []int
				if *thorough {
					rcs = []int{0, 1, 2, 3}
				} else {
					rcs = []int{idx % 4, 1 + (idx+1)%3}
					if rcs[0] == rcs[1] {
						rcs = rcs[:1]
					}
				}
				idx++
				for _, rc := range rcs {
					ps := g.params(names)
					rs := g.types(rc, false)
					for _, kind := range []string{"curry", "flip", "apply", "uncurrycurry"} {
						g.add(&funcs.Class{Prop: "C15", Kind: kind, Tag: s, Ps: ps, Rs: rs})
					}
					g.stats[fmt.Sprintf("arity:%d", n)]++
					g.stats[fmt.Sprintf("results:%d", rc)]++
				}
			}
		}
	}
	// apply with a pre-bound argument that is NOT a typed value: untyped constants of every kind for every
	// (named) basic parameter type, named constants, nil for every nil-able type, concrete values for an
	// interface parameter. The type of the bound parameter has to come from the function, not the argument.
	type ae struct {
		t       int
		expr    string
		payload int
		tag     string
	}
	aes := []ae{
		{0, "7", 7, "int-const"}, {0, "3.0", 3, "float-const"}, {0, "'a'", 97, "rune-const"}, {0, "K", 3, "named-const"},
		{1, "\"5\"", 5, "string-const"}, {2, "true", 1, "bool-const"},
		{3, "2", 2, "int-const"}, {3, "'a'", 97, "rune-const"}, {3, "2.0", 2, "float-const"}, {3, "K", 3, "named-const"},
		{4, "2", 2, "int-const"}, {4, "K", 3, "named-const"}, {4, "KT", 4, "typed-const"}, {4, "'a'", 97, "rune-const"}, {4, "4.0", 4, "float-const"},
		{5, "\"5\"", 5, "string-const"}, {14, "true", 1, "bool-const"},
		{15, "7", 7, "int-const"}, {15, "'a'", 97, "rune-const"}, {15, "K", 3, "named-const"},
		{8, "nil", 0, "nil"}, {9, "nil", 0, "nil"}, {10, "nil", 0, "nil"}, {11, "nil", 0, "nil"}, {13, "nil", 0, "nil"},
		{11, "5", 5, "iface-const"}, {11, "mk0(6)", 6, "iface-concrete"}, {11, "K", 3, "iface-named-const"},
	}
	for i, e := range aes {
		n := 1 + i%4 // also the one-parameter form: deriveApply(f, v)()
		ps := g.params(naming("named", n))
		ps[n-1].T = e.t
		g.add(&funcs.Class{Prop: "C15", Kind: "apply", Tag: "argexpr:" + e.tag, Ps: ps, Rs: g.types(1+i%3, false),
			LastExpr: e.expr, LastPayload: e.payload})
	}
	// two call sites under ONE derive function name whose argument function types are identical up to the
	// parameter names (the second site has them in reverse order): one generated function serves both, and
	// both must still be plumbed by position
	for i, kind := range []string{"curry", "flip", "apply", "uncurrycurry", "curry", "flip", "apply", "uncurrycurry"} {
		n := 2 + i%3
		ps := g.params(naming("named", n))
		if i >= 4 {
			for j := range ps {
				ps[j].T = ps[0].T // all parameters of one type: swapped arguments would still compile
			}
		}
		g.add(&funcs.Class{Prop: "C15", Kind: kind, Tag: "twin", Ps: ps, Rs: g.types(1+i%2, false), Twin: true})
	}
	for i := 0; i < 4; i++ {
		inner := g.params(naming("named", 2+i%2))
		if i%2 == 0 {
			for j := range inner {
				inner[j].T = inner[0].T
			}
		}
		g.add(&funcs.Class{Prop: "C15", Kind: "uncurry", Tag: "twin", Outer: g.params([]string{"z"}), Inner: inner, Rs: g.types(1+i%2, false), Twin: true})
	}
	// the type whose spelling contains a per cent sign, in every position of every wrapper
	pct := 16
	for i, kind := range []string{"curry", "flip", "apply", "uncurrycurry"} {
		ps := g.params(naming("named", 2+i%2))
		ps[i%len(ps)].T = pct
		g.add(&funcs.Class{Prop: "C15", Kind: kind, Tag: "percent", Ps: ps, Rs: []int{pct, g.anyType()}})
	}
	g.add(&funcs.Class{Prop: "C15", Kind: "uncurry", Tag: "percent", Outer: []funcs.Param{{Name: "a", T: pct}}, Inner: []funcs.Param{{Name: "b", T: pct}}, Rs: []int{pct}})
	g.add(&funcs.Class{Prop: "C15", Kind: "tuple", Tag: "percent", Ts: []int{pct}})
	g.add(&funcs.Class{Prop: "C15", Kind: "tuple", Tag: "percent", Ts: []int{g.anyType(), pct, pct}})
	g.add(&funcs.Class{Prop: "C15", Kind: "tuple", Tag: "percent", Ts: []int{pct, g.anyType()}, FromCall: true})
	// variadic signatures: refused (or served correctly)
	for i, kind := range []string{"curry", "flip", "apply", "uncurry"} {
		c := &funcs.Class{Prop: "C15", Kind: kind, Tag: "variadic", Ps: g.params(naming("named", 1+i%2)), Rs: g.types(1, false), Variadic: []string{"interface{}", "int", "string", "NI"}[i]}
		if kind == "uncurry" {
			c.Outer, c.Inner, c.Ps = g.params([]string{"a"}), g.params([]string{"b"}), nil
		}
		g.add(c)
	}
	// named results: names the wrappers use themselves (f, param_<i>, innerParam_<i>) and harmless ones
	for i, rn := range [][]string{{"f"}, {"param_0"}, {"err"}, {"success"}, {"out0"}, {"innerParam_1"}, {"r", "f"}, {"param_1", "x"}, {"res", "ok"}} {
		names := naming([]string{"named", "blankmix", "blankall"}[i%3], 2+i%2)
		ps := g.params(names)
		rs := g.types(len(rn), false)
		for _, kind := range []string{"curry", "flip", "apply", "uncurrycurry"} {
			g.add(&funcs.Class{Prop: "C15", Kind: kind, Tag: "resultnames", Ps: ps, Rs: rs, Rn: rn})
		}
		inner := g.params(naming([]string{"named", "blankall"}[i%2], 1+i%2))
		g.add(&funcs.Class{Prop: "C15", Kind: "uncurry", Tag: "resultnames", Outer: g.params([]string{[]string{"z", "_"}[i%2]}), Inner: inner, Rs: rs, Rn: rn})
	}
	// a parameter named like the package that qualifies the type of a LATER parameter / of a result
	for i, kind := range []string{"curry", "flip", "apply", "uncurrycurry", "curry", "apply"} {
		n := 2 + i%2
		ps := g.params(naming("named", n))
		ps[0].Name = "unsafe"
		rs := g.types(1+i%2, false)
		if i < 4 {
			ps[n-1].T = 18
		} else {
			rs[0] = 18
		}
		g.add(&funcs.Class{Prop: "C15", Kind: kind, Tag: "qualifier", Ps: ps, Rs: rs})
	}
	g.add(&funcs.Class{Prop: "C15", Kind: "uncurry", Tag: "qualifier", Outer: []funcs.Param{{Name: "unsafe", T: g.anyType()}},
		Inner: []funcs.Param{{Name: "b", T: 18}}, Rs: g.types(1, false)})
	g.add(&funcs.Class{Prop: "C15", Kind: "uncurry", Tag: "qualifier", Outer: []funcs.Param{{Name: "a", T: 18}},
		Inner: []funcs.Param{{Name: "unsafe", T: g.anyType()}, {Name: "c", T: 18}}, Rs: g.types(1, false)})
	// uncurry of a function of Step's own shape: an inner parameter named like the outer one AND an inner parameter
	// `f Step` (an argument that could stand in for the curried function: if the wrapper's `f` resolved to it, the
	// text would still compile and call the decoy instead of the function)
	g.add(&funcs.Class{Prop: "C15", Kind: "uncurry", Tag: "recursive", Outer: []funcs.Param{{Name: "n", T: 0}},
		Inner: []funcs.Param{{Name: "n", T: 0}, {Name: "f", T: 22}}, Rs: []int{0}})
	g.add(&funcs.Class{Prop: "C15", Kind: "uncurry", Tag: "recursive", Outer: []funcs.Param{{Name: "a", T: 0}},
		Inner: []funcs.Param{{Name: "_", T: 0}, {Name: "f", T: 22}}, Rs: []int{0}})
	g.add(&funcs.Class{Prop: "C15", Kind: "uncurry", Tag: "recursive", Outer: []funcs.Param{{Name: "n", T: 0}},
		Inner: []funcs.Param{{Name: "f", T: 22}, {Name: "n", T: 0}}, Rs: []int{0}})
	// uncurry: an inner RESULT that bears the name of the outer parameter (two signatures merged into one)
	for i, c := range []struct {
		outer string
		inner []string
		rn    []string
	}{{"a", []string{"b"}, []string{"a"}}, {"z", []string{"b", "c"}, []string{"r", "z"}}, {"x", []string{"_"}, []string{"x", "y"}}} {
		g.add(&funcs.Class{Prop: "C15", Kind: "uncurry", Tag: "resultparam", Outer: g.params([]string{c.outer}), Inner: g.params(c.inner),
			Rs: g.types(len(c.rn), false), Rn: c.rn})
		_ = i
	}
	// parameter names from the generator's OWN vocabulary (the identifiers its templates use for parameters
	// and locals) at every position, all parameters of one type: a capture would compile silently
	for i := range vocab {
		n := 3
		names := []string{vocab[i], vocab[(i+1)%len(vocab)], vocab[(i+2)%len(vocab)]}
		t := g.anyType()
		ps := make([]funcs.Param, n)
		for j := range ps {
			ps[j] = funcs.Param{Name: names[j], T: t}
		}
		rs := g.types(1+i%2, false)
		for _, kind := range []string{"curry", "flip", "apply", "uncurrycurry"} {
			g.add(&funcs.Class{Prop: "C15", Kind: kind, Tag: "vocab", Ps: ps, Rs: rs})
		}
		if i%2 == 0 {
			g.add(&funcs.Class{Prop: "C15", Kind: "uncurry", Tag: "vocab", Outer: ps[:1], Inner: ps[1:], Rs: rs})
		}
	}
	// an interface parameter bound to a value of an IMPORTED named type that no signature mentions: the
	// generated file must not import that package (one such call per package)
	for i, e := range []struct {
		t       int
		expr    string
		payload int
	}{{17, "geo.Square{N: 6}", 6}, {11, "geo.Square{N: 4}", 4}, {17, "geo.Dur(7)", 7}, {11, "geo.Dur(5)", 5}} {
		n := 1 + i%3
		ps := g.params(naming("named", n))
		ps[n-1].T = e.t
		g.add(&funcs.Class{Prop: "C15", Kind: "apply", Tag: "argexpr:imported", Ps: ps, Rs: g.types(1+i%2, false),
			LastExpr: e.expr, LastPayload: e.payload, Import: "corpus/geo"})
	}
	// signatures that mention INSTANCES of generic named types, as parameters and results, for every wrapper
	for i, kind := range []string{"curry", "flip", "apply", "uncurrycurry"} {
		ps := g.params(naming("named", 2+i%2))
		ps[i%len(ps)].T = 23 + i%2
		g.add(&funcs.Class{Prop: "C15", Kind: kind, Tag: "generic-instance", Ps: ps, Rs: []int{24 - i%2}})
	}
	g.add(&funcs.Class{Prop: "C15", Kind: "uncurry", Tag: "generic-instance", Outer: []funcs.Param{{Name: "a", T: 23}}, Inner: []funcs.Param{{Name: "b", T: 24}}, Rs: []int{23}})
	g.add(&funcs.Class{Prop: "C15", Kind: "tuple", Tag: "generic-instance", Ts: []int{23, 24}})
	// derive calls nested three and four deep in a package without an old derived.gen.go: one run must do
	for i := 0; i < 3; i++ {
		ps := g.params(naming("named", 3+i%2))
		rs := g.types(1+i%2, false)
		g.add(&funcs.Class{Prop: "C15", Kind: "nest3", Tag: "nested", Ps: ps, Rs: rs})
		g.add(&funcs.Class{Prop: "C15", Kind: "nest4", Tag: "nested", Ps: ps, Rs: rs})
	}
	// tuple of slices: deriveTuple(xs, n)() returns xs itself
	for _, ts := range [][]int{{9, 0}, {9}, {1, 9, 9}} {
		g.add(&funcs.Class{Prop: "C15", Kind: "tuple", Tag: "sliceobs", Ts: ts, SliceObs: true})
	}
	// tuple
	for n := 1; n <= 5; n++ {
		g.add(&funcs.Class{Prop: "C15", Kind: "tuple", Tag: "direct", Ts: g.types(n, false)})
		if n >= 2 && (n <= 4 || *thorough) {
			g.add(&funcs.Class{Prop: "C15", Kind: "tuple", Tag: "fromcall", Ts: g.types(n, false), FromCall: true})
		}
	}
	// uncurry on a hand-written curried function: one outer parameter, m inner parameters
	type un struct {
		tag   string
		outer string
		inner func(m int) []string
	}
	fill := func(first string, blankOdd bool) func(int) []string {
		return func(m int) []string {
			ns := append([]string{}, letters[1:1+m]...)
			if first != "-" {
				ns[0] = first
			}
			if blankOdd {
				for i := range ns {
					if i%2 == 1 {
						ns[i] = "_"
					}
				}
			}
			return ns
		}
	}
	all := func(s string) func(int) []string {
		return func(m int) []string {
			ns := make([]string, m)
			for i := range ns {
				ns[i] = s
			}
			return ns
		}
	}
	uns := []un{
		{"named", "a", fill("-", false)},
		{"blankboth", "_", all("_")},
		{"blankinner", "a", fill("_", true)},
		{"unnamed", "", all("")},
		{"outerunnamed", "", fill("-", false)},
		{"innerunnamed", "a", all("")},
		{"innerf", "a", fill("f", false)},
		{"outerf", "f", fill("-", false)},
		{"cross", "a", fill("a", false)},
		{"crossgen", "innerParam_0", fill("_", false)},
		{"crossgen2", "_", fill("param_0", false)},
		{"prefixouter", "param_1", fill("innerParam_2", false)},
		{"prefixswap", "innerParam_0", fill("param_0", false)},
		{"universe", "string", fill("nil", false)},
		// the outer name again further right in the inner list: renamed to innerParam_<its index> first
		{"crosslater", "a", func(m int) []string {
			ns := append([]string{}, []string{"_", "b", "c", "d"}[:m]...)
			ns[m-1] = "a"
			return ns
		}},
		{"crossprefix", "a", func(m int) []string {
			ns := append([]string{}, []string{"innerParam_1", "innerParam_3", "c", "d"}[:m]...)
			ns[m-1] = "a"
			return ns
		}},
	}
	for i, u := range uns {
		ms := []int{i%4 + 1, (i+2)%4 + 1}
		if *thorough || i < 3 {
			ms = []int{1, 2, 3, 4}
		}
		for j, m := range ms {
			outer := g.params([]string{u.outer})
			inner := g.params(u.inner(m))
			rc := 1 + (i+j)%3
			if j%2 == 1 {
				rc = (i + j/2) % 4
			}
			g.add(&funcs.Class{Prop: "C15", Kind: "uncurry", Tag: u.tag, Outer: outer, Inner: inner, Rs: g.types(rc, false)})
			g.stats[fmt.Sprintf("arity:%d", m+1)]++
		}
	}
}

func (g *gen) genC16() {
	// ---- compose
	addChain := func(tag string, ins []int, stages [][]int) {
		g.add(&funcs.Class{Prop: "C16", Kind: "compose", Tag: tag, Ins: ins, Stages: stages})
		g.stats[fmt.Sprintf("stages:%d", len(stages))]++
		g.stats[fmt.Sprintf("finalresults:%d", len(stages[len(stages)-1]))]++
	}
	reps := 1
	if *thorough {
		reps = 4
	}
	for r := 0; r < reps; r++ {
		for n := 2; n <= 4; n++ {
			// well-typed zeros everywhere, every stage has a result
			for i := 0; i < 6; i++ {
				st := make([][]int, n)
				for s := range st {
					st[s] = g.types(1+g.rng.Intn(3), true)
				}
				addChain("ok", g.types(i%4, false), st)
			}
			// a stage without a non-error result at every position
			for pos := 0; pos < n; pos++ {
				st := make([][]int, n)
				for s := range st {
					st[s] = g.types(1+g.rng.Intn(3), true)
				}
				st[pos] = nil
				addChain("noresult", g.types(g.rng.Intn(4), false), st)
			}
		}
		// every type of the table as a final result
		for _, t := range funcs.PoolTypes() {
			n := 2 + t.ID%3
			st := make([][]int, n)
			for s := range st {
				st[s] = g.types(1+g.rng.Intn(2), false)
			}
			last := []int{t.ID}
			if t.ID%2 == 1 {
				last = []int{g.okType(), t.ID}
			}
			if t.ID%5 == 4 {
				last = append(last, g.okType())
			}
			st[n-1] = last
			addChain("final:"+t.Kind, g.types(g.rng.Intn(4), false), st)
		}
		// anything
		for i := 0; i < 10; i++ {
			n := 2 + g.rng.Intn(3)
			st := make([][]int, n)
			for s := range st {
				st[s] = g.types(g.rng.Intn(4), g.rng.Intn(2) == 0)
			}
			addChain("random", g.types(g.rng.Intn(4), false), st)
		}
	}
	// ---- neighbouring stages of assignable, NOT identical types: a pointer result received by an interface
	// parameter (a nil pointer must arrive as an interface holding the typed nil: "passing results on unchanged")
	for i, it := range []int{17, 11, 17, 11} {
		n := 2 + i/2
		st := make([][]int, n)
		st[0] = append([]int{21}, g.types(i%2, true)...)
		for j := 1; j < n; j++ {
			st[j] = g.types(1+j%2, true)
		}
		g.add(&funcs.Class{Prop: "C16", Kind: "compose", Tag: "ptr-to-iface", Ins: g.types(i%3, false), Stages: st, IfaceParam: it})
	}
	// ---- fmap, error form
	g.add(&funcs.Class{Prop: "C16", Kind: "fmape", Tag: "results:0", In: g.anyType()})
	for _, t := range funcs.PoolTypes() {
		g.add(&funcs.Class{Prop: "C16", Kind: "fmape", Tag: "results:1:" + t.Kind, In: g.anyType(), Outs: []int{t.ID}})
	}
	for i := 0; i < 6; i++ {
		g.add(&funcs.Class{Prop: "C16", Kind: "fmape", Tag: fmt.Sprintf("results:%d", 2+i%2), In: g.anyType(), Outs: g.types(2+i%2, i < 2)})
	}
	// ---- fmap's multi-result form next to a user's deriveTuple of assignable-but-not-identical types
	g.add(&funcs.Class{Prop: "C16", Kind: "fmape", Tag: "tupleclash", In: g.okType(), Outs: []int{9, 1}, TupleClash: []int{13, 1}})
	g.add(&funcs.Class{Prop: "C16", Kind: "fmape", Tag: "tupleclash", In: g.okType(), Outs: []int{13, 0}, TupleClash: []int{9, 0}})
	g.add(&funcs.Class{Prop: "C16", Kind: "fmape", Tag: "tupleclash", In: g.okType(), Outs: []int{0, 9, 1}, TupleClash: []int{0, 13, 1}})
	// ---- slice identity through fmap's multi-result form (its result function comes from tuple): f's slices must
	// come back as they are — nil stays nil, empty stays empty, a non-empty one keeps its backing array
	for _, outs := range [][]int{{9, 0}, {1, 9}, {9, 9, 2}} {
		g.add(&funcs.Class{Prop: "C16", Kind: "fmape", Tag: "sliceobs", In: g.okType(), Outs: outs, SliceObs: true})
	}
	// ---- join, error form
	g.add(&funcs.Class{Prop: "C16", Kind: "joine", Tag: "results:0"})
	for _, t := range funcs.PoolTypes() {
		g.add(&funcs.Class{Prop: "C16", Kind: "joine", Tag: "results:1:" + t.Kind, Outs: []int{t.ID}})
	}
	for i := 0; i < 4; i++ {
		g.add(&funcs.Class{Prop: "C16", Kind: "joine", Tag: fmt.Sprintf("results:%d", 2+i%2), Outs: g.types(2+i%2, i < 2)})
	}
	// ---- join of fmap (monadic bind)
	for i, t := range []int{0, 1, 2, 4, 6, 7, 8, 9, 11, 12, 18, 19} {
		g.add(&funcs.Class{Prop: "C16", Kind: "bind", Tag: "results:1:" + funcs.Types[t].Kind, In: g.anyType(), Outs: []int{t}, Split: i%2 == 0})
	}
	for i := 0; i < 6; i++ {
		g.add(&funcs.Class{Prop: "C16", Kind: "bind", Tag: fmt.Sprintf("results:%d", 2+i%2), In: g.anyType(), Outs: g.types(2+i%2, i < 3), Split: i < 4})
	}
	// more multi-result fmap error forms: the only helper that returns a function holding evaluated results
	for i := 0; i < 6; i++ {
		g.add(&funcs.Class{Prop: "C16", Kind: "fmape", Tag: fmt.Sprintf("results:%d", 2+i%2), In: g.anyType(), Outs: g.types(2+i%2, false)})
	}
	// ---- traverse
	for _, t := range funcs.PoolTypes() {
		g.add(&funcs.Class{Prop: "C16", Kind: "traverse", Tag: "out:" + t.Kind, In: g.anyType(), Outs: []int{t.ID}})
	}
	// ---- custom error types and near-misses wherever derive.IsError decides (accept / refuse, does the
	// accepted form compile, behaviour where a custom error VALUE is handed over)
	for i, et := range funcs.ErrNames {
		okT := func() int { return g.okType() }
		g.add(&funcs.Class{Prop: "C16", Kind: "compose", Tag: "errty:" + et, Ins: []int{okT()}, Stages: [][]int{{okT()}, {okT()}}, ErrTy: et, ErrAt: "result"})
		g.add(&funcs.Class{Prop: "C16", Kind: "traverse", Tag: "errty:" + et, In: okT(), Outs: []int{okT()}, ErrTy: et, ErrAt: "result"})
		g.add(&funcs.Class{Prop: "C16", Kind: "fmape", Tag: "errty:" + et, In: okT(), Outs: g.types(i%3, true), ErrTy: et, ErrAt: "result"})
		g.add(&funcs.Class{Prop: "C16", Kind: "joine", Tag: "errty:result:" + et, Outs: g.types(1+i%2, true), ErrTy: et, ErrAt: "result"})
		g.add(&funcs.Class{Prop: "C16", Kind: "joine", Tag: "errty:arg:" + et, Outs: g.types(1+i%2, true), ErrTy: et, ErrAt: "arg"})
		g.add(&funcs.Class{Prop: "C16", Kind: "toerror", Tag: "errty:" + et, Ps: g.params(naming("named", 1+i%2)), Rs: g.types(i%3, false), ErrTy: et, ErrAt: "arg"})
		g.add(&funcs.Class{Prop: "C16", Kind: "toerror", Tag: "errty:" + et, Ps: g.params(naming("blankmix", 2+i%2)), Rs: g.types((i+1)%3, false), ErrTy: et, ErrAt: "arg"})
	}
	// ---- a variadic stage at every position, with ...interface{} (arguments would be forwarded as ONE slice) and ...int
	for i, el := range []string{"interface{}", "int", "interface{}", "int", "string", "interface{}"} {
		n := 2 + i%2
		st := make([][]int, n)
		for j := range st {
			st[j] = g.types(1, true)
		}
		pos := []int{0, 0, 1, n - 1, 0, 0}[i]
		ins := g.types(i%2, true) // the fixed parameters in front of the variadic one
		if pos > 0 {
			ins = g.types(1, true)
		}
		g.add(&funcs.Class{Prop: "C16", Kind: "compose", Tag: fmt.Sprintf("variadic:%d", pos), Ins: ins, Stages: st, Variadic: el, VarStage: pos})
	}
	g.add(&funcs.Class{Prop: "C16", Kind: "toerror", Tag: "variadic", Ps: g.params(naming("named", 1)), Rs: g.types(1, false), Variadic: "int"})
	// ---- two call sites of one derive function (same types, other parameter names / other stage functions)
	for i := 0; i < 3; i++ {
		g.add(&funcs.Class{Prop: "C16", Kind: "toerror", Tag: "twin", Ps: g.params(naming("named", 2+i%2)), Rs: g.types(1+i%2, false), Twin: true})
		st := [][]int{g.types(1+i%2, true), g.types(1, true)}
		g.add(&funcs.Class{Prop: "C16", Kind: "compose", Tag: "twin", Ins: g.types(1+i%2, false), Stages: st, Twin: true})
	}
	// ---- the type whose spelling contains a per cent sign
	g.add(&funcs.Class{Prop: "C16", Kind: "compose", Tag: "percent", Ins: []int{16}, Stages: [][]int{{16, g.okType()}, {16}}})
	g.add(&funcs.Class{Prop: "C16", Kind: "fmape", Tag: "percent", In: 16, Outs: []int{16}})
	g.add(&funcs.Class{Prop: "C16", Kind: "fmape", Tag: "percent", In: 16, Outs: []int{16, 16}})
	g.add(&funcs.Class{Prop: "C16", Kind: "joine", Tag: "percent", Outs: []int{16, g.okType()}})
	g.add(&funcs.Class{Prop: "C16", Kind: "bind", Tag: "percent", In: 16, Outs: []int{16}, Split: true})
	g.add(&funcs.Class{Prop: "C16", Kind: "traverse", Tag: "percent", In: 16, Outs: []int{16}})
	g.add(&funcs.Class{Prop: "C16", Kind: "toerror", Tag: "percent", Ps: []funcs.Param{{Name: "a", T: 16}}, Rs: []int{16}})
	// ---- toerror with the generator's own vocabulary as parameter names (success and out<i> are its locals)
	for i := range vocab {
		if i%2 == 1 {
			continue
		}
		t := g.anyType()
		ps := []funcs.Param{{Name: vocab[i], T: t}, {Name: vocab[(i+1)%len(vocab)], T: t}}
		g.add(&funcs.Class{Prop: "C16", Kind: "toerror", Tag: "vocab", Ps: ps, Rs: g.types(i/2%3, false)})
	}
	// ---- toerror over functions with NAMED results (names the helpers use themselves included)
	for i, rn := range [][]string{{"f"}, {"out0", "success"}, {"err", "ok"}, {"param_0", "b"}, {"success", "out0", "x"}} {
		g.add(&funcs.Class{Prop: "C16", Kind: "toerror", Tag: "resultnames", Ps: g.params(naming([]string{"named", "blankmix"}[i%2], 1+i%2)),
			Rs: g.types(len(rn)-1, false), Rn: rn})
	}
	// ---- toerror with predeclared identifiers and the renaming's own prefixes as parameter names
	for i, s := range []string{"universe", "universe2", "prefixuser"} {
		g.add(&funcs.Class{Prop: "C16", Kind: "toerror", Tag: s, Ps: g.params(naming(s, 2+i%2)), Rs: g.types(1, false)})
	}
	g.add(&funcs.Class{Prop: "C16", Kind: "toerror", Tag: "qualifier", Ps: []funcs.Param{{Name: "unsafe", T: g.anyType()}, {Name: "p", T: 18}}, Rs: g.types(1, false)})
	// ---- toerror given an error VALUE of an imported type
	g.add(&funcs.Class{Prop: "C16", Kind: "toerror", Tag: "imported-error", Ps: g.params(naming("named", 2)), Rs: g.types(1, false),
		ErrExpr: "geo.Err{Code: in[\"err\"][0]}", Import: "corpus/geo"})
	// ---- toerror
	for _, s := range []string{"named", "blankall", "blankmix", "unnamed", "f0", "err0", "prefixblank", "gennames"} {
		for n := 1; n <= 3; n++ {
			names := naming(s, n)
			if names == nil {
				continue
			}
			g.add(&funcs.Class{Prop: "C16", Kind: "toerror", Tag: s, Ps: g.params(names), Rs: g.types((n+len(s))%3, false)})
		}
	}
}

func main() {
	flag.Parse()
	if len(*cfg) != 17 || strings.Trim(*cfg, "01") != "" {
		must(fmt.Errorf("-cfg wants seventeen binary digits"))
	}
	g := &gen{rng: rand.New(rand.NewSource(*seed)), stats: map[string]int{}}
	want := map[string]bool{}
	for _, p := range strings.Split(*plugins, ",") {
		want[p] = true
	}
	if want["curry"] || want["uncurry"] || want["flip"] || want["apply"] || want["tuple"] {
		g.genC15()
	}
	if want["compose"] || want["traverse"] || want["toerror"] || want["fmap"] || want["join"] {
		g.genC16()
	}
	cfgWire := "(cfg " + strings.Join(strings.Split(*cfg, ""), " ") + ")"

	write(filepath.Join(*out, "go.mod"), fmt.Sprintf("module corpus\n\ngo 1.24\n\nrequire verifharness v0.0.0\n\nreplace verifharness => %s\n", *harness))
	write(filepath.Join(*out, "prelude.txt"), funcs.Prelude())
	write(filepath.Join(*out, "geo", "geo.go"), funcs.Geo)
	var ops strings.Builder
	var pkgs []string
	id := 0
	nops := map[string]int{}
	type classInfo struct {
		Pkg, Prop, Kind, Tag, Sig, Go string
		Ops                           int
	}
	var infos []classInfo
	nargs := 4
	if *thorough {
		nargs = 8
	}
	for _, c := range g.classes {
		write(filepath.Join(*out, c.Pkg, "fxt.go"), funcs.Common(c.Pkg))
		write(filepath.Join(*out, c.Pkg, "s.go"), c.Source())
		pkgs = append(pkgs, c.Pkg)
		id++
		fmt.Fprintf(&ops, "op %d %s\n", id, c.BuildOp(cfgWire))
		nops["build"]++
		lines := c.Ops(g.rng, cfgWire, nargs)
		for _, l := range lines {
			id++
			fmt.Fprintf(&ops, "op %d %s\n", id, l)
			nops[c.Kind]++
		}
		infos = append(infos, classInfo{c.Pkg, c.Prop, c.Kind, c.Tag, c.SigWire(), c.GoSig(), len(lines)})
	}
	write(filepath.Join(*out, "ops.txt"), ops.String())
	write(filepath.Join(*out, "pkgs.txt"), strings.Join(pkgs, " ")+"\n")
	js, err := json.MarshalIndent(infos, "", " ")
	must(err)
	write(filepath.Join(*out, "classes.json"), string(js))

	g.stats["packages"] = len(g.classes)
	for k, v := range nops {
		g.stats["ops:"+k] = v
	}
	var keys []string
	for k := range g.stats {
		keys = append(keys, k)
	}
	sort.Strings(keys)
	var sb strings.Builder
	sb.WriteString("{")
	for i, k := range keys {
		if i > 0 {
			sb.WriteString(", ")
		}
		fmt.Fprintf(&sb, "%q: %d", k, g.stats[k])
	}
	sb.WriteString("}\n")
	write(filepath.Join(*out, "stats.json"), sb.String())
}
