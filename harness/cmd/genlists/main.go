// genlists writes the corpus module for the slice / map / string helper plugins (properties C13,
// C14, C17): element types, derive calls behind plain typed wrappers, a reflection driver, and the
// op lines for the Lean driver and the compiled corpus program (formats: lean/Driver/OpsLists.lean).
package main

import (
	"flag"
	"fmt"
	"go/token"
	"math"
	"math/big"
	"math/rand"
	"os"
	"path/filepath"
	"sort"
	"strconv"
	"strings"
	"unicode/utf8"

	"verifharness/gen"
	"verifharness/ty"
)

var (
	out      = flag.String("out", "", "output directory")
	seed     = flag.Int64("seed", 1, "PRNG seed")
	thorough = flag.Bool("thorough", false, "thorough tier")
	harness  = flag.String("harness", "/verif/harness", "path of the verifharness module")
	plugins  = flag.String("plugins", "sort,keys,min,max", "comma separated plugin list")
)

func must(err error) {
	if err != nil {
		fmt.Fprintln(os.Stderr, err)
		os.Exit(2)
	}
}

func write(path, s string) {
	must(os.MkdirAll(filepath.Dir(path), 0o755))
	must(os.WriteFile(path, []byte(s), 0o644))
}

type opw struct {
	f  *os.File
	id int
	n  map[string]int
}

func (o *opw) op(name string, tyname string, args ...string) {
	o.id++
	o.n[name]++
	fmt.Fprintf(o.f, "op %d %s %s %s\n", o.id, name, tyname, strings.Join(args, " "))
}

// G is the generation state.
type G struct {
	env     *ty.Env
	vg      *gen.VGen
	rng     *rand.Rand
	ow      *opw
	m       *strings.Builder // body of main.init
	prelude *strings.Builder
	qs      []*strings.Builder
	qtypes  [][]*ty.Ty
	lastPkg int          // the derive package elemOps placed its last element type in
	qshadow map[int]bool // packages that import the user packages named like standard ones
	stats   map[string]int
	want    map[string]bool
	maxLen  int
	nRandom int
	eqOnly  bool                 // the current element type gets the …eq consistency ops only (its methods are unknown to the Lean model)
	tnPre   string               // prefix of the type name the ops carry ("L"; finding classes use other prefixes)
	customE map[string]bool      // local declarations with a hand-written Equal method
	pools   map[string][]*ty.Val // value pools of local declarations that need special values
	eqAlso  map[string]bool      // element types (by wire form) that also get the …eq consistency ops
	discard *opw
	noTwo   bool // the current element type gets no two-value min / max (its argument lists would be ambiguous)
	force   int  // >= 0: the derive package every placement goes to (shadow-import packages)
	shadow  bool // the corpus holds the user packages named strings / sort / bytes
}

func (g *G) stat(k string, n int) { g.stats[k] += n }

// pkgOf places an element type into the first derive package that holds no mutually assignable type.
func (g *G) pkgOf(t *ty.Ty) int {
	if g.force >= 0 {
		g.qtypes[g.force] = append(g.qtypes[g.force], t)
		return g.force
	}
	for qi := range g.qs {
		if g.qshadow[qi] {
			continue
		}
		clash := false
		for _, o := range g.qtypes[qi] {
			if gen.Assignable(g.env, t, o) || gen.Assignable(g.env, o, t) {
				clash = true
				break
			}
		}
		if !clash {
			g.qtypes[qi] = append(g.qtypes[qi], t)
			return qi
		}
	}
	sb := &strings.Builder{}
	fmt.Fprintf(sb, "package q%d\n\nimport (\n\t\"corpus/ext\"\n\t\"corpus/p\"\n)\n\nvar _ ext.XN\nvar _ p.NI\n", len(g.qs))
	g.qs = append(g.qs, sb)
	g.qtypes = append(g.qtypes, []*ty.Ty{t})
	return len(g.qs) - 1
}

// newShadowPkg opens a derive package that imports the user's packages named strings, sort and bytes
// (corpus/ext2/…): the generated file must give the standard packages it needs other aliases, in
// whatever order the two are first mentioned.
func (g *G) newShadowPkg() int {
	sb := &strings.Builder{}
	fmt.Fprintf(sb, "package q%d\n\nimport (\n\t\"corpus/ext\"\n\t\"corpus/ext2/bytes\"\n\t\"corpus/ext2/sort\"\n\t\"corpus/ext2/strings\"\n\t\"corpus/p\"\n)\n\nvar _ ext.XN\nvar _ p.NI\nvar _ bytes.B\nvar _ sort.Key\nvar _ strings.Word\n", len(g.qs))
	g.qs = append(g.qs, sb)
	g.qtypes = append(g.qtypes, nil)
	g.qshadow[len(g.qs)-1] = true
	g.shadow = true
	return len(g.qs) - 1
}

const shadowStrings = `// Package strings is a user package that happens to be named like a standard one.
package strings

type Word string

// Join is NOT concatenation.
func Join(elems []string, sep string) string {
	out := "<"
	for _, e := range elems {
		out += e + "," + sep
	}
	return out + ">"
}

func Compare(a, b string) int { return 0 }
`

const shadowSort = `// Package sort is a user package that happens to be named like a standard one: it sorts nothing.
package sort

type Key int

func Strings(x []string)                             {}
func Ints(x []int)                                   {}
func Float64s(x []float64)                           {}
func Slice(x interface{}, less func(i, j int) bool)  {}
func SliceStable(x interface{}, less func(i, j int) bool) {}
`

const shadowBytes = `// Package bytes is a user package that happens to be named like a standard one.
package bytes

type B []byte

func Equal(a, b []byte) bool  { return true }
func Compare(a, b []byte) int { return 0 }
`

func slice(elems []*ty.Val, spare int) *ty.Val {
	return &ty.Val{K: ty.VSlice, Spare: spare, Elems: elems}
}

func nilv() *ty.Val { return &ty.Val{K: ty.VNil} }

// lessBasic orders the leaves that have a natural order (used only to build sorted / reversed lists).
func lessBasic(a, b *ty.Val) (bool, bool) {
	if a.K != b.K {
		return false, false
	}
	switch a.K {
	case ty.VBool:
		return !a.Bool && b.Bool, true
	case ty.VInt:
		x, _ := new(big.Int).SetString(a.Int, 10)
		y, _ := new(big.Int).SetString(b.Int, 10)
		return x.Cmp(y) < 0, true
	case ty.VStr:
		return string(a.Str) < string(b.Str), true
	case ty.VFlt:
		if a.W == 64 {
			return math.Float64frombits(a.Bits) < math.Float64frombits(b.Bits), true
		}
		return math.Float32frombits(uint32(a.Bits)) < math.Float32frombits(uint32(b.Bits)), true
	}
	return false, false
}

// lists builds the boundary-biased list pool over the element pool (templates; instantiate with Inst).
// The bool says whether the list should be built from one shared instance per distinct template
// (aliased elements) instead of fresh objects per position.
type listT struct {
	v       *ty.Val
	aliased bool
	tag     string
	mk      func() *ty.Val // custom instantiation (lists whose elements share one backing array)
}

func (g *G) lists(t *ty.Ty, pool []*ty.Val) []listT {
	var out []listT
	add := func(tag string, spare int, es ...*ty.Val) {
		out = append(out, listT{v: slice(append([]*ty.Val(nil), es...), spare), tag: tag})
	}
	out = append(out, listT{v: nilv(), tag: "nil"})
	add("empty", 0)
	a := pool[0]
	add("single", 0, a)
	add("dup", 0, a, a)
	out = append(out, listT{v: slice([]*ty.Val{a, a}, 0), aliased: true, tag: "dup-aliased"})
	if len(pool) > 1 {
		b := pool[1]
		add("pair", 0, a, b)
		add("pair", 1, b, a)
		add("dups", 2, a, b, a, b, b)
		if len(pool) > 2 {
			c := pool[2]
			for _, p := range [][]*ty.Val{{a, b, c}, {a, c, b}, {b, a, c}, {b, c, a}, {c, a, b}, {c, b, a}} {
				add("perm3", 0, p...)
			}
			add("dups", 0, a, b, a, c, b)
		}
	}
	// arrays of ordered basics: the four arrays over two values in lexicographic order (already sorted), reversed, and
	// pairs where an earlier position is greater and a later one smaller
	if u := g.env.Under(t); u.K == ty.Array && u.N >= 2 && g.env.Under(u.Elem).K == ty.Basic && len(g.vg.Pool(u.Elem)) > 2 {
		in := g.vg.Pool(u.Elem)
		mk := func(a, b *ty.Val) *ty.Val {
			es := make([]*ty.Val, u.N)
			for j := range es {
				es[j] = in[0]
			}
			es[0], es[u.N-1] = a, b
			return &ty.Val{K: ty.VArr, Elems: es}
		}
		lo, hi := in[0], in[1]
		if l, ok := lessBasic(hi, lo); ok && l {
			lo, hi = hi, lo
		}
		add("array-lex", 0, mk(lo, lo), mk(lo, hi), mk(hi, lo), mk(hi, hi))
		add("array-lex", 0, mk(hi, hi), mk(hi, lo), mk(lo, hi), mk(lo, lo))
		add("array-lex", 0, mk(hi, lo), mk(lo, hi))
		add("array-lex", 1, mk(lo, hi), mk(hi, lo), mk(lo, lo))
	}
	// every value of a small integer kind, each once (a set must hold them all), in a scrambled order
	if u := g.env.Under(t); u.K == ty.Basic && u.B == "int8" {
		es := make([]*ty.Val, 256)
		for j := range es {
			es[j] = &ty.Val{K: ty.VInt, Int: fmt.Sprint((j*37+11)%256 - 128)}
		}
		add("all-values", 0, es...)
	}
	// slice-typed elements: orders in which lexicographic and length-first comparison disagree
	if g.env.Under(t).K == ty.Slice {
		var short1, long2 *ty.Val
		// the pair ([e1], [e0 e0]): lexicographically [e0 e0] < [e1], length-first [e1] < [e0 e0]
		if in := g.vg.Pool(g.env.Under(t).Elem); len(in) > 1 {
			short1, long2 = slice([]*ty.Val{in[1]}, 0), slice([]*ty.Val{in[0], in[0]}, 0)
		}
		if short1 != nil && long2 != nil {
			add("lex-vs-len", 0, short1, long2)
			add("lex-vs-len", 0, long2, short1)
			add("lex-vs-len", 1, long2, nilv(), short1, slice(nil, 0))
			add("lex-vs-len", 0, slice(nil, 0), long2, nilv(), short1, long2)
		}
	}
	// slice-typed elements that are views of ONE backing array from the same start with different
	// lengths (buf[:1], buf[:2], …), mixed with independent copies of the same contents and nil:
	// Compare / Equal must look at lengths and contents, never at the address of the first element
	if u := g.env.Under(t); u.K == ty.Slice {
		in := g.vg.Pool(u.Elem)
		tmpl := make([]*ty.Val, 4)
		for j := range tmpl {
			tmpl[j] = in[[]int{0, 1, 0, 2}[j]%len(in)]
		}
		// shape entries: k > 0 view buf[:k]; k < 0 independent copy of buf[:-k]; 0 nil
		for _, shape := range [][]int{{4, 3, 2, 1}, {1, 2, 3, 4}, {2, -3, 1, -2, 3}, {3, 1}, {1, 3, 0, 2}, {-2, 2, 4, -4}} {
			shape := shape
			rep := make([]*ty.Val, len(shape))
			for j, k := range shape {
				switch {
				case k == 0:
					rep[j] = nilv()
				case k > 0:
					rep[j] = slice(tmpl[:k], len(tmpl)-k)
				default:
					rep[j] = slice(tmpl[:-k], 0)
				}
			}
			out = append(out, listT{v: slice(rep, 0), tag: "views", mk: func() *ty.Val { return g.viewList(tmpl, shape) }})
		}
	}
	// Equal-but-not-identical elements: a value followed by its identity variants
	for i := 0; i < len(pool) && i < 3; i++ {
		vs := g.vg.EqVariants(pool[i])
		if len(vs) > 1 {
			es := []*ty.Val{pool[i]}
			es = append(es, vs[1:]...)
			es = append(es, pool[(i+1)%len(pool)])
			es = append(es, vs[len(vs)-1])
			add("eqvariants", 0, es...)
		}
	}
	// the whole pool, reversed, sorted and reverse-sorted where a natural order exists
	add("pool", 0, pool...)
	rev := append([]*ty.Val(nil), pool...)
	for i, j := 0, len(rev)-1; i < j; i, j = i+1, j-1 {
		rev[i], rev[j] = rev[j], rev[i]
	}
	add("pool-rev", 0, rev...)
	if _, ok := lessBasic(pool[0], pool[0]); ok {
		s := append([]*ty.Val(nil), pool...)
		sort.SliceStable(s, func(i, j int) bool { l, _ := lessBasic(s[i], s[j]); return l })
		add("sorted", 0, s...)
		r := append([]*ty.Val(nil), s...)
		for i, j := 0, len(r)-1; i < j; i, j = i+1, j-1 {
			r[i], r[j] = r[j], r[i]
		}
		add("reversed", 1, r...)
	}
	// nil elements
	for _, e := range pool {
		if e.K == ty.VNil {
			add("nil-elems", 0, e, a, e)
			if len(pool) > 1 {
				add("nil-elems", 0, pool[1], e)
			}
			break
		}
	}
	for k := 0; k < g.nRandom; k++ {
		n := g.rng.Intn(g.maxLen + 1)
		es := make([]*ty.Val, n)
		for i := range es {
			es[i] = pool[g.rng.Intn(len(pool))]
		}
		add("random", g.rng.Intn(3), es...)
	}
	return out
}

// viewList instantiates one buffer and returns the list of its prefix views / independent copies / nil
// described by shape (k > 0: buf[:k] sharing the buffer's address id; k < 0: a copy of buf[:-k]; 0: nil).
func (g *G) viewList(tmpl []*ty.Val, shape []int) *ty.Val {
	es := g.views(tmpl, shape)
	return &ty.Val{K: ty.VSlice, Addr: g.vg.Fresh(), Elems: es}
}

func (g *G) views(tmpl []*ty.Val, shape []int) []*ty.Val {
	buf := g.vg.Inst(slice(tmpl, 0))
	es := make([]*ty.Val, len(shape))
	for j, k := range shape {
		switch {
		case k == 0:
			es[j] = nilv()
		case k > 0:
			es[j] = &ty.Val{K: ty.VSlice, Addr: buf.Addr, Spare: len(tmpl) - k, Elems: buf.Elems[:k]}
		default:
			es[j] = g.vg.Inst(slice(tmpl[:-k], 0))
		}
	}
	return es
}

// inst instantiates a list template with fresh addresses (or one object per template when aliased).
func (g *G) inst(l listT) *ty.Val {
	if l.mk != nil {
		return l.mk()
	}
	if !l.aliased || l.v.K == ty.VNil {
		return g.vg.Inst(l.v)
	}
	memo := map[*ty.Val]*ty.Val{}
	c := *l.v
	c.Addr = g.vg.Fresh()
	c.Elems = make([]*ty.Val, len(l.v.Elems))
	for i, e := range l.v.Elems {
		if memo[e] == nil {
			memo[e] = g.vg.Inst(e)
		}
		c.Elems[i] = memo[e]
	}
	return &c
}

func (g *G) scripts(n int) []string {
	var out []string
	if n <= 3 {
		for m := 0; m < 1<<uint(n); m++ {
			s := "b"
			for i := 0; i < n; i++ {
				s += string('0' + byte(m>>uint(i)&1))
			}
			out = append(out, s)
		}
		return out
	}
	all1, all0, alt1, alt0 := "b", "b", "b", "b"
	for i := 0; i < n; i++ {
		all1 += "1"
		all0 += "0"
		alt1 += string('0' + byte((i+1)%2))
		alt0 += string('0' + byte(i%2))
	}
	out = append(out, all1, all0, alt1, alt0, all1[:n]) // the last: script one short (exhausted ⇒ false)
	for k := 0; k < 2; k++ {
		s := "b"
		for i := 0; i < n; i++ {
			s += string('0' + byte(g.rng.Intn(2)))
		}
		out = append(out, s)
	}
	// true up to a late first false (takewhile / all boundary)
	out = append(out, all1[:n]+"0")
	return out
}

// viewTmpl: the buffer template for view lists of a slice-typed element type (nil otherwise)
func (g *G) viewTmpl(t *ty.Ty) []*ty.Val {
	u := g.env.Under(t)
	if u.K != ty.Slice {
		return nil
	}
	in := g.vg.Pool(u.Elem)
	tmpl := make([]*ty.Val, 4)
	for j := range tmpl {
		tmpl[j] = in[[]int{0, 1, 0, 2}[j]%len(in)]
	}
	return tmpl
}

// floaty: the type holds a float or complex leaf (values of it can hold NaN)
func floaty(env *ty.Env, t *ty.Ty) bool {
	found := false
	gen.Walk(env, t, gen.CtxTop, map[int]bool{}, func(x *ty.Ty, ctx int) {
		if x.K == ty.Basic && (strings.HasPrefix(x.B, "float") || strings.HasPrefix(x.B, "complex")) {
			found = true
		}
	})
	return found
}

// nanify returns a copy of v whose first float / complex leaf (outside map keys) is the canonical quiet NaN.
func nanify(v *ty.Val) (*ty.Val, bool) {
	c := *v
	switch v.K {
	case ty.VFlt, ty.VCplx:
		if v.W == 32 {
			c.Bits = uint64(math.Float32bits(float32(math.NaN())))
		} else {
			c.Bits = math.Float64bits(math.NaN())
		}
		return &c, true
	}
	if v.Elems != nil {
		c.Elems = append([]*ty.Val(nil), v.Elems...)
		for i, e := range v.Elems {
			if v.K == ty.VMap && i%2 == 0 {
				continue
			}
			if ne, ok := nanify(e); ok {
				c.Elems[i] = ne
				return &c, true
			}
		}
	}
	return &c, false
}

// nanLists: lists over the pool and its NaN variants for the consistency ops (…eq): NaN alone, twice (two
// objects), between ordinary values, Equal-but-not-identical neighbours, and random mixtures.
func (g *G) nanLists(pool []*ty.Val) (lists [][]*ty.Val, items []*ty.Val) {
	var nans []*ty.Val
	for _, v := range pool {
		if nv, ok := nanify(v); ok {
			nans = append(nans, nv)
			if len(nans) == 3 {
				break
			}
		}
	}
	if len(nans) == 0 {
		// no float inside: the lists are over the pool alone (Equal-but-not-identical neighbours come first)
		a, b := pool[0], pool[len(pool)-1]
		c := pool[1%len(pool)]
		lists = [][]*ty.Val{nil, {a}, {a, c}, {c, a}, {a, c, b, c, a}, {b, a, c}}
		for k := 0; k < g.nRandom; k++ {
			n := 1 + g.rng.Intn(g.maxLen)
			es := make([]*ty.Val, n)
			for i := range es {
				es[i] = pool[g.rng.Intn(len(pool))]
			}
			lists = append(lists, es)
		}
		return lists, []*ty.Val{a, c, b}
	}
	a, nn := pool[0], nans[0]
	b := pool[len(pool)-1]
	lists = [][]*ty.Val{nil, {nn}, {nn, nn}, {a, nn}, {nn, a}, {a, nn, b, nn, a}, {nn, nans[len(nans)-1], b}}
	all := append(append([]*ty.Val(nil), pool...), nans...)
	for k := 0; k < g.nRandom; k++ {
		n := 1 + g.rng.Intn(g.maxLen)
		es := make([]*ty.Val, n)
		for i := range es {
			es[i] = all[g.rng.Intn(len(all))]
		}
		lists = append(lists, es)
	}
	items = []*ty.Val{nn, a, b, nans[len(nans)-1]}
	return lists, items
}

// hasEqMethod mirrors derive.HasEqualMethod: the type, or a field / array element that == would compare,
// declares its own Equal
func (g *G) hasEqMethod(t *ty.Ty) bool {
	if t.K == ty.Named {
		d := g.env.Decls[t.N]
		if strings.Contains(d.Methods, "E") || g.customE[d.Name] {
			return true
		}
	}
	u := g.env.Under(t)
	switch u.K {
	case ty.Struct:
		for _, f := range u.Fields {
			if g.hasEqMethod(f.T) {
				return true
			}
		}
	case ty.Array:
		return g.hasEqMethod(u.Elem)
	}
	return false
}

// coarse returns a value that the type's own Equal (first field only) holds equal to v but that differs
// in another field, somewhere inside v; nil when there is none.
func (g *G) coarse(t *ty.Ty, v *ty.Val) *ty.Val {
	u := g.env.Under(t)
	withElem := func(i int, e *ty.Val) *ty.Val {
		c := *v
		c.Elems = append([]*ty.Val(nil), v.Elems...)
		c.Elems[i] = e
		return &c
	}
	switch {
	case t.K == ty.Named && strings.Contains(g.env.Decls[t.N].Methods, "E") && u.K == ty.Struct && v.K == ty.VStruct && len(u.Fields) > 1:
		for _, o := range g.vg.Pool(u.Fields[1].T) {
			if o.Wire() != v.Elems[1].Wire() {
				return withElem(1, o)
			}
		}
	case u.K == ty.Struct && v.K == ty.VStruct:
		for i, f := range u.Fields {
			if c := g.coarse(f.T, v.Elems[i]); c != nil {
				return withElem(i, c)
			}
		}
	case (u.K == ty.Ptr && v.K == ty.VPtr) || (u.K == ty.Slice && v.K == ty.VSlice && len(v.Elems) > 0):
		if c := g.coarse(u.Elem, v.Elems[0]); c != nil {
			return withElem(0, c)
		}
	}
	return nil
}

func btoi(b bool) int {
	if b {
		return 1
	}
	return 0
}

func isBoolUnder(env *ty.Env, t *ty.Ty) bool {
	u := env.Under(t)
	return u.K == ty.Basic && u.B == "bool"
}

func isBasicUnder(env *ty.Env, t *ty.Ty) bool { return env.Under(t).K == ty.Basic }

func kindName(k ty.Kind) string {
	return [...]string{"basic", "named", "ptr", "slice", "array", "map", "struct", "chan", "func", "iface"}[k]
}

// elemPool is the value pool of an element type: the generic boundary-biased pool plus, for
// slice-typed elements, inner slices of different lengths whose lexicographic order differs from the
// derived (nil first, shorter first, then element-wise) order, and nil / empty inner slices.
func (g *G) elemPool(t *ty.Ty) []*ty.Val {
	if t.K == ty.Named && g.pools[g.env.Decls[t.N].Name] != nil {
		return g.pools[g.env.Decls[t.N].Name]
	}
	if g.pools[t.Wire()] != nil {
		return g.pools[t.Wire()]
	}
	pool := append([]*ty.Val(nil), g.vg.Pool(t)...)
	// types with their own (coarser) Equal inside: every one of the first values is followed by a value that
	// the method holds equal to it although another field differs
	if gen.HasMethods(g.env, t) {
		var p2 []*ty.Val
		for k, v := range pool {
			p2 = append(p2, v)
			if c := g.coarse(t, v); c != nil && k < 3 {
				p2 = append(p2, c)
			}
		}
		pool = p2
	}
	u := g.env.Under(t)
	if u.K == ty.Map {
		// two maps with the same keys whose order is decided at the SMALLEST key but would be decided the
		// other way at the largest one (the keys are sorted before the entries are compared)
		kp, vp := g.vg.Pool(u.Key), g.vg.Pool(u.Elem)
		if len(kp) > 2 && len(vp) > 1 {
			pool = append(pool, &ty.Val{K: ty.VMap, Elems: []*ty.Val{kp[0], vp[1], kp[2], vp[0]}},
				&ty.Val{K: ty.VMap, Elems: []*ty.Val{kp[2], vp[1], kp[0], vp[0]}})
		}
		return pool
	}
	if u.K == ty.Array && u.N >= 2 && g.env.Under(u.Elem).K == ty.Basic {
		// arrays that differ at TWO positions in opposite directions: the order is decided at the first one
		in := g.vg.Pool(u.Elem)
		if len(in) > 2 {
			mk := func(a, b *ty.Val) *ty.Val {
				es := make([]*ty.Val, u.N)
				for j := range es {
					es[j] = in[0]
				}
				es[0], es[u.N-1] = a, b
				return &ty.Val{K: ty.VArr, Elems: es}
			}
			pool = append(pool, mk(in[1], in[1]), mk(in[2], in[0]), mk(in[1], in[2]), mk(in[2], in[1]))
		}
		return pool
	}
	if u.K != ty.Slice {
		return pool
	}
	in := g.vg.Pool(u.Elem)
	if len(in) < 2 {
		return pool
	}
	e0, e1 := in[0], in[1]
	extras := []*ty.Val{nilv(), slice(nil, 0), slice([]*ty.Val{e1}, 0), slice([]*ty.Val{e0, e0}, 0),
		slice([]*ty.Val{e0, e1}, 1), slice([]*ty.Val{e1, e0, e0}, 0), slice([]*ty.Val{e0, e0, e0}, 0)}
	if len(in) > 2 {
		extras = append(extras, slice([]*ty.Val{in[2]}, 0), slice([]*ty.Val{e0, in[2]}, 0))
	}
	seen := map[string]bool{}
	for _, v := range pool {
		seen[v.Wire()] = true
	}
	for _, v := range extras {
		if !seen[v.Wire()] {
			seen[v.Wire()] = true
			pool = append(pool, v)
		}
	}
	return pool
}

// pre is the prefix of the type name that the ops on lists of t carry.
func (g *G) pre(t *ty.Ty) string {
	if g.tnPre == "L" && !g.env.CanEqual(t) && !gen.MethodsAgree(g.env, t, "E", "H") {
		// not ==-comparable and holding an own Equal without an own Hash: Unique buckets by the structural hash
		// (known finding F115); the check maps kept-Equal answers of unique / uniqueeq on these types to that class
		return "LNC"
	}
	return g.tnPre
}

// elemOps emits wrappers, registrations and ops of the per-element-type helpers.
func (g *G) elemOps(i int, t *ty.Ty) {
	env := g.env
	tn := fmt.Sprintf("%s%d", g.pre(t), i)
	fmt.Fprintf(g.prelude, "ty %s %s\n", tn, t.Wire())
	gt := t.Go(env, "main")
	qi := g.pkgOf(t)
	g.lastPkg = qi
	emit := g.ow
	if g.eqOnly {
		// the modelled ops are not emitted (registrations and wrappers are: the consistency ops use them)
		g.ow = g.discard
		defer func() { g.ow = emit }()
	}
	q, qn := g.qs[qi], fmt.Sprintf("q%d", qi)
	g.stat("elem-head:"+kindName(env.Under(t).K), 1)
	pool := g.elemPool(t)
	g.stat("elem-pool", len(pool))
	lists := g.lists(t, pool)
	g.stat("lists", len(lists))
	for _, l := range lists {
		g.stat("list-tag:"+l.tag, 1)
		g.stat(fmt.Sprintf("list-len:%d", len(l.v.Elems)), 1)
	}
	comparable := env.CanEqual(t)
	w := func(format string, a ...interface{}) { fmt.Fprintf(q, format, a...) }
	reg := func(op, expr string) { fmt.Fprintf(g.m, "\trt.Reg(%q, %q, %s)\n", op, tn, expr) }
	last := pool[len(pool)-1]

	if g.want["sort"] {
		less := fmt.Sprintf("deriveCompare_%d(a, b) < 0", i)
		if isBoolUnder(env, t) {
			less = "bool(!a && b)"
		} else if isBasicUnder(env, t) && !strings.HasPrefix(env.Under(t).B, "complex") {
			less = "a < b"
		}
		w("\nfunc Sort_%d(l []%s) []%s { return deriveSort_%d(l) }\n", i, gt, gt, i)
		w("func Less_%d(a, b %s) bool { return %s }\n", i, gt, less)
		reg("sort", fmt.Sprintf("rt.Sort(%s.Sort_%d, %s.Less_%d)", qn, i, qn, i))
		for _, l := range lists {
			g.ow.op("sort", tn, g.inst(l).Wire())
		}
	}
	if g.want["min"] || g.want["max"] {
		for _, mm := range []string{"min", "max"} {
			if !g.want[mm] {
				continue
			}
			M := strings.ToUpper(mm[:1]) + mm[1:]
			w("\nfunc %s_%d(l []%s, d %s) %s { return derive%s_%d(l, d) }\n", M, i, gt, gt, gt, M, i)
			reg(mm, fmt.Sprintf("rt.Min(%s.%s_%d)", qn, M, i))
			if !g.noTwo {
				w("func %s2_%d(a, b %s) %s { return derive%s2_%d(a, b) }\n", M, i, gt, gt, M, i)
				reg(mm+"2", fmt.Sprintf("rt.Min2(%s.%s2_%d)", qn, M, i))
			}
			for li, l := range lists {
				g.ow.op(mm, tn, g.inst(l).Wire(), g.vg.Inst(pool[0]).Wire())
				if li%4 == 0 {
					g.ow.op(mm, tn, g.inst(l).Wire(), g.vg.Inst(last).Wire())
				}
			}
			for _, a := range pool {
				if g.noTwo {
					break
				}
				for _, b := range pool {
					g.ow.op(mm+"2", tn, g.vg.Inst(a).Wire(), g.vg.Inst(b).Wire())
				}
				for _, v := range g.vg.EqVariants(a) {
					g.ow.op(mm+"2", tn, g.vg.Inst(a).Wire(), v.Wire())
					g.ow.op(mm+"2", tn, v.Wire(), g.vg.Inst(a).Wire())
				}
			}
			if vt := g.viewTmpl(t); vt != nil && !g.noTwo {
				for _, sh := range [][]int{{1, 3}, {3, 1}, {2, 2}, {2, -2}, {4, 3}, {-3, 4}} {
					vs := g.views(vt, sh)
					g.ow.op(mm+"2", tn, vs[0].Wire(), vs[1].Wire())
				}
			}
		}
	}
	if g.want["contains"] {
		w("\nfunc Contains_%d(l []%s, x %s) bool { return deriveContains_%d(l, x) }\n", i, gt, gt, i)
		reg("contains", fmt.Sprintf("rt.Contains(%s.Contains_%d)", qn, i))
		for _, l := range lists {
			items := []*ty.Val{pool[0], last}
			if len(pool) > 2 {
				items = append(items, pool[1])
			}
			for _, x := range items {
				g.ow.op("contains", tn, g.inst(l).Wire(), g.vg.Inst(x).Wire())
			}
			// an Equal-but-not-identical copy of an element of the list, and every mutation of one
			if n := len(l.v.Elems); n > 0 {
				e := l.v.Elems[g.rng.Intn(n)]
				vs := g.vg.EqVariants(e)
				g.ow.op("contains", tn, g.inst(l).Wire(), vs[len(vs)-1].Wire())
				for _, mu := range g.vg.Mutations(t, g.vg.Inst(e), 3) {
					g.ow.op("contains", tn, g.inst(l).Wire(), g.vg.Inst(mu).Wire())
				}
			}
		}
	}
	if vt := g.viewTmpl(t); vt != nil && g.want["contains"] {
		// the item is a view of the same buffer as elements of the list
		for _, sh := range [][]int{{3, 2}, {-2, 3, 2}, {3, 1, 2}, {4, 1, 3}, {-3, 1, 3}} {
			vs := g.views(vt, sh)
			l := &ty.Val{K: ty.VSlice, Addr: g.vg.Fresh(), Elems: vs[:len(vs)-1]}
			g.ow.op("contains", tn, l.Wire(), vs[len(vs)-1].Wire())
		}
	}
	if g.want["unique"] {
		w("\nfunc Unique_%d(l []%s) []%s { return deriveUnique_%d(l) }\n", i, gt, gt, i)
		reg("unique", fmt.Sprintf("rt.Unique(%s.Unique_%d, %v)", qn, i, comparable && !g.hasEqMethod(t)))
		for _, l := range lists {
			g.ow.op("unique", tn, g.inst(l).Wire())
		}
	}
	if g.want["set"] && comparable {
		w("\nfunc Set_%d(l []%s) map[%s]struct{} { return deriveSet_%d(l) }\n", i, gt, gt, i)
		reg("set", fmt.Sprintf("rt.Set(%s.Set_%d)", qn, i))
		for _, l := range lists {
			g.ow.op("set", tn, g.inst(l).Wire())
		}
	}
	if g.want["union"] || g.want["intersect"] {
		var pairs [][2]int
		n := len(lists)
		for x := 0; x < n && x < 9; x++ {
			for y := 0; y < n && y < 9; y++ {
				pairs = append(pairs, [2]int{x, y})
			}
		}
		for k := 0; k < 3*g.nRandom; k++ {
			pairs = append(pairs, [2]int{g.rng.Intn(n), g.rng.Intn(n)})
		}
		if g.want["union"] {
			w("\nfunc UnionL_%d(a, b []%s) []%s { return deriveUnionL_%d(a, b) }\n", i, gt, gt, i)
			reg("unionl", fmt.Sprintf("rt.UnionL(%s.UnionL_%d)", qn, i))
			for _, pr := range pairs {
				g.ow.op("unionl", tn, g.inst(lists[pr[0]]).Wire(), g.inst(lists[pr[1]]).Wire())
			}
		}
		if g.want["intersect"] {
			w("\nfunc IntersectL_%d(a, b []%s) []%s { return deriveIntersectL_%d(a, b) }\n", i, gt, gt, i)
			reg("intersectl", fmt.Sprintf("rt.IntersectL(%s.IntersectL_%d)", qn, i))
			for _, pr := range pairs {
				g.ow.op("intersectl", tn, g.inst(lists[pr[0]]).Wire(), g.inst(lists[pr[1]]).Wire())
			}
		}
	}
	if (floaty(env, t) || g.eqOnly || g.hasEqMethod(t) || g.eqAlso[t.Wire()]) && (g.want["contains"] || g.want["unique"] || g.want["set"] || g.want["union"] || g.want["intersect"]) {
		g.ow = emit
		// consistency with the emitted Equal, decided on the emitted functions themselves, NaN included
		nl, items := g.nanLists(pool)
		if nl != nil {
			w("\nfunc Eq_%d(a, b %s) bool { return deriveEqual_%d(a, b) }\n", i, gt, i)
			mkl := func(es []*ty.Val) string {
				if es == nil {
					return "nil"
				}
				return g.vg.Inst(slice(es, g.rng.Intn(2))).Wire()
			}
			g.stat("nan-lists", len(nl))
			if g.want["contains"] {
				reg("containseq", fmt.Sprintf("rt.ContainsEq(%s.Contains_%d, %s.Eq_%d)", qn, i, qn, i))
				for _, l := range nl {
					for _, x := range items {
						g.ow.op("containseq", tn, mkl(l), g.vg.Inst(x).Wire())
					}
				}
			}
			if g.want["unique"] {
				reg("uniqueeq", fmt.Sprintf("rt.UniqueEq(%s.Unique_%d, %s.Eq_%d)", qn, i, qn, i))
				for _, l := range nl {
					g.ow.op("uniqueeq", tn, mkl(l))
				}
			}
			if g.want["set"] && comparable && !g.hasEqMethod(t) {
				reg("seteq", fmt.Sprintf("rt.SetEq(%s.Set_%d, %s.Eq_%d)", qn, i, qn, i))
				for _, l := range nl {
					g.ow.op("seteq", tn, mkl(l))
				}
			}
			for _, ui := range []string{"union", "intersect"} {
				if !g.want[ui] {
					continue
				}
				W := strings.ToUpper(ui[:1]) + ui[1:]
				reg(ui+"eq", fmt.Sprintf("rt.%sEq(%s.%sL_%d, %s.Eq_%d)", W, qn, W, i, qn, i))
				for _, l1 := range nl {
					for _, l2 := range nl {
						g.ow.op(ui+"eq", tn, mkl(l1), mkl(l2))
					}
				}
			}
		}
	}
	if g.eqOnly {
		g.ow = g.discard
	}
	type predOp struct{ plugin, op, derive, adapter, res string }
	for _, po := range []predOp{
		{"filter", "filter", "deriveFilter", "rt.Filter", "[]" + gt},
		{"takewhile", "takewhile", "deriveTakeWhile", "rt.TakeWhile", "[]" + gt},
		{"all", "all", "deriveAll", "rt.AllAny", "bool"},
		{"any", "any", "deriveAny", "rt.AllAny", "bool"},
	} {
		if !g.want[po.plugin] {
			continue
		}
		W := strings.TrimPrefix(po.derive, "derive")
		w("\nfunc %s_%d(f func(%s) bool, l []%s) %s { return %s_%d(f, l) }\n", W, i, gt, gt, po.res, po.derive, i)
		reg(po.op, fmt.Sprintf("%s(%s.%s_%d)", po.adapter, qn, W, i))
		for _, l := range lists {
			for _, sc := range g.scripts(len(l.v.Elems)) {
				g.ow.op(po.op, tn, g.inst(l).Wire(), sc)
			}
		}
		// long lists (an implementation may switch strategy by length) with predicates that are not prefix-closed:
		// they fail early and hold again later; the call log shows the order and number of the calls
		if i%7 == 0 || i == 3 || i == 10 {
			for _, n := range []int{33, 40, 100} {
				es := make([]*ty.Val, n)
				for j := range es {
					es[j] = pool[(j*j+j/3)%len(pool)]
				}
				var a, b, c, d string
				for j := 0; j < n; j++ {
					a += string('0' + byte(btoi(j%7 != 3)))
					b += string('0' + byte(btoi(j < n-2)))
					c += string('0' + byte(btoi(j < 20 || j > 24)))
					d += "1"
				}
				for _, sc := range []string{a, b, c, d} {
					g.stat("pred-long-lists", 1)
					g.ow.op(po.op, tn, g.vg.Inst(slice(es, n%2)).Wire(), "b"+sc)
				}
			}
		}
	}
	if g.want["join"] {
		w("\nfunc Join_%d(l [][]%s) []%s { return deriveJoin_%d(l) }\n", i, gt, gt, i)
		reg("join", fmt.Sprintf("rt.Join(%s.Join_%d)", qn, i))
		pick := func() *ty.Val { return g.inst(lists[g.rng.Intn(len(lists))]) }
		lol := func(es ...*ty.Val) *ty.Val {
			return &ty.Val{K: ty.VSlice, Addr: g.vg.Fresh(), Spare: g.rng.Intn(2), Elems: es}
		}
		empty := func() *ty.Val { return &ty.Val{K: ty.VSlice, Addr: g.vg.Fresh()} }
		g.ow.op("join", tn, "nil")
		cases := []*ty.Val{lol(), lol(nilv()), lol(empty()), lol(nilv(), empty()), lol(empty(), nilv(), empty())}
		for _, l := range lists {
			cases = append(cases, lol(g.inst(l)))
		}
		for k := 0; k < 2*len(lists); k++ {
			n := 2 + g.rng.Intn(3)
			es := make([]*ty.Val, n)
			for j := range es {
				switch g.rng.Intn(6) {
				case 0:
					es[j] = nilv()
				case 1:
					es[j] = empty()
				default:
					es[j] = pick()
				}
			}
			cases = append(cases, lol(es...))
		}
		// the same inner list twice (aliased)
		shared := g.inst(lists[len(lists)-1])
		cases = append(cases, lol(shared, shared))
		// aliasing-prone inputs: the first inner list has spare capacity for everything that follows …
		for k := 0; k < 4; k++ {
			first := g.inst(lists[g.rng.Intn(len(lists))])
			rest := []*ty.Val{pick(), pick()}
			if first.K == ty.VNil {
				first = empty()
			}
			first.Spare = len(rest[0].Elems) + len(rest[1].Elems) + g.rng.Intn(2)
			cases = append(cases, lol(first, rest[0], rest[1]))
			g.stat("join-first-has-room", 1)
		}
		// … and inner lists that are views of ONE backing array (same address id, prefixes of different
		// length): writing behind the first view would overwrite what a later view still has to deliver
		buf := make([]*ty.Val, 6)
		for j := range buf {
			buf[j] = g.vg.Inst(pool[j%len(pool)])
		}
		if len(pool) > 1 {
			buf[3], buf[4] = g.vg.Inst(pool[1]), g.vg.Inst(pool[0])
		}
		view := func(addr, n int) *ty.Val {
			return &ty.Val{K: ty.VSlice, Addr: addr, Spare: len(buf) - n, Elems: buf[:n]}
		}
		other := func(n int) *ty.Val {
			es := make([]*ty.Val, n)
			for j := range es {
				es[j] = g.vg.Inst(pool[(j+1)%len(pool)])
			}
			return &ty.Val{K: ty.VSlice, Addr: g.vg.Fresh(), Elems: es}
		}
		// (element objects are shared between the views of one op; every op has its own heap)
		for _, sh := range [][3]int{{1, 2, 3}, {0, 2, 4}, {2, 1, 3}, {1, 0, 5}, {0, 0, 6}, {3, 0, 3}} {
			addr := g.vg.Fresh()
			var es []*ty.Val
			es = append(es, view(addr, sh[0]))
			if sh[1] > 0 {
				es = append(es, other(sh[1]))
			}
			es = append(es, view(addr, sh[2]))
			cases = append(cases, lol(es...))
			g.stat("join-shared-backing-array", 1)
		}
		for _, c := range cases {
			g.stat(fmt.Sprintf("join-outer-len:%d", len(c.Elems)), 1)
			g.ow.op("join", tn, c.Wire())
		}
	}
}

// cmpOps: sort / min / max decided against the EMITTED Compare of the element type on the emitted functions
// themselves (sortcmp, mincmp, maxcmp, min2cmp, max2cmp): for element types whose own Compare method the Lean
// model does not know (own == true: the type gets its own name and package here, and no other op), and in
// addition to the modelled ops for every element type that is compared through deriveCompare.
func (g *G) cmpOps(i int, t *ty.Ty, own bool) {
	env := g.env
	if isBasicUnder(env, t) || !(g.want["sort"] || g.want["min"] || g.want["max"]) {
		return
	}
	tn := fmt.Sprintf("%s%d", g.pre(t), i)
	gt := t.Go(env, "main")
	var qi int
	if own {
		fmt.Fprintf(g.prelude, "ty %s %s\n", tn, t.Wire())
		qi = g.pkgOf(t)
	} else {
		qi = g.lastPkg
	}
	q, qn := g.qs[qi], fmt.Sprintf("q%d", qi)
	w := func(format string, a ...interface{}) { fmt.Fprintf(q, format, a...) }
	reg := func(op, expr string) { fmt.Fprintf(g.m, "\trt.Reg(%q, %q, %s)\n", op, tn, expr) }
	pool := g.elemPool(t)
	lists := g.lists(t, pool)
	w("\nfunc Cmp_%d(a, b %s) int { return deriveCompare_%d(a, b) }\n", i, gt, i)
	if g.want["sort"] {
		w("func CSort_%d(l []%s) []%s { return deriveSort_%d(l) }\n", i, gt, gt, i)
		reg("sortcmp", fmt.Sprintf("rt.SortCmp(%s.CSort_%d, %s.Cmp_%d)", qn, i, qn, i))
		for _, l := range lists {
			g.ow.op("sortcmp", tn, g.inst(l).Wire())
		}
	}
	for _, mm := range []string{"min", "max"} {
		if !g.want[mm] {
			continue
		}
		M := strings.ToUpper(mm[:1]) + mm[1:]
		dir := map[string]int{"min": 1, "max": -1}[mm]
		w("func C%s_%d(l []%s, d %s) %s { return derive%s_%d(l, d) }\n", M, i, gt, gt, gt, M, i)
		reg(mm+"cmp", fmt.Sprintf("rt.MinCmp(%s.C%s_%d, %s.Cmp_%d, %d)", qn, M, i, qn, i, dir))
		for _, l := range lists {
			g.ow.op(mm+"cmp", tn, g.inst(l).Wire(), g.vg.Inst(pool[g.rng.Intn(len(pool))]).Wire())
		}
		if g.noTwo {
			continue
		}
		w("func C%s2_%d(a, b %s) %s { return derive%s2_%d(a, b) }\n", M, i, gt, gt, M, i)
		reg(mm+"2cmp", fmt.Sprintf("rt.Min2Cmp(%s.C%s2_%d, %s.Cmp_%d, %d)", qn, M, i, qn, i, dir))
		for _, a := range pool {
			for _, b := range pool {
				g.ow.op(mm+"2cmp", tn, g.vg.Inst(a).Wire(), g.vg.Inst(b).Wire())
			}
		}
	}
}

// fmapOps: deriveFmap(func(E) R, []E) for one (E, R) pair.
func (g *G) fmapOps(i int, e, r *ty.Ty) {
	env := g.env
	tn := fmt.Sprintf("F%d", i)
	fmt.Fprintf(g.prelude, "ty %se %s\nty %sr %s\n", tn, e.Wire(), tn, r.Wire())
	ge, gr := e.Go(env, "main"), r.Go(env, "main")
	// the argument list (func(E) R, []E) of two pairs is never mutually assignable: any package will do,
	// spread round-robin to keep packages small
	qi := i % len(g.qs)
	if g.force >= 0 {
		qi = g.force
	}
	q, qn := g.qs[qi], fmt.Sprintf("q%d", qi)
	fmt.Fprintf(q, "\nfunc Fmap_%d(f func(%s) %s, l []%s) []%s { return deriveFmap_%d(f, l) }\n", i, ge, gr, ge, gr, i)
	fmt.Fprintf(g.m, "\trt.Reg(\"fmap\", %q, rt.Fmap(%s.Fmap_%d))\n", tn, qn, i)
	epool, rpool := g.elemPool(e), g.vg.Pool(r)
	g.stat("fmap-pairs", 1)
	for _, l := range g.lists(e, epool) {
		lv := g.inst(l)
		n := len(lv.Elems)
		rs := make([]*ty.Val, n)
		for j := range rs {
			rs[j] = g.vg.Inst(rpool[g.rng.Intn(len(rpool))])
		}
		g.stat(fmt.Sprintf("fmap-len:%d", n), 1)
		g.ow.op("fmap", tn, lv.Wire(), (&ty.Val{K: ty.VSlice, Addr: g.vg.Fresh(), Elems: rs}).Wire())
	}
}

func sv(s string) *ty.Val { return &ty.Val{K: ty.VStr, Str: []byte(s)} }

// stringPool: ASCII, 2–4 byte runes, and invalid encodings (lone continuation, truncated sequences,
// overlong forms, surrogates, values above U+10FFFF, 0xFF).
func (g *G) stringPool() []string {
	out := []string{"", "a", "abc", "\x00", "\x7f", "é", "héllo", "日本語", "😀", "a😀b日é", "\u0080", "߿", "ࠀ", "￿", "\U00010000", "\U0010ffff",
		"\xff", "a\xffb", "\x80", "\xbf\xbf", "\xc3", "\xc3(", "\xe2\x82", "\xe2\x82a", "\xe2(\xa1", "\xf0\x9f\x98", "\xf0\x9f", "\xf0(\x8c\xbc",
		"\xc0\x80", "\xc1\xbf", "\xe0\x80\x80", "\xe0\x9f\xbf", "\xed\xa0\x80", "\xed\xbf\xbf", "\xf0\x80\x80\x80", "\xf0\x8f\xbf\xbf",
		"\xf4\x90\x80\x80", "\xf5\x80\x80\x80", "\xf8\x88\x80\x80\x80", "\xef\xbf\xbd", "é\xffé", "\xe2\x82\xac\xe2\x82"}
	n := 12
	if *thorough {
		n = 200
	}
	alphabet := []byte{'a', 0x00, 0x7f, 0x80, 0xbf, 0xc2, 0xc3, 0xe0, 0xa0, 0xe2, 0x82, 0xac, 0xed, 0x9f, 0xf0, 0x90, 0x9f, 0xf4, 0x8f, 0xff, 0xc0, 0xf5}
	for k := 0; k < n; k++ {
		l := 1 + g.rng.Intn(7)
		b := make([]byte, l)
		for j := range b {
			b[j] = alphabet[g.rng.Intn(len(alphabet))]
		}
		out = append(out, string(b))
	}
	return out
}

func classify(s string) string {
	if !utf8.ValidString(s) {
		return "invalid"
	}
	for i := 0; i < len(s); i++ {
		if s[i] >= 0x80 {
			return "multibyte"
		}
	}
	return "ascii"
}

// fmapStringOps: deriveFmap(func(rune) R, string) for one result type.
func (g *G) fmapStringOps(i int, r *ty.Ty) {
	env := g.env
	tn := fmt.Sprintf("G%d", i)
	fmt.Fprintf(g.prelude, "ty %s %s\n", tn, r.Wire())
	gr := r.Go(env, "main")
	qi := i % len(g.qs)
	q, qn := g.qs[qi], fmt.Sprintf("q%d", qi)
	fmt.Fprintf(q, "\nfunc FmapS_%d(f func(rune) %s, s string) []%s { return deriveFmapS_%d(f, s) }\n", i, gr, gr, i)
	fmt.Fprintf(g.m, "\trt.Reg(\"fmaps\", %q, rt.FmapS(%s.FmapS_%d))\n", tn, qn, i)
	rpool := g.vg.Pool(r)
	if r.K == ty.Basic && r.B == "int32" {
		for _, x := range []int64{0xD800, 0xDFFF, 0x110000, 0xFFFD, 0x10FFFF, 65, -2} {
			rpool = append(rpool, &ty.Val{K: ty.VInt, Int: fmt.Sprint(x)})
		}
	}
	for _, s := range g.stringPool() {
		n := len([]rune(s))
		rs := make([]*ty.Val, n)
		for j := range rs {
			rs[j] = g.vg.Inst(rpool[g.rng.Intn(len(rpool))])
		}
		g.stat("fmaps-string:"+classify(s), 1)
		g.ow.op("fmaps", tn, sv(s).Wire(), (&ty.Val{K: ty.VSlice, Addr: g.vg.Fresh(), Elems: rs}).Wire())
	}
	// the string handed over as an UNTYPED CONSTANT (a named constant and a literal), under derive names that are
	// never called with a string variable: the plugin sees `untyped string` for the second argument
	lq, lqn := g.qs[(qi+1)%len(g.qs)], fmt.Sprintf("q%d", (qi+1)%len(g.qs)) // a package without another fmap over (func(rune) R, string)
	for k, lit := range []string{`h\u00e9\u20ac\U0001f600\xff\xc0!`, `a\x80`} {
		if len(g.qs) < 2 {
			break
		}
		s, err := strconv.Unquote(`"` + lit + `"`)
		if err != nil {
			panic(err)
		}
		ln := fmt.Sprintf("GL%d_%d", i, k)
		fmt.Fprintf(g.prelude, "ty %s %s\n", ln, r.Wire())
		if k == 0 {
			fmt.Fprintf(lq, "\nconst fmapLit_%d = \"%s\"\n\nfunc FmapLit_%d_%d(f func(rune) %s, _ string) []%s { return deriveFmapL%d(f, fmapLit_%d) }\n", i, lit, i, k, gr, gr, i, i)
		} else {
			fmt.Fprintf(lq, "\nfunc FmapLit_%d_%d(f func(rune) %s, _ string) []%s { return deriveFmapL%d(f, \"%s\") }\n", i, k, gr, gr, i, lit)
		}
		fmt.Fprintf(g.m, "\trt.Reg(\"fmaps\", %q, rt.FmapS(%s.FmapLit_%d_%d))\n", ln, lqn, i, k)
		n := len([]rune(s))
		rs := make([]*ty.Val, n)
		for j := range rs {
			rs[j] = g.vg.Inst(rpool[g.rng.Intn(len(rpool))])
		}
		g.stat("fmaps-string:untyped-constant", 1)
		g.ow.op("fmaps", ln, sv(s).Wire(), (&ty.Val{K: ty.VSlice, Addr: g.vg.Fresh(), Elems: rs}).Wire())
	}
}

func (g *G) joinStringOps(qi int, tn string) {
	q, qn := g.qs[qi], fmt.Sprintf("q%d", qi)
	fmt.Fprintf(q, "\nfunc JoinS(l []string) string { return deriveJoinS(l) }\n")
	fmt.Fprintf(g.m, "\trt.Reg(\"joins\", %q, rt.JoinS(%s.JoinS))\n", tn, qn)
	pool := g.stringPool()
	g.ow.op("joins", tn, "nil")
	g.ow.op("joins", tn, slice(nil, 0).Wire())
	for _, s := range pool {
		g.ow.op("joins", tn, g.vg.Inst(slice([]*ty.Val{sv(s)}, 0)).Wire())
	}
	n := 40
	if *thorough {
		n = 400
	}
	for k := 0; k < n; k++ {
		l := g.rng.Intn(5)
		es := make([]*ty.Val, l)
		for j := range es {
			es[j] = sv(pool[g.rng.Intn(len(pool))])
		}
		g.stat(fmt.Sprintf("joins-len:%d", l), 1)
		g.ow.op("joins", tn, g.vg.Inst(slice(es, g.rng.Intn(2))).Wire())
	}
}

// keySets builds map[K]struct{} / map[K]V values over the key pool: nil, empty, singletons, both
// insertion orders, larger sets, random subsets; keys within one map are distinct under ==.
func (g *G) keyMaps(kpool []*ty.Val, val func() *ty.Val) []*ty.Val {
	mk := func(ks ...*ty.Val) *ty.Val {
		var kept []*ty.Val
		for _, k := range ks {
			dup := false
			for _, o := range kept {
				if gen.GoEq(k, o) {
					dup = true
				}
			}
			if !dup {
				kept = append(kept, k)
			}
		}
		m := &ty.Val{K: ty.VMap}
		for _, k := range kept {
			m.Elems = append(m.Elems, k, val())
		}
		return m
	}
	out := []*ty.Val{nilv(), mk()}
	for _, k := range kpool {
		out = append(out, mk(k))
	}
	if len(kpool) > 1 {
		out = append(out, mk(kpool[0], kpool[1]), mk(kpool[1], kpool[0]))
	}
	if len(kpool) > 2 {
		out = append(out, mk(kpool[0], kpool[1], kpool[2]), mk(kpool[2], kpool[1]), mk(kpool...))
	}
	for k := 0; k < g.nRandom; k++ {
		n := g.rng.Intn(len(kpool) + 1)
		ks := make([]*ty.Val, n)
		for j := range ks {
			ks[j] = kpool[g.rng.Intn(len(kpool))]
		}
		out = append(out, mk(ks...))
	}
	return out
}

// nanKeys: NaN values of a float / complex key type (canonical quiet NaN bit patterns only)
func nanKeys(u *ty.Ty) []*ty.Val {
	if u.K != ty.Basic {
		return nil
	}
	q64, q32 := math.Float64bits(math.NaN()), uint64(math.Float32bits(float32(math.NaN())))
	one64, one32 := math.Float64bits(1.5), uint64(math.Float32bits(1.5))
	switch u.B {
	case "float64":
		return []*ty.Val{{K: ty.VFlt, W: 64, Bits: q64}}
	case "float32":
		return []*ty.Val{{K: ty.VFlt, W: 32, Bits: q32}}
	case "complex128":
		return []*ty.Val{{K: ty.VCplx, W: 64, Bits: q64, Bits2: 0}, {K: ty.VCplx, W: 64, Bits: one64, Bits2: q64}, {K: ty.VCplx, W: 64, Bits: q64, Bits2: q64}}
	case "complex64":
		return []*ty.Val{{K: ty.VCplx, W: 32, Bits: q32, Bits2: 0}, {K: ty.VCplx, W: 32, Bits: one32, Bits2: q32}, {K: ty.VCplx, W: 32, Bits: q32, Bits2: q32}}
	}
	return nil
}

func isNaNVal(v *ty.Val) bool {
	nan := func(w int, bits uint64) bool {
		if w == 32 {
			f := math.Float32frombits(uint32(bits))
			return f != f
		}
		f := math.Float64frombits(bits)
		return f != f
	}
	switch v.K {
	case ty.VFlt:
		return nan(v.W, v.Bits)
	case ty.VCplx:
		return nan(v.W, v.Bits) || nan(v.W, v.Bits2)
	}
	return false
}

func (g *G) keyOps(i int, k *ty.Ty) {
	env := g.env
	gk := k.Go(env, "main")
	qi := g.pkgOf(k)
	q, qn := g.qs[qi], fmt.Sprintf("q%d", qi)
	kpool := g.vg.Pool(k)
	g.stat("key-pool", len(kpool))
	g.stat("key-head:"+kindName(env.Under(k).K), 1)
	if g.want["keys"] {
		tn := fmt.Sprintf("M%d", i)
		fmt.Fprintf(g.prelude, "ty %s %s\n", tn, ty.M(k, ty.B("int")).Wire())
		fmt.Fprintf(q, "\nfunc Keys_%d(m map[%s]int) []%s { return deriveKeys_%d(m) }\n", i, gk, gk, i)
		fmt.Fprintf(g.m, "\trt.Reg(\"keys\", %q, rt.Keys(%s.Keys_%d))\n", tn, qn, i)
		n := 0
		// Keys must return every key, NaN keys included (each NaN key is an entry of its own): float and
		// complex key types get the canonical quiet NaN once and twice among ordinary keys, zeros, infinities.
		// (only here: the order clauses of sort / min / max and the set operations are stated NaN-free)
		kp := append([]*ty.Val(nil), kpool...)
		if nan := nanKeys(env.Under(k)); nan != nil {
			kp = append(append([]*ty.Val{nan[0], nan[0]}, kp...), nan...)
			g.stat("keys-nan-key-types", 1)
		}
		for _, m := range g.keyMaps(kp, func() *ty.Val { return &ty.Val{K: ty.VInt, Int: fmt.Sprint(g.rng.Intn(5))} }) {
			for j := 0; j < len(m.Elems); j += 2 {
				if isNaNVal(m.Elems[j]) {
					g.stat("keys-maps-with-nan", 1)
					break
				}
			}
			g.stat(fmt.Sprintf("keys-map-len:%d", len(m.Elems)/2), 1)
			g.ow.op("keys", tn, g.vg.Inst(m).Wire())
			n++
		}
		// bool-valued maps (also with a named bool): a key whose value is false is a key like any other; maps with
		// only false values, with false among true values, in both insertion orders
		for vi, vt := range []*ty.Ty{ty.B("bool"), ty.N(3)} {
			tnb := fmt.Sprintf("M%c%d", "BN"[vi], i)
			gv := vt.Go(env, "main")
			fmt.Fprintf(g.prelude, "ty %s %s\n", tnb, ty.M(k, vt).Wire())
			fmt.Fprintf(q, "\nfunc Keys%c_%d(m map[%s]%s) []%s { return deriveKeys%c_%d(m) }\n", "BN"[vi], i, gk, gv, gk, "BN"[vi], i)
			fmt.Fprintf(g.m, "\trt.Reg(\"keys\", %q, rt.Keys(%s.Keys%c_%d))\n", tnb, qn, "BN"[vi], i)
			for mode := 0; mode < 3; mode++ {
				cnt := 0
				for _, m := range g.keyMaps(kpool, func() *ty.Val {
					cnt++
					return &ty.Val{K: ty.VBool, Bool: mode == 1 && cnt%2 == 0 || mode == 2 && cnt%3 != 0}
				}) {
					if len(m.Elems) == 0 && mode > 0 {
						continue
					}
					g.stat("keys-bool-valued-maps", 1)
					g.ow.op("keys", tnb, g.vg.Inst(m).Wire())
				}
			}
		}
	}
	if g.want["union"] || g.want["intersect"] {
		tn := fmt.Sprintf("K%d", i)
		fmt.Fprintf(g.prelude, "ty %s %s\n", tn, k.Wire())
		sets := g.keyMaps(kpool, func() *ty.Val { return &ty.Val{K: ty.VStruct} })
		g.stat("key-sets", len(sets))
		if g.want["union"] {
			fmt.Fprintf(q, "\nfunc UnionM_%d(a, b map[%s]struct{}) map[%s]struct{} { return deriveUnionM_%d(a, b) }\n", i, gk, gk, i)
			fmt.Fprintf(g.m, "\trt.Reg(\"unionm\", %q, rt.UnionM(%s.UnionM_%d))\n", tn, qn, i)
			for _, a := range sets {
				for _, b := range sets {
					g.ow.op("unionm", tn, g.vg.Inst(a).Wire(), g.vg.Inst(b).Wire())
				}
			}
			// the same map on both sides
			for _, a := range sets {
				x := g.vg.Inst(a)
				g.ow.op("unionm", tn, x.Wire(), x.Wire())
			}
		}
		if g.want["intersect"] {
			fmt.Fprintf(q, "\nfunc IntersectM_%d(a, b map[%s]struct{}) map[%s]struct{} { return deriveIntersectM_%d(a, b) }\n", i, gk, gk, i)
			fmt.Fprintf(g.m, "\trt.Reg(\"intersectm\", %q, rt.IntersectM(%s.IntersectM_%d))\n", tn, qn, i)
			for _, a := range sets {
				for _, b := range sets {
					g.ow.op("intersectm", tn, g.vg.Inst(a).Wire(), g.vg.Inst(b).Wire())
				}
			}
		}
	}
}

func main() {
	flag.Parse()
	rng := rand.New(rand.NewSource(*seed))
	env := gen.Lib()
	b, n, p := ty.B, ty.N, ty.P
	// declarations of this corpus only: types of user packages named like standard packages
	// (corpus/ext2/strings, …/sort, …/bytes); their functions of the same names do something else
	shadow0 := len(env.Decls)
	env.Decls = append(env.Decls,
		&ty.Decl{Name: "Word", Pkg: "strings", Under: b("string")},
		&ty.Decl{Name: "Key", Pkg: "sort", Under: b("int")},
		&ty.Decl{Name: "B", Pkg: "bytes", Under: ty.Sl(b("byte"))},
		// a recursive named slice: []RT is assignable to RT, so (a, b []RT) also fits the list form (list []RT, def RT)
		&ty.Decl{Name: "RT", Pkg: "", Under: ty.Sl(n(shadow0 + 3))},
		// a struct whose own Compare (pointer parameter) orders by the first field DESCENDING: the order of derived
		// Compare on RC values is not the field order. The Lean model does not know this method: only the
		// consistency ops (sortcmp, …) run on it
		&ty.Decl{Name: "RC", Pkg: "", Under: ty.St(ty.F("A", b("int")), ty.F("B", b("string")))},
		// ==-comparable types with their own Equal: UH with a Hash method that agrees with it (value receivers, first
		// field only: modelled), WH holding one by value; CS / CSH named strings with a case-folding Equal, CSH with a
		// Hash() int32 that agrees with it (hand-written, unknown to the Lean model: consistency ops only)
		&ty.Decl{Name: "UHx", Pkg: "", Under: b("int")}, // (placeholder: UH is declaration 60 of gen.Lib now)
		&ty.Decl{Name: "WH", Pkg: "", Under: ty.St(ty.F("V", n(60)), ty.F("N", b("int")))},
		&ty.Decl{Name: "CS", Pkg: "", Under: b("string")},
		&ty.Decl{Name: "CSH", Pkg: "", Under: b("string")},
		// a ==-comparable struct whose Equal takes an interface{} (the gogo/protobuf shape that plugin/equal calls) and
		// looks at the first field only (hand-written, value receiver: consistency ops only), and a struct holding one
		&ty.Decl{Name: "UI", Pkg: "", Under: ty.St(ty.F("A", b("int")), ty.F("B", b("string")))},
		&ty.Decl{Name: "WI", Pkg: "", Under: ty.St(ty.F("V", n(shadow0+9)), ty.F("N", b("int")))},
		// a struct whose own Compare (pointer parameter) returns the DIFFERENCE of the first fields: derived Compare on RD,
		// and on a struct that holds one, takes values below -1 and above 1 (hand-written: consistency ops only)
		&ty.Decl{Name: "RD", Pkg: "", Under: ty.St(ty.F("A", b("int")), ty.F("B", b("string")))},
		&ty.Decl{Name: "WD", Pkg: "", Under: ty.St(ty.F("V", n(shadow0+11)), ty.F("N", b("int")))},
		// an exported type of ANOTHER package that bears the name of p.UE2 and has no methods (==-comparable): what is
		// remembered about a type must not be keyed by its bare name. Its ops come before those of p.UE2.
		&ty.Decl{Name: "UE2", Pkg: "ext", Under: ty.St(ty.F("A", b("int")), ty.F("B", b("string")))},
		// two different instances of ONE generic struct (Lib 55 OptI = Opt[int], 56 OptP = Opt[*int]), the first
		// ==-comparable, the second not: the struct is not comparable (Unique must not key a map by it)
		&ty.Decl{Name: "G2", Pkg: "", Under: ty.St(ty.F("A", n(55)), ty.F("B", n(56)))},
		// a named small integer kind (a set of them can hold 256 values), and a ==-comparable struct with a field whose
		// name starts with an underscore (not the blank field: it takes part in == and in derived Equal)
		&ty.Decl{Name: "Level", Pkg: "", Under: b("int8")},
		&ty.Decl{Name: "UR", Pkg: "", Under: ty.St(ty.F("A", b("int")), ty.F("_rev", b("int"))), Priv: true})
	if env.Decls[55].Name != "OptI" || env.Decls[56].Name != "OptP" || env.Decls[32].Name != "UE2" {
		must(fmt.Errorf("gen.Lib: declarations 32 / 55 / 56 are not UE2 / OptI / OptP"))
	}
	word, key, bb, rt, rc := n(shadow0), n(shadow0+1), n(shadow0+2), n(shadow0+3), n(shadow0+4)
	uh, wh, cs, csh := n(60), n(shadow0+6), n(shadow0+7), n(shadow0+8)
	if env.Decls[60].Name != "UH" {
		must(fmt.Errorf("gen.Lib: declaration 60 is %s, expected UH", env.Decls[60].Name))
	}
	ui, wi := n(shadow0+9), n(shadow0+10)
	rd, wd := n(shadow0+11), n(shadow0+12)
	xue2, g2 := n(shadow0+13), n(shadow0+14)
	level, ur := n(shadow0+15), n(shadow0+16)
	nu64 := n(46)
	localSrc := map[string]string{"RC": `
func (this *RC) Compare(that *RC) int {
	if this == nil {
		if that == nil {
			return 0
		}
		return -1
	}
	if that == nil {
		return 1
	}
	if this.A > that.A {
		return -1
	}
	if this.A < that.A {
		return 1
	}
	return 0
}

`, "CS": `
func (this CS) Equal(that CS) bool { return fold(string(this)) == fold(string(that)) }

// fold maps ASCII letters to lower case.
func fold(s string) string {
	b := []byte(s)
	for i, c := range b {
		if 'A' <= c && c <= 'Z' {
			b[i] = c + 'a' - 'A'
		}
	}
	return string(b)
}

`, "RD": `
func (this *RD) Compare(that *RD) int {
	if this == nil {
		if that == nil {
			return 0
		}
		return -1
	}
	if that == nil {
		return 1
	}
	return this.A - that.A
}

`, "UI": `
func (this UI) Equal(other interface{}) bool {
	switch that := other.(type) {
	case UI:
		return this.A == that.A
	case *UI:
		return that != nil && this.A == that.A
	}
	return false
}

`, "CSH": `
func (this CSH) Equal(that CSH) bool { return fold(string(this)) == fold(string(that)) }
func (this CSH) Hash() int32         { return int32(len(this)) }

`}
	// element types: basics (incl. bool and complex, which have no <), named basics (incl. a named bool), comparable struct, pointers to structs, slices, a struct
	// with pointers, a recursive and an imported struct behind pointers
	elems := []*ty.Ty{b("int"), b("int64"), b("uint8"), b("string"), b("float64"), b("bool"), n(0), n(1), n(2),
		n(5), p(n(5)), p(n(6)), ty.Sl(b("int")), n(6), p(n(7)), p(n(17)), b("complex128"), n(3),
		ty.Sl(b("byte")), ty.Sl(b("string")), ty.Ar(2, b("int")), n(22),
		// pointers to basics: ordered and compared through the pointer, nil first, never by identity
		p(b("int")), p(b("string")),
		// a NAMED float inside non-comparable elements: -0 / +0 are Equal and must land in one hash bucket
		ty.Sl(n(2)), p(n(2)), p(n(36)),
		// unsigned 64-bit integers (values at and above 1<<63 must not be ordered as negative ints), also named
		// and as map keys behind Compare (which sorts the keys); floats inside comparable and non-comparable values
		b("uint64"), b("uint"), b("uintptr"), nu64, ty.M(b("uint64"), b("int")), b("float32"), n(15), ty.Sl(b("float64")), p(b("float64")),
		// types with their own Equal / Compare / Hash methods (pointer receivers; they look at the first field only, so
		// Equal is coarser than the fields) as VALUE elements, behind pointers and slices and inside a struct;
		// a recursive named slice as element of the two-value forms
		n(31), p(n(31)), ty.Sl(n(31)), n(33), ty.Sl(rt),
		xue2, g2,
		b("int8"), level, ur, ty.Ar(3, b("uint8")), n(14)}
	keys := []*ty.Ty{b("int"), b("string"), n(0), n(5), ty.Ar(2, b("int")), b("float64"), b("float32"), b("complex128"), n(2), b("uint64")}
	// int32 = rune: a rune -> rune mapping must not be special-cased (negative, surrogate, > MaxRune results)
	results := []*ty.Ty{b("int"), b("string"), p(n(5)), ty.Sl(b("int")), n(5), b("bool"), b("float64"), n(1), b("int32")}
	cap, maxLen, nRandom := 6, 7, 8
	if *thorough {
		elems = append(elems, b("int32"), b("uint32"), ty.Sl(b("int8")),
			ty.M(b("string"), b("int")), n(10), p(n(8)), n(20), n(16), ty.Sl(p(n(5))), n(11), ty.Sl(ty.Sl(b("byte"))), ty.Ar(2, ty.Sl(b("byte"))))
		keys = append(keys, n(1), b("bool"), b("uint8"), n(14), ty.Ar(2, n(5)), b("complex64"))
		results = append(results, p(n(6)), n(0), b("uint8"), ty.M(b("string"), b("int")))
		cap, maxLen, nRandom = 10, 12, 40
	}
	want := map[string]bool{}
	for _, pl := range strings.Split(*plugins, ",") {
		want[pl] = true
	}

	var ext strings.Builder
	ext.WriteString("// Package ext holds the imported declarations of the corpus.\npackage ext\n\n")
	for _, d := range env.Decls {
		if d.Pkg == "ext" {
			fmt.Fprintf(&ext, "type %s %s\n", d.Name, d.Under.Go(env, "ext"))
		}
	}
	write(filepath.Join(*out, "ext", "ext.go"), ext.String())
	var pp strings.Builder
	pp.WriteString("package p\n\nimport \"corpus/ext\"\n\nvar _ ext.XN\n\n")
	for _, d := range env.Decls {
		if d.Pkg == "" {
			if d.Src != "" {
				pp.WriteString(d.Src + "\n") // e.g. an alias of an instance of a generic type
			} else {
				fmt.Fprintf(&pp, "type %s %s\n", d.Name, d.Under.Go(env, ""))
			}
			if d.Methods != "" {
				pp.WriteString("\n" + gen.MethodSrc(d))
			}
			pp.WriteString(localSrc[d.Name])
		}
	}
	write(filepath.Join(*out, "p", "p.go"), pp.String())

	var prelude, m strings.Builder
	for _, d := range env.Decls {
		flags := ""
		if d.Pkg != "" {
			flags += "e"
		}
		if d.Priv {
			flags += "p"
		}
		if d.Under.K == ty.Struct {
			flags += "m"
			for _, f := range d.Under.Fields {
				if !token.IsExported(f.Name) {
					flags += "1"
				} else {
					flags += "0"
				}
			}
		}
		if d.Methods != "" {
			flags += "." + d.Methods
		}
		if flags == "" {
			flags = "-"
		}
		fmt.Fprintf(&prelude, "decl %s %s\n", flags, d.Under.Wire())
	}

	opsf, err := os.Create(filepath.Join(*out, "ops.txt"))
	must(err)
	g := &G{env: env, vg: gen.NewVGen(env, rng, cap), rng: rng, ow: &opw{f: opsf, n: map[string]int{}}, m: &m,
		prelude: &prelude, stats: map[string]int{}, want: want, maxLen: maxLen, nRandom: nRandom, force: -1, qshadow: map[int]bool{}, tnPre: "L", customE: map[string]bool{"CS": true, "CSH": true, "UI": true}}

	dn, err := os.OpenFile(os.DevNull, os.O_WRONLY, 0)
	must(err)
	g.discard = &opw{f: dn, n: map[string]int{}}
	folded := []*ty.Val{sv("a"), sv("A"), sv("ab"), sv("aB"), sv("b"), sv(""), sv("AB"), sv("B")}
	uiv := func(a int64, b string) *ty.Val {
		return &ty.Val{K: ty.VStruct, Elems: []*ty.Val{{K: ty.VInt, Int: fmt.Sprint(a)}, sv(b)}}
	}
	uis := []*ty.Val{uiv(0, ""), uiv(0, "a"), uiv(1, ""), uiv(1, "b"), uiv(-1, "x"), uiv(0, "ab")}
	var wis, ais, acs []*ty.Val
	for k, u := range uis {
		wis = append(wis, &ty.Val{K: ty.VStruct, Elems: []*ty.Val{u, {K: ty.VInt, Int: fmt.Sprint(k / 4)}}})
		ais = append(ais, &ty.Val{K: ty.VArr, Elems: []*ty.Val{u, uis[(k+2)%len(uis)]}})
	}
	for k := range folded {
		acs = append(acs, &ty.Val{K: ty.VArr, Elems: []*ty.Val{folded[k], folded[(k+2)%len(folded)]}})
	}
	uiv2 := func(a, r int64) *ty.Val {
		return &ty.Val{K: ty.VStruct, Elems: []*ty.Val{{K: ty.VInt, Int: fmt.Sprint(a)}, {K: ty.VInt, Int: fmt.Sprint(r)}}}
	}
	g.eqAlso = map[string]bool{ur.Wire(): true}
	var rds, wds []*ty.Val
	for k, a := range []int64{0, 2, 5, -3, 7, 2, 100, -40} {
		r := uiv(a, []string{"", "a"}[k/5%2])
		rds = append(rds, r)
		wds = append(wds, &ty.Val{K: ty.VStruct, Elems: []*ty.Val{r, {K: ty.VInt, Int: fmt.Sprint(k % 2)}}})
	}
	g.pools = map[string][]*ty.Val{"CS": folded, "CSH": folded, "UI": uis, "WI": wis, "RD": rds, "WD": wds,
		"UR":                {uiv2(0, 0), uiv2(0, 1), uiv2(1, 0), uiv2(1, 7), uiv2(-1, 0), uiv2(0, -5)},
		ty.Ar(2, ui).Wire(): ais, ty.Ar(2, csh).Wire(): acs,
		// slices of CSH: not ==-comparable, so Unique buckets by the derived hash, which must ask every element's own Hash
		ty.Sl(csh).Wire(): {slice([]*ty.Val{folded[0]}, 0), slice([]*ty.Val{folded[1]}, 0), nilv(), slice(nil, 0),
			slice([]*ty.Val{folded[2], folded[4]}, 0), slice([]*ty.Val{folded[3], folded[7]}, 1), slice([]*ty.Val{folded[4]}, 0)}}
	perElem := false
	for _, pl := range []string{"sort", "min", "max", "contains", "unique", "set", "union", "intersect", "filter", "takewhile", "all", "any", "join"} {
		perElem = perElem || want[pl]
	}
	shadowA := -1
	if perElem {
		for i, t := range elems {
			g.elemOps(i, t)
			g.cmpOps(i, t, false)
		}
		// two packages that import the shadow packages: in the first the user's strings / sort / bytes are
		// mentioned before the generated code needs the standard ones, in the second after
		idx := len(elems)
		std := []*ty.Ty{b("string"), b("int"), b("float64"), n(10), n(16)}
		sh := []*ty.Ty{key, word, bb}
		shadowA = g.newShadowPkg()
		g.force = shadowA
		for _, t := range append(append([]*ty.Ty(nil), sh...), std...) {
			g.elemOps(idx, t)
			idx++
		}
		if want["join"] {
			g.joinStringOps(shadowA, "stringA")
		}
		shadowB := g.newShadowPkg()
		g.force = shadowB
		if want["join"] {
			g.joinStringOps(shadowB, "stringB")
		}
		for _, t := range append(append([]*ty.Ty(nil), std...), sh...) {
			g.elemOps(idx, t)
			idx++
		}
		g.force = -1
		g.stat("shadow-import-packages", 2)
		if want["sort"] || want["min"] || want["max"] {
			// the list form of min / max with (list []RT, default RT): no two-value form beside it, (RT, RT) and
			// ([]RT, RT) are mutually assignable argument lists
			g.noTwo = true
			g.elemOps(idx, rt)
			g.cmpOps(idx, rt, false)
			g.noTwo = false
			idx++
			// element types with a Compare method of another order than the fields (value elements), and with a
			// Compare taking an interface: consistency ops only
			for _, t := range []*ty.Ty{rc, n(39), rd, wd} {
				g.cmpOps(idx, t, true)
				idx++
			}
		}
		// ==-comparable element types with their own Equal. With a Hash that agrees with it (UH, WH holding one):
		// every op. Without one (UE2) Unique cannot bucket Equal elements together: those ops carry the type
		// name prefix LNH, which the check maps to a finding class; CS (no Hash) likewise, CSH (named basic with
		// its own Hash, which the top-level hash function ignores) under LBH.
		for _, t := range []*ty.Ty{uh, wh} {
			g.elemOps(idx, t)
			g.cmpOps(idx, t, false)
			idx++
		}
		g.tnPre = "LNH"
		g.elemOps(idx, n(32))
		g.cmpOps(idx, n(32), false)
		idx++
		if want["contains"] || want["unique"] {
			g.eqOnly = true
			g.elemOps(idx, cs)
			idx++
			g.tnPre = "LBH"
			g.elemOps(idx, csh)
			idx++
			g.tnPre = "L"
			// the hash of ELEMENTS of slices and arrays must ask the element's own Hash; Equal methods that take an
			// interface{} count as the type's equality wherever == would otherwise be used
			for _, t := range []*ty.Ty{ty.Sl(csh), ty.Ar(2, csh), ui, wi, ty.Ar(2, ui)} {
				g.elemOps(idx, t)
				idx++
			}
			g.eqOnly = false
		}
		g.tnPre = "L"
	}
	if want["keys"] || want["union"] || want["intersect"] {
		for i, k := range keys {
			g.keyOps(i, k)
		}
	}
	if len(g.qs) == 0 {
		g.pkgOf(b("int"))
	}
	if want["fmap"] {
		// every element type with two result types, every result type at least twice
		i := 0
		done := map[string]bool{}
		for ei, e := range elems {
			for d := 0; d < 2; d++ {
				r := results[(ei*2+d)%len(results)]
				if k := e.Wire() + ">" + r.Wire(); !done[k] {
					done[k] = true
					g.fmapOps(i, e, r)
					i++
				}
			}
		}
		// result type = element type: an implementation could (wrongly) write the results in place
		for _, e := range elems {
			if k := e.Wire() + ">" + e.Wire(); !done[k] {
				done[k] = true
				g.fmapOps(i, e, e)
				i++
			}
		}
		if shadowA >= 0 {
			g.force = shadowA
			for _, pr := range [][2]*ty.Ty{{word, word}, {b("string"), word}, {bb, key}} {
				g.fmapOps(i, pr[0], pr[1])
				i++
			}
			g.force = -1
		}
		for ri, r := range results {
			g.fmapStringOps(ri, r)
		}
	}
	if want["join"] {
		g.joinStringOps(0, "string")
	}
	m.WriteString("}\n")
	must(opsf.Close())

	var mh strings.Builder
	mh.WriteString("package main\n\nimport (\n\t\"corpus/ext\"\n\t\"corpus/p\"\n")
	for qi, q := range g.qs {
		write(filepath.Join(*out, fmt.Sprintf("q%d", qi), "q.go"), q.String())
		fmt.Fprintf(&mh, "\t\"corpus/q%d\"\n", qi)
	}
	if g.shadow {
		mh.WriteString("\t\"corpus/ext2/bytes\"\n\t\"corpus/ext2/sort\"\n\t\"corpus/ext2/strings\"\n")
		write(filepath.Join(*out, "ext2", "strings", "strings.go"), shadowStrings)
		write(filepath.Join(*out, "ext2", "sort", "sort.go"), shadowSort)
		write(filepath.Join(*out, "ext2", "bytes", "bytes.go"), shadowBytes)
	}
	mh.WriteString("\t\"verifharness/rt\"\n)\n\nvar _ ext.XN\nvar _ p.NI\n\nfunc main() { rt.Main() }\n\nfunc init() {\n")
	if g.shadow {
		mh.WriteString("\tvar _ bytes.B\n\tvar _ sort.Key\n\tvar _ strings.Word\n")
	}
	for qi := range g.qs {
		fmt.Fprintf(&mh, "\t_ = q%d.Anchor\n", qi)
	}
	write(filepath.Join(*out, "main.go"), mh.String()+m.String())
	for qi := range g.qs {
		f, err := os.OpenFile(filepath.Join(*out, fmt.Sprintf("q%d", qi), "q.go"), os.O_APPEND|os.O_WRONLY, 0o644)
		must(err)
		fmt.Fprintf(f, "\n// Anchor keeps the import of this package used.\nvar Anchor = 0\n")
		must(f.Close())
	}
	g.stats["pkgs"] = len(g.qs)
	g.stats["elem-types"] = len(elems)
	g.stats["key-types"] = len(keys)
	write(filepath.Join(*out, "prelude.txt"), prelude.String())
	write(filepath.Join(*out, "go.mod"), fmt.Sprintf("module corpus\n\ngo 1.24\n\nrequire verifharness v0.0.0\n\nreplace verifharness => %s\n", *harness))

	var ks []string
	for k := range g.stats {
		ks = append(ks, k)
	}
	for k, v := range g.ow.n {
		g.stats["ops:"+k] = v
		ks = append(ks, "ops:"+k)
	}
	sort.Strings(ks)
	var sb strings.Builder
	fmt.Fprintf(&sb, "{\"ops\": %d", g.ow.id)
	for _, k := range ks {
		fmt.Fprintf(&sb, ", %q: %d", k, g.stats[k])
	}
	sb.WriteString("}\n")
	write(filepath.Join(*out, "stats.json"), sb.String())
}
