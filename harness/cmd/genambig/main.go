// genambig writes the C08 corpus: a Go module `ambig` whose packages stress the places where goderive's
// output could depend on something other than the package's own sources:
//
//   - name lookup among several named and unnamed mutually assignable types (type A []int; type B []int;
//     []int used side by side), for several plugins at once;
//   - many helpers requested from several plugins (equal / compare / hash / deepcopy / clone / gostring /
//     sort / keys / set / min / max / contains / unique …) so that the work list and the import table are long;
//   - two imported packages with the same package name (import alias collision);
//   - types that can only be inferred in a second pass (a derive call fed by another derive call);
//   - a package that imports another generated package;
//   - a dependency whose in-package _test.go file adds Equal / Compare / Hash methods, and a package embedding its types;
//   - one package that goderive must reject (bad), to observe what a failing sibling does to the others.
//
// It only writes sources; vlib/runs.py runs the real goderive on fresh copies (repeated runs, invocation
// variants) and compares sha256 of every derived.gen.go.
//
//	genambig -out DIR -seed N [-thorough] [-harness PATH -plugins x]   (the last two are ignored)
//
// cases.json: [{"pkg": "amb1", "kind": "...", "expect": "ok"|"fail"|"any"}]; stats.json: measured counts.
package main

import (
	"encoding/json"
	"flag"
	"fmt"
	"math/rand"
	"os"
	"path/filepath"
	"sort"
	"strings"
)

var (
	out      = flag.String("out", "", "output directory")
	seed     = flag.Int64("seed", 1, "PRNG seed")
	thorough = flag.Bool("thorough", false, "thorough tier")
	_        = flag.String("harness", "", "ignored")
	_        = flag.String("plugins", "", "ignored")
)

func must(err error) {
	if err != nil {
		fmt.Fprintln(os.Stderr, err)
		os.Exit(2)
	}
}

func write(rel, s string) {
	p := filepath.Join(*out, rel)
	must(os.MkdirAll(filepath.Dir(p), 0o755))
	must(os.WriteFile(p, []byte(s), 0o644))
}

type caseT struct {
	Pkg    string `json:"pkg"`
	Kind   string `json:"kind"`
	Expect string `json:"expect"`
	// History: an earlier version of the package (file name -> content; "" = the file did not exist). The C08 check
	// generates for that version first, then puts the current sources in place and generates again: the bytes must be
	// those of a generation from scratch over the current sources.
	History map[string]string `json:"history,omitempty"`
}

var cases []caseT
var stats = map[string]int{}

// ---------------------------------------------------------------- fixed packages

const xb = `package b

// T is one of two imported types called b.T.
type T struct {
	N int
	S []string
}

type U []int
`

const yb = `package b

type T struct {
	F float64
	M map[string]int
}

type V map[string][]int
`

const amb1 = `package amb1

type A []int
type B []int

type S struct {
	X A
	Y B
	Z []int
}

func EqS(a, b *S) bool    { return deriveEqual(a, b) }
func EqA(a, b A) bool     { return deriveEqualA(a, b) }
func EqB(a, b B) bool     { return deriveEqualB(a, b) }
func CmpS(a, b *S) int    { return deriveCompare(a, b) }
func CmpA(a, b A) int     { return deriveCompareA(a, b) }
func CmpB(a, b B) int     { return deriveCompareB(a, b) }
func HashS(a *S) uint64   { return deriveHash(a) }
func HashA(a A) uint64    { return deriveHashA(a) }
func HashB(a B) uint64    { return deriveHashB(a) }
func CopyS(dst, src *S)   { deriveDeepCopy(dst, src) }
func CopyA(dst, src A)    { deriveDeepCopyA(dst, src) }
func CopyB(dst, src B)    { deriveDeepCopyB(dst, src) }
func StrS(a *S) string    { return deriveGoString(a) }
func StrA(a A) string     { return deriveGoStringA(a) }
func StrB(a B) string     { return deriveGoStringB(a) }
`

// many helpers; M2 is only compared with Equal: two named map types over one underlying type that both
// need a keys helper make goderive loop forever (reported by the C09 check), which would hide this package
const amb2 = `package amb2

type A []int
type B []int
type M1 map[string]A
type M2 map[string]A

type S struct {
	X  A
	Y  B
	Z  []int
	M  M1
	O  map[string]A
	P  *A
	Q  *B
	R  *[]int
	AA []A
	BB []B
	CC [][]int
}

func EqB(a, b B) bool      { return deriveEqualB(a, b) }
func EqS(a, b *S) bool     { return deriveEqual(a, b) }
func EqM2(a, b M2) bool    { return deriveEqualM2(a, b) }
func CmpB(a, b B) int      { return deriveCompareB(a, b) }
func CmpS(a, b *S) int     { return deriveCompare(a, b) }
func HashS(a *S) uint64    { return deriveHash(a) }
func CloneS(a *S) *S       { return deriveClone(a) }
func StrS(a *S) string     { return deriveGoString(a) }
func SortZ(z []int) []int  { return deriveSort(z) }
`

const twoimp = `package twoimp

import (
	xb "ambig/x/b"
	yb "ambig/y/b"
)

type S struct {
	X  xb.T
	Y  yb.T
	PX *xb.T
	PY *yb.T
	U  xb.U
	V  yb.V
}

func Eq(a, b *S) bool     { return deriveEqual(a, b) }
func Cmp(a, b *S) int     { return deriveCompare(a, b) }
func Hash(a *S) uint64    { return deriveHash(a) }
func Copy(dst, src *S)    { deriveDeepCopy(dst, src) }
func Str(a *S) string     { return deriveGoString(a) }
func EqY(a, b *yb.T) bool { return deriveEqualY(a, b) }
`

const pass2 = `package pass2

import "strconv"

func conv(i int) string { return strconv.Itoa(i) }

func pair(s string) []string { return []string{s, s} }

// the argument types of deriveEqual / deriveJoin are only known once deriveFmap has been generated
func F(xs []int, ys []string) bool {
	zs := deriveFmap(conv, xs)
	return deriveEqual(zs, ys)
}

func G(xs []string) []string {
	return deriveJoin(deriveFmapP(pair, xs))
}

func H(xs []string) []string {
	return deriveSort(deriveUnique(deriveJoin(deriveFmapP(pair, xs))))
}
`

// a call that needs a second generation round, preceded in the same file by several first-round calls of the
// same plugin (the order in which one plugin's functions are registered must not depend on whether an old
// derived.gen.go already resolves them: run from scratch vs. rerun over the own output)
const pass3 = `package pass3

type Inventory struct {
	Owner string
	Rev   int
	Tags  []float64
	Stock map[string]int
}

func SameShape(a, b *Inventory) bool {
	return deriveEqualOwner(&a.Owner, &b.Owner) &&
		deriveEqualRev(a.Rev, b.Rev) &&
		deriveEqualTags(a.Tags, b.Tags) &&
		deriveEqualArticles(deriveSort(deriveKeys(a.Stock)), deriveSort(deriveKeys(b.Stock)))
}

func Order(a, b *Inventory) int {
	if c := deriveCompareRev(a.Rev, b.Rev); c != 0 {
		return c
	}
	if c := deriveCompareOwner(&a.Owner, &b.Owner); c != 0 {
		return c
	}
	return deriveCompareCounts(deriveSortInts(deriveFmap(count, deriveKeys(a.Stock))), deriveSortInts(deriveFmap(count, deriveKeys(b.Stock))))
}

func count(s string) int { return len(s) }

func Late(a, b *Inventory) bool {
	return deriveContains(deriveUnique(deriveSort(deriveKeys(a.Stock))), b.Owner) && deriveEqualWhole(a, b)
}
`

const user = `package user

import "ambig/amb2"

type W struct {
	S  amb2.S
	PS *amb2.S
	A  amb2.A
	B  amb2.B
	Z  []int
}

func Eq(a, b *W) bool  { return deriveEqual(a, b) }
func Cmp(a, b *W) int  { return deriveCompare(a, b) }
func Hash(a *W) uint64 { return deriveHash(a) }
func Clone(a *W) *W    { return deriveClone(a) }
func Str(a *W) string  { return deriveGoString(a) }
`

// a dependency whose IN-PACKAGE test file adds methods: goderive loads packages named on the command line
// together with their _test.go files, and other named packages that import them see that augmented version
const dep = `package dep

type T struct {
	N int
	S []string
}

type U struct {
	M map[string]int
}
`

const depTest = `package dep

func (t *T) Equal(o *T) bool { return t.N == o.N }

func (t *T) Compare(o *T) int { return t.N - o.N }

func (u *U) Hash() uint64 { return uint64(len(u.M)) }

type OnlyInTests struct{ X int }
`

const usesdep = `package usesdep

import "ambig/dep"

type W struct {
	*dep.T
	U *dep.U
	X int
}

func Eq(a, b *W) bool  { return deriveEqual(a, b) }
func Cmp(a, b *W) int  { return deriveCompare(a, b) }
func Hash(a *W) uint64 { return deriveHash(a) }
`

// cross-package flow: the type of xbase.Names is the result type of a derived function, so a derive call in
// xtop that takes it is only typed once xbase/derived.gen.go exists (clean state, any order / spelling of the
// two arguments)
const xbase = `package xbase

var registry = map[string]int{"alpha": 1, "beta": 2}

// Names has the result type of a derived function.
var Names = deriveKeys(registry)

// Sorted as well, through two derived functions.
var Sorted = deriveSort(deriveKeys(registry))

func glue(a int, b string, c float64) string { return b }

// Curried has the type of a derived function as well.
var Curried = deriveCurry(glue)
`

// a package WITHOUT derive calls that only passes on what xbase exports: it is never an argument of the run
const xmid = `package xmid

import "ambig/xbase"

var (
	Names  = xbase.Names
	Sorted = xbase.Sorted
	C      = xbase.Curried
)
`

// packages that reach xbase only THROUGH xmid (W-C15-A): generated in one run with xbase, xbase has to come first although
// the package in between is not named; xabove sorts before xbase by import path, xfar after it
const xabove = `package xabove

import "ambig/xmid"

var Glue = deriveUncurry(xmid.C)

func Known(name string) bool { return deriveContains(xmid.Names, name) }
`

const xfar = `package xfar

import "ambig/xmid"

var SortedNames = deriveSort(xmid.Names)

func First() string { return deriveMin(xmid.Sorted, "") }

func Lens() []int { return deriveFmap(func(s string) int { return len(s) }, xmid.Names) }
`

const xtop = `package xtop

import "ambig/xbase"

type Point struct {
	X, Y int
	Tags []string
}

func Same(a, b *Point) bool { return deriveEqual(a, b) }

func Known(name string) bool { return deriveContains(xbase.Names, name) }

func First() string { return deriveMin(xbase.Sorted, "") }
`

// a package whose ONLY derive call waits for a function generated for the imported package (F74)
const xonly = `package xonly

import "ambig/xbase"

var SortedNames = deriveSort(xbase.Names)
`

// history pair: htop compares / hashes / copies hbase.Item field by field; the C08 check later adds a field to
// hbase.Item and regenerates htop with the same arguments
const hbase = `package hbase

type Item struct {
	Name string
	Tags []string
	// FIELDS
}
`

const htop = `package htop

import "ambig/hbase"

type Order struct {
	First hbase.Item
	Rest  []hbase.Item
	Ptr   *hbase.Item
}

func Eq(a, b *Order) bool  { return deriveEqual(a, b) }
func Cmp(a, b *Order) int  { return deriveCompare(a, b) }
func H(a *Order) uint64    { return deriveHash(a) }
func Copy(dst, src *Order) { deriveDeepCopy(dst, src) }
func Str(a *Order) string  { return deriveGoString(a) }
`

// derive calls that occur only in an in-package test file, next to a nested call that forces a second pass
const testonly = `package testonly

type Stock struct {
	Count map[string]int
	Tags  []string
}

func Articles(s *Stock) []string { return deriveSort(deriveKeys(s.Count)) }
`

const testonlyTest = `package testonly

import "testing"

func TestStock(t *testing.T) {
	a := &Stock{Count: map[string]int{"x": 1}}
	if !deriveEqual(a, a) || deriveCompare(a, a) != 0 || deriveHash(a) != deriveHash(a) {
		t.Fatal()
	}
	if !deriveContains(a.Tags, "x") && len(deriveSet(a.Tags)) != 0 {
		t.Fatal()
	}
}
`

// the same, with a nested call inside the test file as well
const testonly2Test = `package testonly2

import "testing"

func TestStock(t *testing.T) {
	a := &Stock{Count: map[string]int{"x": 1}}
	if !deriveEqual(a, a) {
		t.Fatal()
	}
	if len(deriveUnique(deriveSort(deriveKeysB(map[string]bool{"a": true})))) != 1 {
		t.Fatal()
	}
}
`

// min / max over a slice of a NAMED ordered type with an untyped constant default (the default's type is only
// the element type once the call resolves: first run vs. rerun), and chains of five and six nested derive calls
// from a clean tree (every level needs its own pass)
const minmax = `package minmax

import "time"

type Dur int

type Level uint8

type Name string

type Ratio float64

func MinDur(ds []Dur) Dur            { return deriveMin(ds, 0) }
func MaxDur(ds []Dur) Dur            { return deriveMax(ds, 0) }
func MinLevel(ls []Level) Level      { return deriveMinLevel(ls, 3) }
func MaxName(ns []Name) Name         { return deriveMaxName(ns, "") }
func MinRatio(rs []Ratio) Ratio      { return deriveMinRatio(rs, 1.5) }
func MaxTime(ts []time.Duration) time.Duration { return deriveMaxTime(ts, 0) }
func MinPlain(xs []int) int          { return deriveMinPlain(xs, 0) }
func MaxTyped(ls []Level, l Level) Level { return deriveMaxTyped(ls, l) }
`

const chain = `package chain

func length(s string) int { return len(s) }

func double(i int) int { return 2 * i }

func show(i int) string { return string(rune('a' + i)) }

// five levels
func Five(m map[string]int) []int {
	return deriveSortInts(deriveUniqueInts(deriveFmapLen(length, deriveSortStrs(deriveKeys(m)))))
}

// six levels
func Six(m map[string]bool) []string {
	return deriveSortStrs(deriveFmapShow(show, deriveUniqueInts(deriveFmapDouble(double, deriveFmapLen(length, deriveKeysB(m))))))
}

// seven levels, ending in a comparison
func Seven(a, b map[int]string) bool {
	return deriveEqual(
		deriveSortStrs(deriveUniqueStrs(deriveFmapShow(show, deriveFmapDouble(double, deriveSortInts(deriveKeysC(a)))))),
		deriveSortStrs(deriveUniqueStrs(deriveFmapShow(show, deriveFmapDouble(double, deriveSortInts(deriveKeysC(b)))))))
}
`

// -autoname across packages: auto1 has a conflict that -autoname resolves by renaming the second call; auto2 (later in
// path order) calls the same written name on the types of auto1's renamed call: what -autoname does to a package must
// not depend on the other packages of the invocation
const auto1 = `package auto1

func A(a, b []int) bool { return deriveEqual(a, b) }

func B(a, b []string) bool { return deriveEqual(a, b) } // renamed by -autoname
`

const auto2 = `package auto2

func C(a, b []string) bool { return deriveEqual(a, b) } // the only deriveEqual here: keeps its name

func D(a, b map[string]int) int { return deriveCompare(a, b) }
`

const auto3 = `package auto3

import "strings"

func E(a, b *strings.Builder) bool { return deriveEqual(a, b) }

func F(a, b []string) bool { return deriveEqual(a, b) } // renamed by -autoname
`

// histories (earlier version -> current version); see genHistories
const bad = `package bad

func Eq(a, b chan int) bool { return deriveEqual(a, b) }
`

// ---------------------------------------------------------------- random mixes

type tdef struct {
	name, def string
}

var namedPool = []tdef{
	{"A", "[]int"}, {"B", "[]int"}, {"C", "[]int"},
	{"I", "int"}, {"J", "int"},
	{"M1", "map[string]int"}, {"M2", "map[string]int"},
	{"SA", "[]A"}, {"SB", "[]A"},
	{"St", "string"}, {"Su", "string"},
	{"F", "float64"},
	{"R1", "struct {\n\tK I\n\tV A\n}"}, {"R2", "struct {\n\tK I\n\tV A\n}"},
	{"PA", "*A"},
}

var unnamedPool = []string{
	"[]int", "map[string]int", "*int", "[]A", "[]B", "[][]int", "[2]A", "[2][]int", "map[I]A", "map[int][]int",
	"struct {\n\t\tX A\n\t\tY []int\n\t}", "*[]int", "*A", "*B", "[]string", "[]St", "[]*A", "[]*[]int",
	"map[string]*A", "map[string]*[]int", "string", "int", "float64", "bool", "[]byte", "*R1", "*R2", "[]R1", "map[St]R2",
	"[]I", "[]J", "map[I]J", "map[J]I", "[]M1", "[]M2", "[]map[string]int",
}

type plug struct {
	name string
	sig  func(fn, t string) string // wrapper body for type expression t
	ok   func(t string) bool
}

func isSlice(t string) bool { return strings.HasPrefix(t, "[]") }
func isMap(t string) bool   { return strings.HasPrefix(t, "map[") }

var typed = []plug{
	{"Equal", func(fn, t string) string { return fmt.Sprintf("(a, b %s) bool { return %s(a, b) }", t, fn) }, func(string) bool { return true }},
	{"Compare", func(fn, t string) string { return fmt.Sprintf("(a, b %s) int { return %s(a, b) }", t, fn) }, func(string) bool { return true }},
	{"Hash", func(fn, t string) string { return fmt.Sprintf("(a %s) uint64 { return %s(a) }", t, fn) }, func(string) bool { return true }},
	{"DeepCopy", func(fn, t string) string { return fmt.Sprintf("(a, b %s) { %s(a, b) }", t, fn) }, func(t string) bool {
		return strings.HasPrefix(t, "*") || isSlice(t) || isMap(t)
	}},
	{"Clone", func(fn, t string) string { return fmt.Sprintf("(a %s) %s { return %s(a) }", t, t, fn) }, func(string) bool { return true }},
	{"GoString", func(fn, t string) string { return fmt.Sprintf("(a %s) string { return %s(a) }", t, fn) }, func(string) bool { return true }},
	{"Keys", func(fn, t string) string { return fmt.Sprintf("(a %s) int { return len(%s(a)) }", t, fn) }, isMap},
	{"Sort", func(fn, t string) string { return fmt.Sprintf("(a %s) %s { return %s(a) }", t, t, fn) }, isSlice},
	{"Set", func(fn, t string) string { return fmt.Sprintf("(a %s) int { return len(%s(a)) }", t, fn) }, func(t string) bool {
		return t == "[]int" || t == "[]string" || t == "[]I" || t == "[]St" || t == "[]J"
	}},
	{"Unique", func(fn, t string) string { return fmt.Sprintf("(a %s) %s { return %s(a) }", t, t, fn) }, isSlice},
	{"Contains", func(fn, t string) string {
		return fmt.Sprintf("(a %s) bool { return len(a) > 0 && %s(a, a[0]) }", t, fn)
	}, isSlice},
	{"Union", func(fn, t string) string { return fmt.Sprintf("(a, b %s) %s { return %s(a, b) }", t, t, fn) }, isSlice},
	{"Intersect", func(fn, t string) string { return fmt.Sprintf("(a, b %s) %s { return %s(a, b) }", t, t, fn) }, isSlice},
	{"Min", func(fn, t string) string {
		return fmt.Sprintf("(a %s) int { if len(a) == 0 { return 0 }; _ = %s(a, a[0]); return 1 }", t, fn)
	}, isSlice},
	{"Max", func(fn, t string) string {
		return fmt.Sprintf("(a %s) int { if len(a) == 0 { return 0 }; _ = %s(a, a[0]); return 1 }", t, fn)
	}, isSlice},
}

func randomPkg(r *rand.Rand, name string) string {
	var sb strings.Builder
	sb.WriteString("package " + name + "\n\n")
	for _, d := range namedPool {
		fmt.Fprintf(&sb, "type %s %s\n\n", d.name, d.def)
	}
	// Two named map types over one underlying type, both handed to a plugin that asks for their keys, make
	// goderive loop forever (reported by C09). Most random packages therefore use only one of M1 / M2.
	banned := ""
	if r.Intn(4) != 0 {
		banned = []string{"M1", "M2"}[r.Intn(2)]
		stats["packages_with_one_named_map_only"]++
	}
	usable := func(t string) bool { return banned == "" || !strings.Contains(t, banned) }
	nstruct := 2 + r.Intn(3)
	var targets []string // type expressions derive calls are made for
	for i := 0; i < nstruct; i++ {
		fmt.Fprintf(&sb, "type S%d struct {\n", i)
		nf := 3 + r.Intn(6)
		for j := 0; j < nf; j++ {
			var t string
			switch r.Intn(4) {
			case 0:
				t = namedPool[r.Intn(len(namedPool))].name
			case 1:
				if i > 0 {
					t = fmt.Sprintf("*S%d", r.Intn(i))
					break
				}
				fallthrough
			default:
				t = unnamedPool[r.Intn(len(unnamedPool))]
			}
			if !usable(t) {
				t = "map[string]int"
			}
			fmt.Fprintf(&sb, "\tF%d %s\n", j, t)
		}
		sb.WriteString("}\n\n")
		targets = append(targets, fmt.Sprintf("*S%d", i))
	}
	// explicit calls on named / unnamed members of one assignability class, in random order
	extra := []string{"A", "B", "C", "[]int", "M1", "M2", "map[string]int", "SA", "SB", "[]A", "[]string", "[]St", "[]I", "[]J", "R1", "R2", "*R1", "[]R1", "[]byte", "[]float64", "[]F"}
	r.Shuffle(len(extra), func(i, j int) { extra[i], extra[j] = extra[j], extra[i] })
	targets = append(targets, extra[:4+r.Intn(6)]...)
	r.Shuffle(len(targets), func(i, j int) { targets[i], targets[j] = targets[j], targets[i] })
	n := 0
	under := map[string]string{}
	for _, d := range namedPool {
		under[d.name] = d.def
	}
	used := map[string][]string{}
	conflict := func(t, u string) bool {
		return t == u || under[t] == u || under[u] == t
	}
	for ti, t := range targets {
		if !usable(t) {
			continue
		}
		// several plugins per target
		perm := r.Perm(len(typed))
		k := 2 + r.Intn(5)
		for _, pi := range perm {
			if k == 0 {
				break
			}
			p := typed[pi]
			if !p.ok(t) {
				continue
			}
			if strings.HasPrefix(t, "*S") && (p.name == "Sort" || p.name == "Keys") {
				continue
			}
			clash := false
			for _, u := range used[p.name] {
				if conflict(t, u) {
					clash = true
				}
			}
			if clash {
				stats["skipped_assignable_duplicate"]++
				continue
			}
			used[p.name] = append(used[p.name], t)
			k--
			fn := fmt.Sprintf("derive%sT%d", p.name, ti)
			fmt.Fprintf(&sb, "func W%d%s\n\n", n, p.sig(fn, t))
			n++
			stats["calls_"+p.name]++
		}
	}
	stats["random_calls"] += n
	return sb.String()
}

func genHistories() {
	h := func(pkg, kind string, now, before map[string]string) {
		for fn, src := range now {
			write(filepath.Join(pkg, fn), strings.ReplaceAll(src, "PKG", pkg))
		}
		hist := map[string]string{}
		for fn, src := range before {
			hist[fn] = strings.ReplaceAll(src, "PKG", pkg)
		}
		for fn := range now {
			if _, ok := before[fn]; !ok {
				hist[fn] = "" // new file: absent in the earlier version
			}
		}
		cases = append(cases, caseT{Pkg: pkg, Kind: kind, Expect: "ok", History: hist})
		stats["kind_"+kind]++
	}
	// an argument that has no type yet must not take the parameter type of the function an earlier run left behind
	h("hflow1", "history", map[string]string{
		"names.go": "package PKG\n\ntype StrSet map[string]struct{}\n\nfunc Distinct(names []string) []string {\n\treturn deriveKeys(deriveSet(names))\n}\n"},
		map[string]string{"names.go": "package PKG\n\ntype StrSet map[string]struct{}\n\nfunc Distinct(s StrSet) []string {\n\treturn deriveKeys(s)\n}\n"})
	h("hflow2", "history", map[string]string{
		"m.go": "package PKG\n\ntype Reg map[string]int\n\ntype Ints []int\n\nfunc conv(s string) int { return len(s) }\n\nfunc Lens(r Reg) []int {\n\treturn deriveSort(deriveFmap(conv, deriveKeys(r)))\n}\n\nfunc Same(r Reg, want Ints) bool {\n\treturn deriveEqual(deriveSort(deriveFmap(conv, deriveKeys(r))), want)\n}\n"},
		map[string]string{"m.go": "package PKG\n\ntype Reg map[string]int\n\ntype Ints []int\n\nfunc Lens(xs Ints) Ints {\n\treturn deriveSort(xs)\n}\n\nfunc Same(a, want Ints) bool {\n\treturn deriveEqual(a, want)\n}\n"})
	// a function that used to be generated is now written by hand, in files that sort before / after derived.gen.go,
	// in-package test files included; the old derived.gen.go still declares it
	point := "package PKG\n\ntype Point struct {\n\tX, Y  int\n\tLabel string\n}\n\nfunc Hash(p *Point) uint64 { return deriveHash(p) }\n"
	pointV1 := point + "\nfunc Same(a, b *Point) bool { return deriveEqualPoint(a, b) }\n"
	hand := "\n// deriveEqualPoint used to be generated.\nfunc deriveEqualPoint(this, that *Point) bool { return this.X == that.X && this.Y == that.Y }\n"
	testV1 := "package PKG\n\nimport \"testing\"\n\nfunc TestSame(t *testing.T) {\n\tif !deriveEqualPoint(&Point{X: 1}, &Point{X: 1}) {\n\t\tt.Fatal()\n\t}\n}\n"
	for i, fn := range []string{"aaa_test.go", "approx_test.go", "x_test.go", "zzz_test.go", "aaa.go", "zzz.go"} {
		pkg := fmt.Sprintf("hhand%d", i)
		now := map[string]string{"point.go": point + "\nfunc Same(a, b *Point) bool { return deriveEqualPoint(a, b) }\n"}
		before := map[string]string{"point.go": pointV1}
		if strings.HasSuffix(fn, "_test.go") {
			now[fn] = strings.Replace(testV1, "func TestSame", strings.TrimPrefix(hand, "\n")+"\nfunc TestSame", 1)
			now["point.go"] = point
			before[fn] = testV1
			before["point.go"] = point
		} else {
			now[fn] = "package PKG\n" + hand
		}
		h(pkg, "history", now, before)
	}
	// the current version has NO derive call any more: the old derived.gen.go must go
	settings := "package PKG\n\ntype Settings struct {\n\tName string\n\tTags []string\n}\n\nfunc Same(a, b *Settings) bool { return deriveEqual(a, b) }\n\nfunc H(a *Settings) uint64 { return deriveHash(a) }\n"
	h("hgone1", "history", map[string]string{"s.go": "package PKG\n\n// Settings and the calls on it are gone.\nfunc Version() int { return 2 }\n"}, map[string]string{"s.go": settings})
	h("hgone2", "history", map[string]string{"s.go": "package PKG\n\ntype Settings struct {\n\tName string\n}\n\nfunc Same(a, b *Settings) bool { return *a == *b }\n"}, map[string]string{"s.go": settings})
	h("hgone3", "history", map[string]string{"s.go": "package PKG\n\nfunc Version() int { return 2 }\n", "t_test.go": "package PKG\n\nimport \"testing\"\n\nfunc TestV(t *testing.T) {\n\tif Version() != 2 {\n\t\tt.Fatal()\n\t}\n}\n"},
		map[string]string{"s.go": settings, "t_test.go": "package PKG\n\nimport \"testing\"\n\nfunc TestV(t *testing.T) {\n\tif !deriveEqual(&Settings{}, &Settings{}) {\n\t\tt.Fatal()\n\t}\n}\n"})
	// a hand-written function that is never called bears the name a HELPER had in the old derived.gen.go; its file sorts
	// after / before derived.gen.go
	withList := "package PKG\n\ntype S struct {\n\tA int\n\tL []string\n}\n\nfunc Same(a, b *S) bool { return deriveEqual(a, b) }\n"
	for i, fn := range []string{"zzz.go", "aaa.go", "zzz_test.go"} {
		h(fmt.Sprintf("hhelper%d", i), "history", map[string]string{"s.go": withList, fn: "package PKG\n\n// deriveEqual_ is the user's own now and is not called anywhere.\nfunc deriveEqual_(x int) int { return x }\n"},
			map[string]string{"s.go": withList})
	}
	// a hand-written function with a plugin prefix that is never called, next to an old derived.gen.go that declares it too
	h("hhandu", "history", map[string]string{"p.go": point + hand + "\nfunc Same(a, b *Point) bool { return a.X == b.X }\n"}, map[string]string{"p.go": pointV1})
}

func main() {
	flag.Parse()
	if *out == "" {
		must(fmt.Errorf("-out required"))
	}
	r := rand.New(rand.NewSource(*seed))
	write("go.mod", "module ambig\n\ngo 1.24\n")
	write("x/b/b.go", xb)
	write("y/b/b.go", yb)
	add := func(pkg, kind, expect, src string) {
		write(filepath.Join(pkg, pkg+".go"), src)
		cases = append(cases, caseT{Pkg: pkg, Kind: kind, Expect: expect})
		stats["kind_"+kind]++
	}
	add("amb1", "assignable-named-unnamed", "ok", amb1)
	add("amb2", "assignable-many-helpers", "ok", amb2)
	add("twoimp", "same-name-imports", "ok", twoimp)
	add("pass2", "second-pass", "ok", pass2)
	add("pass3", "second-pass-after-first-round-calls", "ok", pass3)
	add("user", "imports-generated-package", "ok", user)
	add("dep", "dependency-with-test-only-methods", "ok", dep)
	write("dep/export_test.go", depTest)
	add("usesdep", "uses-test-augmented-dependency", "ok", usesdep)
	add("xbase", "flow-base", "ok", xbase)
	add("xtop", "flow-top", "any", xtop)
	add("xonly", "flow-top", "any", xonly)
	add("xmid", "flow-mid", "any", xmid)
	add("xabove", "flow-top", "any", xabove)
	add("xfar", "flow-top", "any", xfar)
	add("hbase", "history-base", "ok", hbase)
	add("htop", "history-top", "ok", htop)
	add("testonly", "calls-only-in-test-file-and-second-pass", "ok", testonly)
	write("testonly/testonly_test.go", testonlyTest)
	add("testonly2", "calls-only-in-test-file-and-second-pass", "ok", strings.Replace(testonly, "package testonly", "package testonly2", 1))
	write("testonly2/testonly2_test.go", testonly2Test)
	add("minmax", "named-ordered-element-untyped-default", "ok", minmax)
	add("chain", "nested-derive-calls-five-to-seven-deep", "ok", chain)
	add("auto1", "autoname-group", "any", auto1)
	add("auto2", "autoname-group", "ok", auto2)
	add("auto3", "autoname-group", "any", auto3)
	add("bad", "rejected", "fail", bad)
	n := 6
	if *thorough {
		n = 24
	}
	for i := 0; i < n; i++ {
		name := fmt.Sprintf("r%d", i)
		src := randomPkg(r, name)
		if i%2 == 1 {
			// derive calls spread over several files (file names sorting before and after the main file): the
			// order in which the loader happens to parse them must not show in the output
			parts := strings.Split(src, "\nfunc W")
			files := []string{parts[0] + "\n", "package " + name + "\n", "package " + name + "\n", "package " + name + "\n"}
			for k, w := range parts[1:] {
				files[k%4] += "\nfunc W" + w
			}
			write(filepath.Join(name, "a_"+name+".go"), files[1])
			write(filepath.Join(name, "z_"+name+".go"), files[2])
			write(filepath.Join(name, "m_"+name+".go"), files[3])
			src = files[0]
			stats["multi_file_packages"]++
		}
		add(name, "random-mix", "any", src)
	}
	genHistories()
	sort.Slice(cases, func(i, j int) bool { return cases[i].Pkg < cases[j].Pkg })
	b, _ := json.MarshalIndent(cases, "", " ")
	write("cases.json", string(b))
	stats["packages"] = len(cases)
	b, _ = json.MarshalIndent(stats, "", " ")
	write("stats.json", string(b))
}
