// gencorpus writes a corpus module (types, derive calls, reflection driver) and the op lines for
// the Lean driver and the compiled corpus program.
package main

import (
	"flag"
	"fmt"
	"math/rand"
	"os"
	"path/filepath"
	"sort"
	"strings"

	"verifharness/gen"
	"verifharness/ty"
)

var (
	out      = flag.String("out", "", "output directory")
	seed     = flag.Int64("seed", 1, "PRNG seed")
	thorough = flag.Bool("thorough", false, "thorough tier")
	harness  = flag.String("harness", "/verif/harness", "path of the verifharness module")
	plugins  = flag.String("plugins", "equal", "comma separated plugin list")
)

func must(err error) {
	if err != nil {
		fmt.Fprintln(os.Stderr, err)
		os.Exit(2)
	}
}

func write(path, s string) {
	must(os.MkdirAll(filepath.Dir(path), 0o755))
	must(os.WriteFile(path, []byte(s), 0o644))
}

func declSrc(env *ty.Env, d *ty.Decl, from string) string {
	return fmt.Sprintf("type %s %s\n", d.Name, d.Under.Go(env, from))
}

type opw struct {
	f  *os.File
	id int
	n  map[string]int
}

func (o *opw) op(name string, tyname string, args ...string) {
	o.id++
	o.n[name]++
	fmt.Fprintf(o.f, "op %d %s %s %s\n", o.id, name, tyname, strings.Join(args, " "))
}

func main() {
	flag.Parse()
	rng := rand.New(rand.NewSource(*seed))
	n2, extra, cap := 40, 20, 10
	if *thorough {
		n2, extra, cap = 0, 150, 16
	}
	c := gen.NewCorpus(rng, *thorough, n2, extra)
	env := c.Env
	want := map[string]bool{}
	for _, p := range strings.Split(*plugins, ",") {
		want[p] = true
	}

	// ---- ext package
	var ext strings.Builder
	ext.WriteString("// Package ext holds the imported declarations of the corpus.\npackage ext\n\n")
	for _, d := range env.Decls {
		if d.Pkg == "ext" {
			ext.WriteString(declSrc(env, d, "ext"))
		}
	}
	write(filepath.Join(*out, "ext", "ext.go"), ext.String())

	// ---- package p: declarations; packages q0, q1, …: derive calls (a package cannot hold derive
	// calls for two mutually assignable argument types without -dedup, so types are spread first-fit)
	var p, m strings.Builder
	p.WriteString("package p\n\nimport \"corpus/ext\"\n\nvar _ ext.XN\n\n")
	for _, d := range env.Decls {
		if d.Pkg == "" {
			p.WriteString(declSrc(env, d, ""))
		}
	}
	var qs []*strings.Builder
	var qtypes [][]*ty.Ty
	pkgOf := func(t *ty.Ty) int {
		for qi := range qs {
			clash := false
			for _, o := range qtypes[qi] {
				if gen.Assignable(env, t, o) || gen.Assignable(env, o, t) {
					clash = true
					break
				}
			}
			if !clash {
				qtypes[qi] = append(qtypes[qi], t)
				return qi
			}
		}
		sb := &strings.Builder{}
		fmt.Fprintf(sb, "package q%d\n\nimport (\n\t\"corpus/ext\"\n\t\"corpus/p\"\n)\n\nvar _ ext.XN\nvar _ p.NI\n", len(qs))
		qs = append(qs, sb)
		qtypes = append(qtypes, []*ty.Ty{t})
		return len(qs) - 1
	}

	var prelude strings.Builder
	for _, d := range env.Decls {
		flags := ""
		if d.Pkg != "" {
			flags += "e"
		}
		if d.Priv {
			flags += "p"
		}
		if flags == "" {
			flags = "-"
		}
		fmt.Fprintf(&prelude, "decl %s %s\n", flags, d.Under.Wire())
	}

	opsf, err := os.Create(filepath.Join(*out, "ops.txt"))
	must(err)
	ow := &opw{f: opsf, n: map[string]int{}}
	vg := gen.NewVGen(env, rng, cap)
	stats := map[string]int{}

	for i, t := range c.Types {
		tn := fmt.Sprintf("T%d", i)
		fmt.Fprintf(&prelude, "ty %s %s\n", tn, t.Wire())
		gm := t.Go(env, "main")
		gp := gm
		qi := pkgOf(t)
		q := qs[qi]
		qn := fmt.Sprintf("q%d", qi)
		fmt.Fprintf(&m, "\tt%d := reflect.TypeOf((*%s)(nil)).Elem()\n\t_ = t%d\n", i, gm, i)
		stats["head:"+kindName(env.Under(t).K)]++

		if want["equal"] && gen.SupportedEqual(env, t) {
			fmt.Fprintf(q, "\nfunc Equal_%d(a, b %s) bool { return deriveEqual_%d(a, b) }\n", i, gp, i)
			fmt.Fprintf(q, "func EqualC_%d(a, b %s) bool { return deriveEqualC_%d(a)(b) }\n", i, gp, i)
			variants := []string{"", "C"}
			asField := gen.SupportedEqualField(env, t)
			if asField {
				variants = append(variants, "F")
				fmt.Fprintf(q, "type FW_%d struct{ F %s }\n", i, gp)
				fmt.Fprintf(q, "func EqualF_%d(a, b %s) bool { return deriveEqualF_%d(&FW_%d{a}, &FW_%d{b}) }\n", i, gp, i, i, i)
			}
			for _, v := range variants {
				opn := map[string]string{"": "equal", "C": "equalc", "F": "equalf"}[v]
				fmt.Fprintf(&m, "\trt.Reg(%q, %q, func(c *rt.Ctx, a []*rt.SExp) string {\n\t\tx := c.Build(t%d, a[0]).Interface().(%s)\n\t\ty := c.Build(t%d, a[1]).Interface().(%s)\n\t\treturn rt.Bool(%s.Equal%s_%d(x, y))\n\t})\n", opn, tn, i, gm, i, gm, qn, v, i)
			}
			pool := vg.Pool(t)
			stats["pool"] += len(pool)
			for ai, a := range pool {
				for bi, b := range pool {
					x, y := vg.Inst(a), vg.Inst(b)
					ow.op("equal", tn, x.Wire(), y.Wire())
					if asField && (ai+bi)%3 == 0 {
						ow.op("equalf", tn, x.Wire(), y.Wire())
					}
					if (ai+bi)%4 == 0 {
						ow.op("equalc", tn, x.Wire(), y.Wire())
					}
				}
				x := vg.Inst(a)
				ow.op("equal", tn, x.Wire(), x.Wire()) // aliased: the very same objects on both sides
				for _, mu := range vg.Mutations(t, x, 8) {
					mu = vg.Inst(mu) // fresh objects: one address never denotes two contents
					ow.op("equal", tn, x.Wire(), mu.Wire())
					ow.op("equal", tn, mu.Wire(), x.Wire())
					if asField {
						ow.op("equalf", tn, x.Wire(), mu.Wire())
					}
				}
			}
		}
	}
	m.WriteString("}\n")
	must(opsf.Close())
	write(filepath.Join(*out, "p", "p.go"), p.String())
	var mh strings.Builder
	mh.WriteString("package main\n\nimport (\n\t\"reflect\"\n\n\t\"corpus/ext\"\n\t\"corpus/p\"\n")
	for qi, q := range qs {
		write(filepath.Join(*out, fmt.Sprintf("q%d", qi), "q.go"), q.String())
		fmt.Fprintf(&mh, "\t\"corpus/q%d\"\n", qi)
	}
	mh.WriteString("\t\"verifharness/rt\"\n)\n\nvar _ ext.XN\nvar _ p.NI\n\nfunc main() { rt.Main() }\n\nfunc init() {\n")
	write(filepath.Join(*out, "main.go"), mh.String()+m.String())
	stats["pkgs"] = len(qs)
	write(filepath.Join(*out, "prelude.txt"), prelude.String())
	write(filepath.Join(*out, "go.mod"), fmt.Sprintf("module corpus\n\ngo 1.24\n\nrequire verifharness v0.0.0\n\nreplace verifharness => %s\n", *harness))

	var keys []string
	for k := range stats {
		keys = append(keys, k)
	}
	for k, v := range ow.n {
		stats["ops:"+k] = v
		keys = append(keys, "ops:"+k)
	}
	sort.Strings(keys)
	var sb strings.Builder
	fmt.Fprintf(&sb, "{\"types\": %d", len(c.Types))
	for _, k := range keys {
		fmt.Fprintf(&sb, ", %q: %d", k, stats[k])
	}
	sb.WriteString("}\n")
	write(filepath.Join(*out, "stats.json"), sb.String())
}

func kindName(k ty.Kind) string {
	return [...]string{"basic", "named", "ptr", "slice", "array", "map", "struct", "chan", "func", "iface"}[k]
}
