// gencorpus writes a corpus module (types, derive calls, reflection driver) and the op lines for
// the Lean driver and the compiled corpus program.
package main

import (
	"flag"
	"fmt"
	"go/token"
	"math/rand"
	"os"
	"path/filepath"
	"sort"
	"strings"

	"verifharness/gen"
	"verifharness/ty"
)

var (
	out      = flag.String("out", "", "output directory")
	seed     = flag.Int64("seed", 1, "PRNG seed")
	thorough = flag.Bool("thorough", false, "thorough tier")
	harness  = flag.String("harness", "/verif/harness", "path of the verifharness module")
	plugins  = flag.String("plugins", "equal", "comma separated plugin list")
)

func must(err error) {
	if err != nil {
		fmt.Fprintln(os.Stderr, err)
		os.Exit(2)
	}
}

func write(path, s string) {
	must(os.MkdirAll(filepath.Dir(path), 0o755))
	must(os.WriteFile(path, []byte(s), 0o644))
}

type opw struct {
	f  *os.File
	id int
	n  map[string]int
}

func (o *opw) op(name string, tyname string, args ...string) {
	o.id++
	o.n[name]++
	fmt.Fprintf(o.f, "op %d %s %s %s\n", o.id, name, tyname, strings.Join(args, " "))
}

// G is the generation state shared by the per-plugin emitters.
type G struct {
	env    *ty.Env
	vg     *gen.VGen
	ow     *opw
	m      *strings.Builder // body of main.init
	q      *strings.Builder // current derive-call package
	qn     string
	i      int    // type index
	tn     string // "T<i>"
	t      *ty.Ty
	gt     string // Go spelling of the type as package main sees it
	gtq    string // … as the derive package sees it (differs for the types q0 declares itself)
	stats  map[string]int
	pool   []*ty.Val
	nanSeq uint64 // payload counter of the NaN leaves
	keyed  bool   // the current type is outside the Lean models (pointer-keyed maps): ops deepcopyk / clonek
}

// reg emits a registration of op `name` for the current type: `body` computes a string from x, y…
func (g *G) reg(name string, nargs int, body string) {
	fmt.Fprintf(g.m, "\trt.Reg(%q, %q, func(c *rt.Ctx, a []*rt.SExp) string {\n", name, g.tn)
	for k := 0; k < nargs; k++ {
		fmt.Fprintf(g.m, "\t\t%c := c.Build(t%d, a[%d]).Interface().(%s)\n", "xyzw"[k], g.i, k, g.gt)
	}
	fmt.Fprintf(g.m, "\t\t%s\n\t})\n", body)
}

func (g *G) pairs(f func(ai, bi int, x, y *ty.Val)) {
	for ai, a := range g.pool {
		for bi, b := range g.pool {
			f(ai, bi, g.vg.Inst(a), g.vg.Inst(b))
		}
	}
}

// shorterView returns a copy of the instantiated value v in which the first slice of two or more elements is
// replaced by a shorter view of the SAME backing array (same address, same element objects, one element fewer, one
// more of spare capacity): equal where they overlap, different in length.
func shorterView(v *ty.Val) (*ty.Val, bool) {
	if v.K == ty.VSlice && len(v.Elems) >= 2 {
		c := *v
		c.Elems = v.Elems[:len(v.Elems)-1]
		c.Spare = v.Spare + 1
		return &c, true
	}
	for i, e := range v.Elems {
		if v.K == ty.VMap && i%2 == 0 {
			continue
		}
		if ne, ok := shorterView(e); ok {
			c := *v
			c.Elems = append([]*ty.Val(nil), v.Elems...)
			c.Elems[i] = ne
			if v.K == ty.VPtr || v.K == ty.VMap || v.K == ty.VSlice {
				// the container holds another element now: it is another object
				return nil, false
			}
			return &c, true
		}
	}
	return nil, false
}

func (g *G) withViews(f func(x, view *ty.Val)) {
	for _, a := range g.pool {
		x := g.vg.Inst(a)
		if w, ok := shorterView(x); ok {
			f(x, w)
		}
	}
}

func (g *G) withMutations(f func(x, mu *ty.Val)) {
	if g.keyed {
		return // a mutated key pointee may coincide with another key's: the canonical form sorts entries by the printed key
	}
	for _, a := range g.pool {
		x := g.vg.Inst(a)
		for _, mu := range g.vg.Mutations(g.t, x, 8) {
			f(x, g.vg.Inst(mu)) // fresh objects: one address never denotes two contents
		}
	}
}

func (g *G) emitEqual() {
	i, gt, q := g.i, g.gtq, g.q
	fmt.Fprintf(q, "\nfunc Equal_%d(a, b %s) bool { return deriveEqual_%d(a, b) }\n", i, gt, i)
	fmt.Fprintf(q, "func EqualC_%d(a, b %s) bool { return deriveEqualC_%d(a)(b) }\n", i, gt, i)
	g.reg("equal", 2, fmt.Sprintf("return rt.Bool(%s.Equal_%d(x, y))", g.qn, i))
	g.reg("equalc", 2, fmt.Sprintf("return rt.Bool(%s.EqualC_%d(x, y))", g.qn, i))
	asField := gen.SupportedEqualField(g.env, g.t)
	if asField {
		fmt.Fprintf(q, "type FWE_%d struct{ F %s }\n", i, gt)
		fmt.Fprintf(q, "func EqualF_%d(a, b %s) bool { return deriveEqualF_%d(&FWE_%d{a}, &FWE_%d{b}) }\n", i, gt, i, i, i)
		g.reg("equalf", 2, fmt.Sprintf("return rt.Bool(%s.EqualF_%d(x, y))", g.qn, i))
	}
	g.pairs(func(ai, bi int, x, y *ty.Val) {
		g.ow.op("equal", g.tn, x.Wire(), y.Wire())
		if asField && (ai+bi)%3 == 0 {
			g.ow.op("equalf", g.tn, x.Wire(), y.Wire())
		}
		if (ai+bi)%4 == 0 {
			g.ow.op("equalc", g.tn, x.Wire(), y.Wire())
		}
	})
	g.withViews(func(x, w *ty.Val) {
		g.ow.op("equal", g.tn, x.Wire(), w.Wire())
		g.ow.op("equalc", g.tn, x.Wire(), w.Wire())
		if asField {
			g.ow.op("equalf", g.tn, x.Wire(), w.Wire())
		}
		g.stats["views:equal"]++
	})
	for _, a := range g.pool {
		x := g.vg.Inst(a)
		g.ow.op("equal", g.tn, x.Wire(), x.Wire()) // aliased: the very same objects on both sides
	}
	g.withMutations(func(x, mu *ty.Val) {
		g.ow.op("equal", g.tn, x.Wire(), mu.Wire())
		g.ow.op("equal", g.tn, mu.Wire(), x.Wire())
		g.ow.op("equalc", g.tn, x.Wire(), mu.Wire()) // the curried form on every one-leaf difference as well
		if asField {
			g.ow.op("equalf", g.tn, x.Wire(), mu.Wire())
		}
	})
}

func (g *G) emitCompare(withEqual bool) {
	// cmpeqv: the same question on a type that reaches a value-parameter Compare method (its own witness class)
	ceq := "cmpeq"
	if !gen.MethodsAgree(g.env, g.t, "Cv", "\x00") {
		ceq = "cmpeqv"
	}
	i, gt, q := g.i, g.gtq, g.q
	fmt.Fprintf(q, "\nfunc Compare_%d(a, b %s) int { return deriveCompare_%d(a, b) }\n", i, gt, i)
	fmt.Fprintf(q, "func CompareC_%d(a, b %s) int { return deriveCompareC_%d(a)(b) }\n", i, gt, i)
	fmt.Fprintf(q, "type FWC_%d struct{ F %s }\n", i, gt)
	// a one-field wrapper: the result of comparing the wrappers is the field expression's value
	fmt.Fprintf(q, "func CompareF_%d(a, b %s) int { return deriveCompareF_%d(&FWC_%d{a}, &FWC_%d{b}) }\n", i, gt, i, i, i)
	g.reg("compare", 2, fmt.Sprintf("return rt.Int(%s.Compare_%d(x, y))", g.qn, i))
	g.reg("comparec", 2, fmt.Sprintf("return rt.Int(%s.CompareC_%d(x, y))", g.qn, i))
	g.reg("comparef", 2, fmt.Sprintf("return rt.Int(%s.CompareF_%d(x, y))", g.qn, i))
	g.reg("cmpcb", 2, fmt.Sprintf("return rt.Bool(%s.CompareC_%d(x, y) == %s.Compare_%d(x, y))", g.qn, i, g.qn, i))
	if withEqual {
		g.reg(ceq, 2, fmt.Sprintf("return rt.Bool((%s.Compare_%d(x, y) == 0) == %s.Equal_%d(x, y))", g.qn, i, g.qn, i))
	}
	g.pairs(func(ai, bi int, x, y *ty.Val) {
		g.ow.op("compare", g.tn, x.Wire(), y.Wire())
		if withEqual {
			g.ow.op(ceq, g.tn, x.Wire(), y.Wire())
		}
		if (ai+bi)%3 == 0 {
			g.ow.op("comparef", g.tn, x.Wire(), y.Wire())
		}
		if (ai+bi)%4 == 0 {
			g.ow.op("comparec", g.tn, x.Wire(), y.Wire())
			g.ow.op("cmpcb", g.tn, x.Wire(), y.Wire())
		}
	})
	for _, a := range g.pool {
		x := g.vg.Inst(a)
		g.ow.op("compare", g.tn, x.Wire(), x.Wire())
	}
	g.withViews(func(x, w *ty.Val) {
		g.ow.op("compare", g.tn, x.Wire(), w.Wire())
		g.ow.op("comparec", g.tn, x.Wire(), w.Wire())
		g.ow.op("comparef", g.tn, x.Wire(), w.Wire())
		if withEqual {
			g.ow.op(ceq, g.tn, x.Wire(), w.Wire())
		}
		g.stats["views:compare"]++
	})
	g.withMutations(func(x, mu *ty.Val) {
		g.ow.op("compare", g.tn, x.Wire(), mu.Wire())
		g.ow.op("compare", g.tn, mu.Wire(), x.Wire())
		g.ow.op("comparef", g.tn, mu.Wire(), x.Wire())
		g.ow.op("comparec", g.tn, x.Wire(), mu.Wire())
		g.ow.op("cmpcb", g.tn, x.Wire(), mu.Wire())
		if withEqual {
			g.ow.op(ceq, g.tn, x.Wire(), mu.Wire())
		}
	})
}

func (g *G) emitHash(withEqual bool) {
	i, gt, q := g.i, g.gtq, g.q
	fmt.Fprintf(q, "\nfunc Hash_%d(a %s) uint64 { return deriveHash_%d(a) }\n", i, gt, i)
	fmt.Fprintf(q, "type FWH_%d struct{ F %s }\n", i, gt)
	// hash of the one-field wrapper is 31*17 + field expression: the driver subtracts the constant
	fmt.Fprintf(q, "func HashF_%d(a %s) uint64 { return deriveHashF_%d(&FWH_%d{a}) - 31*17 }\n", i, gt, i, i)
	g.reg("hash", 1, fmt.Sprintf("s0 := rt.NewObs().Observe(reflect.ValueOf(&x).Elem())\n\t\tsp0 := rt.SpareDigest(reflect.ValueOf(&x).Elem())\n\t\th := %s.Hash_%d(x)\n\t\th2 := %s.Hash_%d(x)\n\t\tif h != h2 || s0 != rt.NewObs().Observe(reflect.ValueOf(&x).Elem()) || sp0 != rt.SpareDigest(reflect.ValueOf(&x).Elem()) {\n\t\t\treturn \"impure\"\n\t\t}\n\t\treturn rt.U64(h)", g.qn, i, g.qn, i))
	g.reg("hashf", 1, fmt.Sprintf("return rt.U64(%s.HashF_%d(x))", g.qn, i))
	if withEqual {
		g.reg("hasheq", 2, fmt.Sprintf("return rt.Bool(!%s.Equal_%d(x, y) || %s.Hash_%d(x) == %s.Hash_%d(y))", g.qn, i, g.qn, i, g.qn, i))
	}
	for _, a := range g.pool {
		x := g.vg.Inst(a)
		g.ow.op("hash", g.tn, x.Wire())
		g.ow.op("hashf", g.tn, x.Wire())
		if withEqual {
			for _, v := range g.vg.EqVariants(x) {
				g.ow.op("hasheq", g.tn, x.Wire(), v.Wire())
				g.ow.op("hash", g.tn, v.Wire())
			}
		}
	}
	if withEqual {
		g.pairs(func(ai, bi int, x, y *ty.Val) {
			if (ai+bi)%2 == 0 {
				g.ow.op("hasheq", g.tn, x.Wire(), y.Wire())
			}
		})
	}
	g.withMutations(func(x, mu *ty.Val) {
		g.ow.op("hash", g.tn, mu.Wire())
		if withEqual {
			// a one-leaf change that a user-declared Equal ignores must be ignored by the hash too
			g.ow.op("hasheq", g.tn, x.Wire(), mu.Wire())
		}
	})
}

// priors returns prior destination states for a deepcopy of src at the current type: tree-shaped,
// sharing no memory with the source.
func (g *G) priors(src *ty.Val) []*ty.Val {
	u := g.env.Under(g.t)
	var out []*ty.Val
	switch u.K {
	case ty.Ptr:
		// a non-nil pointer to each of a few pool values of the target type (zero value first)
		tp := g.vg.Pool(u.Elem)
		for k, e := range tp {
			if k >= 4 {
				break
			}
			out = append(out, g.vg.Inst(&ty.Val{K: ty.VPtr, Elems: []*ty.Val{e}}))
		}
		if len(tp) > 4 {
			out = append(out, g.vg.Inst(&ty.Val{K: ty.VPtr, Elems: []*ty.Val{tp[len(tp)-1]}}))
		}
		// every slice of the destination short, with spare capacity that holds stale elements (see rt.fillSpare): the
		// copy grows such a slice into its capacity
		if nv, changed := g.withShortSlices(u.Elem, tp[len(tp)-1]); changed {
			out = append(out, g.vg.Inst(&ty.Val{K: ty.VPtr, Elems: []*ty.Val{nv}}))
		}
		// prior contents that cannot be removed key by key: a NaN key in every float-keyed map of the destination
		if nv, changed := g.withNaNKeys(u.Elem, tp[len(tp)-1]); changed {
			out = append(out, g.vg.Inst(&ty.Val{K: ty.VPtr, Elems: []*ty.Val{nv}}))
		}
	case ty.Slice:
		n := len(src.Elems)
		ep := g.vg.Pool(u.Elem)
		for k := 0; k < 3; k++ {
			el := make([]*ty.Val, n)
			for i := range el {
				el[i] = ep[(i+k*2)%len(ep)]
			}
			out = append(out, g.vg.Inst(&ty.Val{K: ty.VSlice, Spare: k, Elems: el}))
		}
	case ty.Map:
		out = append(out, g.vg.Inst(&ty.Val{K: ty.VMap}))
	}
	return out
}

// withShortSlices returns a copy of v (a value of type t) in which every slice holds one element and has a spare
// capacity of three (nil slices too).
func (g *G) withShortSlices(t *ty.Ty, v *ty.Val) (*ty.Val, bool) { return g.reslice(t, v, 1, 3, 0) }

// withLongSlices returns a copy of v in which every slice holds three elements (the first three of the element pool).
func (g *G) withLongSlices(t *ty.Ty, v *ty.Val) (*ty.Val, bool) { return g.reslice(t, v, 3, 0, 0) }

// off rotates the choice of elements, so that the elements of one slice differ from each other
func (g *G) reslice(t *ty.Ty, v *ty.Val, n, spare, off int) (*ty.Val, bool) {
	u := g.env.Under(t)
	c := *v
	c.Elems = append([]*ty.Val(nil), v.Elems...)
	changed := false
	sub := func(i int, et *ty.Ty) {
		if nv, ch := g.reslice(et, c.Elems[i], n, spare, off); ch {
			c.Elems[i], changed = nv, true
		}
	}
	switch u.K {
	case ty.Ptr:
		if v.K == ty.VPtr {
			sub(0, u.Elem)
		}
	case ty.Array:
		if v.K == ty.VArr {
			for i := range c.Elems {
				sub(i, u.Elem)
			}
		}
	case ty.Struct:
		if v.K == ty.VStruct {
			for i, f := range u.Fields {
				sub(i, f.T)
			}
		}
	case ty.Map:
		if v.K == ty.VMap {
			for i := 1; i < len(c.Elems); i += 2 {
				sub(i, u.Elem)
			}
		}
	case ty.Slice:
		ep := g.vg.Pool(u.Elem)
		es := make([]*ty.Val, n)
		for i := range es {
			e := ep[(len(ep)-1+i+off)%len(ep)]
			if ne, ch := g.reslice(u.Elem, e, n, spare, off+i+1); ch {
				e = ne
			}
			es[i] = e
		}
		c = ty.Val{K: ty.VSlice, Spare: spare, Elems: es}
		changed = true
	}
	return &c, changed
}

// withNaNKeys returns a copy of v (a value of type t) in which every map keyed by a float type holds one more entry,
// under a NaN key (nil maps of such a type become one-entry maps).
func (g *G) withNaNKeys(t *ty.Ty, v *ty.Val) (*ty.Val, bool) { return g.withNaNKeysN(t, v, 1, 1) }

// withNaNKeysN adds n entries under NaN keys of the payloads base, base+1, … (quiet NaNs; different bit patterns, so
// that the canonical form of a map, which is sorted by the bits of the keys, stays unambiguous) to every map keyed by
// a float or complex type; the values alternate between the end and the start of the element type's pool.
func (g *G) withNaNKeysN(t *ty.Ty, v *ty.Val, n int, base uint64) (*ty.Val, bool) {
	u := g.env.Under(t)
	c := *v
	c.Elems = append([]*ty.Val(nil), v.Elems...)
	changed := false
	sub := func(i int, et *ty.Ty) {
		if nv, ch := g.withNaNKeysN(et, c.Elems[i], n, base); ch {
			c.Elems[i], changed = nv, true
		}
	}
	switch u.K {
	case ty.Ptr:
		if v.K == ty.VPtr {
			sub(0, u.Elem)
		}
	case ty.Slice, ty.Array:
		if v.K == ty.VSlice || v.K == ty.VArr {
			for i := range c.Elems {
				sub(i, u.Elem)
			}
		}
	case ty.Struct:
		if v.K == ty.VStruct {
			for i, f := range u.Fields {
				sub(i, f.T)
			}
		}
	case ty.Map:
		if v.K == ty.VMap {
			for i := 1; i < len(c.Elems); i += 2 {
				sub(i, u.Elem)
			}
		}
		if ku := g.env.Under(u.Key); ku.K == ty.Basic && (ku.B == "float64" || ku.B == "float32" || ku.B == "complex128" || ku.B == "complex64") {
			w, bits := 64, uint64(0x7ff8000000000000)
			if ku.B == "float32" || ku.B == "complex64" {
				w, bits = 32, 0x7fc00000
			}
			if v.K != ty.VMap {
				c = ty.Val{K: ty.VMap}
			}
			// the values: the LAST pool value of the element type first (a non-nil pointer, a non-empty slice or map: a
			// copy that is allocated under the key and filled through a second look-up loses exactly these), then the
			// first one (nil for pointers, slices and maps), then the last but one
			ep := g.vg.Pool(u.Elem)
			for j := 0; j < n; j++ {
				val := ep[len(ep)-1-(j/2)%len(ep)]
				if j%2 == 1 {
					val = ep[(j/2)%len(ep)]
				}
				key := &ty.Val{K: ty.VFlt, W: w, Bits: bits + base + uint64(j)}
				if strings.HasPrefix(ku.B, "complex") {
					key = &ty.Val{K: ty.VCplx, W: w, Bits: bits + base + uint64(j), Bits2: 0} // NaN real part, +0 imaginary part
				}
				c.Elems = append(c.Elems, key, val)
			}
			changed = true
		}
	}
	return &c, changed
}

// withNaNLeaves returns a copy of v (a value of type t) in which every float leaf that is not part of a map key is a
// NaN (complex leaves: the imaginary part), each with a payload of its own, so that a copy that mixes two of them up,
// or that canonicalises NaNs, has different bits. Only the copy ops use these values: Equal, Compare and Hash of
// NaN are outside C02–C04.
func (g *G) withNaNLeaves(t *ty.Ty, v *ty.Val, next *uint64) (*ty.Val, bool) {
	u := g.env.Under(t)
	c := *v
	c.Elems = append([]*ty.Val(nil), v.Elems...)
	changed := false
	sub := func(i int, et *ty.Ty) {
		if nv, ch := g.withNaNLeaves(et, c.Elems[i], next); ch {
			c.Elems[i], changed = nv, true
		}
	}
	switch u.K {
	case ty.Basic:
		quiet := map[int]uint64{32: 0x7fc00000, 64: 0x7ff8000000000000}
		switch v.K {
		case ty.VFlt:
			*next++
			c.Bits, changed = quiet[v.W]+*next%1000, true
		case ty.VCplx:
			*next++
			c.Bits2, changed = quiet[v.W]+*next%1000, true
		}
	case ty.Ptr:
		if v.K == ty.VPtr {
			sub(0, u.Elem)
		}
	case ty.Slice, ty.Array:
		if v.K == ty.VSlice || v.K == ty.VArr {
			for i := range c.Elems {
				sub(i, u.Elem)
			}
		}
	case ty.Struct:
		if v.K == ty.VStruct {
			for i, f := range u.Fields {
				sub(i, f.T)
			}
		}
	case ty.Map:
		if v.K == ty.VMap {
			for i := 1; i < len(c.Elems); i += 2 {
				sub(i, u.Elem)
			}
		}
	}
	return &c, changed
}

// sharesKey reports whether two map templates have a key in common (under Go's ==).
func sharesKey(a, b *ty.Val) bool {
	for i := 0; i < len(a.Elems); i += 2 {
		for j := 0; j < len(b.Elems); j += 2 {
			if gen.GoEq(a.Elems[i], b.Elems[j]) {
				return true
			}
		}
	}
	return false
}

// cop / creg: the copy ops of a type outside the Lean models (g.keyed: maps with pointer keys) go by the names
// deepcopyk / clonek, which the driver answers with `unmodelled` and the check judges on the Go side alone; calls outside
// the property's precondition (deepcopyx) are correspondence-only and are left out there.
func (g *G) cop(name, tyname string, args ...string) {
	if g.keyed {
		if name == "deepcopyx" {
			return
		}
		name += "k"
	}
	g.ow.op(name, tyname, args...)
}

func (g *G) creg(name string, nargs int, body string) {
	if g.keyed {
		if name == "deepcopyx" {
			return
		}
		name += "k"
	}
	g.reg(name, nargs, body)
}

// withNonNilPtrs returns a copy of v (a value of type t) in which every nil pointer is a pointer to the last pool value
// of its target type; everything else (lengths, nil-ness of slices and maps, leaves) stays.
func (g *G) withNonNilPtrs(t *ty.Ty, v *ty.Val) (*ty.Val, bool) {
	u := g.env.Under(t)
	c := *v
	c.Elems = append([]*ty.Val(nil), v.Elems...)
	changed := false
	sub := func(i int, et *ty.Ty) {
		if nv, ch := g.withNonNilPtrs(et, c.Elems[i]); ch {
			c.Elems[i], changed = nv, true
		}
	}
	switch u.K {
	case ty.Ptr:
		if v.K != ty.VPtr {
			ep := g.vg.Pool(u.Elem)
			return &ty.Val{K: ty.VPtr, Elems: []*ty.Val{ep[len(ep)-1]}}, true
		}
		sub(0, u.Elem)
	case ty.Slice, ty.Array:
		if v.K == ty.VSlice || v.K == ty.VArr {
			for i := range c.Elems {
				sub(i, u.Elem)
			}
		}
	case ty.Struct:
		if v.K == ty.VStruct {
			for i, f := range u.Fields {
				sub(i, f.T)
			}
		}
	case ty.Map:
		if v.K == ty.VMap {
			for i := 1; i < len(c.Elems); i += 2 {
				sub(i, u.Elem)
			}
		}
	}
	return &c, changed
}

// withDeepPtrs returns a copy of v (a value of type t) in which every pointer whose target type is again a pointer
// (**T, *N with `type N *T`), other than the top-level value itself, is non-nil at both levels: a nil outer pointer
// becomes a pointer to a pointer to the last pool value of the innermost type, a nil inner one likewise.
func (g *G) withDeepPtrs(t *ty.Ty, v *ty.Val, top bool) (*ty.Val, bool) {
	u := g.env.Under(t)
	c := *v
	c.Elems = append([]*ty.Val(nil), v.Elems...)
	changed := false
	sub := func(i int, et *ty.Ty) {
		if nv, ch := g.withDeepPtrs(et, c.Elems[i], false); ch {
			c.Elems[i], changed = nv, true
		}
	}
	switch u.K {
	case ty.Ptr:
		if iu := g.env.Under(u.Elem); iu.K == ty.Ptr && !top {
			ip := g.vg.Pool(iu.Elem)
			inner := &ty.Val{K: ty.VPtr, Elems: []*ty.Val{ip[len(ip)-1]}}
			switch {
			case v.K != ty.VPtr:
				return &ty.Val{K: ty.VPtr, Elems: []*ty.Val{inner}}, true
			case v.Elems[0].K != ty.VPtr:
				c.Elems[0], changed = inner, true
				return &c, true
			}
		}
		if v.K == ty.VPtr {
			sub(0, u.Elem)
		}
	case ty.Slice, ty.Array:
		if v.K == ty.VSlice || v.K == ty.VArr {
			for i := range c.Elems {
				sub(i, u.Elem)
			}
		}
	case ty.Struct:
		if v.K == ty.VStruct {
			for i, f := range u.Fields {
				sub(i, f.T)
			}
		}
	case ty.Map:
		if v.K == ty.VMap {
			for i := 1; i < len(c.Elems); i += 2 {
				sub(i, u.Elem)
			}
		}
	}
	return &c, changed
}

func (g *G) emitDeepCopy() {
	i, gt, q := g.i, g.gtq, g.q
	fmt.Fprintf(q, "\nfunc DeepCopy_%d(dst, src %s) { deriveDeepCopy_%d(dst, src) }\n", i, gt, i)
	body := fmt.Sprintf(`vx, vy := reflect.ValueOf(&x).Elem(), reflect.ValueOf(&y).Elem()
		s0 := rt.NewObs().Observe(vx)
		%s.DeepCopy_%d(y, x)
		o := rt.NewObs()
		o.Observe(vx)
		o.SetSide(1)
		sd := o.Observe(vy)
		return rt.CopyAnswer(sd, reflect.DeepEqual(x, y), rt.ShapeEqual(x, y), o.Overlaps(0, 1), s0 == rt.NewObs().Observe(vx))`, g.qn, i)
	g.creg("deepcopy", 2, body)
	g.creg("deepcopyx", 2, body)
	for _, a := range g.pool {
		src := g.vg.Inst(a)
		for _, d := range g.priors(src) {
			name := "deepcopy"
			if src.K == ty.VNil {
				name = "deepcopyx" // outside the property's precondition: correspondence only
			}
			g.cop(name, g.tn, src.Wire(), d.Wire())
		}
		// a source whose float-keyed maps hold a NaN key: the entry copied under it can never be looked up again
		// (two NaN keys of different payloads, holding different values where the pool of the element type has two)
		if nv, changed := g.withNaNKeysN(g.t, a, 3, 1); changed && a.K != ty.VNil {
			nsrc := g.vg.Inst(nv)
			ps := g.priors(nsrc)
			for k, d := range ps {
				if k < 2 || k == len(ps)-1 {
					g.cop("deepcopy", g.tn, nsrc.Wire(), d.Wire())
					g.stats["c05:deepcopy-nan-key-source"]++
				}
			}
		}
		// a source whose float leaves are NaNs, each of its own payload
		if nv, changed := g.withNaNLeaves(g.t, a, &g.nanSeq); changed {
			nsrc := g.vg.Inst(nv)
			for k, d := range g.priors(nsrc) {
				if k < 2 {
					g.cop("deepcopy", g.tn, nsrc.Wire(), d.Wire())
					g.stats["c05:deepcopy-nan-leaf-source"]++
				}
			}
		}
		// a prior destination of the very shape of the source in which every pointer that is nil in the source is NON-nil
		// (slices keep their lengths, so the destination's elements are reused): what the source has as nil must come
		// out nil. (A top-level map must be empty beforehand: nothing to vary there.)
		if a.K != ty.VNil && g.env.Under(g.t).K != ty.Map {
			if pv, changed := g.withNonNilPtrs(g.t, a); changed {
				g.cop("deepcopy", g.tn, g.vg.Inst(a).Wire(), g.vg.Inst(pv).Wire())
				g.stats["c05:deepcopy-nil-over-nonnil-prior"]++
			}
		}
		// a source in which every pointer to a pointer below the top level is non-nil at BOTH levels
		if nv, changed := g.withDeepPtrs(g.t, a, true); changed {
			nsrc := g.vg.Inst(nv)
			for k, d := range g.priors(nsrc) {
				if k < 2 {
					g.cop("deepcopy", g.tn, nsrc.Wire(), d.Wire())
					g.stats["c05:deepcopy-ptrptr-source"]++
				}
			}
		}
	}
	// outside the property's precondition (correspondence only): a top-level map copied into a POPULATED map that
	// shares keys with the source: the entries under common keys are overwritten by fresh copies, foreign keys stay,
	// NaN keys of either side pile up
	if g.env.Under(g.t).K == ty.Map {
		for _, a := range g.pool {
			if a.K != ty.VMap || len(a.Elems) == 0 {
				continue
			}
			n := 0
			for _, b := range g.pool {
				if b.K != ty.VMap || len(b.Elems) == 0 || !sharesKey(a, b) {
					continue
				}
				g.cop("deepcopyx", g.tn, g.vg.Inst(a).Wire(), g.vg.Inst(b).Wire())
				g.stats["c05:deepcopyx-populated-prior"]++
				if na, changed := g.withNaNKeysN(g.t, a, 3, 1); changed && n == 0 {
					nb, _ := g.withNaNKeysN(g.t, b, 1, 7)
					g.cop("deepcopyx", g.tn, g.vg.Inst(na).Wire(), g.vg.Inst(nb).Wire())
					g.stats["c05:deepcopyx-populated-prior"]++
					g.stats["c05:deepcopyx-populated-prior-nan-keys"]++
				}
				if n++; n >= 3 {
					break
				}
			}
		}
	}
	// growing into spare capacity: every slice of the source long, every slice of the destination short with stale
	// elements beyond its length
	if u := g.env.Under(g.t); u.K == ty.Ptr {
		tp := g.vg.Pool(u.Elem)
		for k := 0; k < 2 && k < len(tp); k++ {
			base := tp[len(tp)-1-k]
			long, ch1 := g.withLongSlices(u.Elem, base)
			short, ch2 := g.withShortSlices(u.Elem, base)
			if ch1 && ch2 {
				g.cop("deepcopy", g.tn, g.vg.Inst(&ty.Val{K: ty.VPtr, Elems: []*ty.Val{long}}).Wire(), g.vg.Inst(&ty.Val{K: ty.VPtr, Elems: []*ty.Val{short}}).Wire())
				g.stats["c05:deepcopy-grow-into-spare"]++
			}
		}
	}
	g.withMutations(func(x, mu *ty.Val) {
		for _, d := range g.priors(mu) {
			if mu.K != ty.VNil {
				g.cop("deepcopy", g.tn, mu.Wire(), d.Wire())
			}
			break
		}
	})
}

func (g *G) emitClone() {
	i, gt, q := g.i, g.gtq, g.q
	fmt.Fprintf(q, "\nfunc Clone_%d(src %s) %s { return deriveClone_%d(src) }\n", i, gt, gt, i)
	body := fmt.Sprintf(`vx := reflect.ValueOf(&x).Elem()
		s0 := rt.NewObs().Observe(vx)
		y := %s.Clone_%d(x)
		vy := reflect.ValueOf(&y).Elem()
		o := rt.NewObs()
		o.Observe(vx)
		o.SetSide(1)
		sd := o.Observe(vy)
		return rt.CopyAnswer(sd, reflect.DeepEqual(x, y), rt.ShapeEqual(x, y), o.Overlaps(0, 1), s0 == rt.NewObs().Observe(vx))`, g.qn, i)
	g.creg("clone", 1, body)
	for _, a := range g.pool {
		g.cop("clone", g.tn, g.vg.Inst(a).Wire())
		if nv, changed := g.withNaNKeysN(g.t, a, 3, 1); changed {
			g.cop("clone", g.tn, g.vg.Inst(nv).Wire())
			g.stats["c05:clone-nan-key-source"]++
		}
		if nv, changed := g.withNaNLeaves(g.t, a, &g.nanSeq); changed {
			g.cop("clone", g.tn, g.vg.Inst(nv).Wire())
			g.stats["c05:clone-nan-leaf-source"]++
		}
		if nv, changed := g.withDeepPtrs(g.t, a, true); changed {
			g.cop("clone", g.tn, g.vg.Inst(nv).Wire())
			g.stats["c05:clone-ptrptr-source"]++
		}
	}
	g.withMutations(func(x, mu *ty.Val) {
		g.cop("clone", g.tn, mu.Wire())
	})
}

func main() {
	flag.Parse()
	rng := rand.New(rand.NewSource(*seed))
	n2, extra, cap := 40, 20, 10
	if *thorough {
		n2, extra, cap = 0, 150, 16
	}
	c := gen.NewCorpusEnv(gen.LibLocal(), rng, *thorough, n2, extra)
	env := c.Env
	want := map[string]bool{}
	for _, p := range strings.Split(*plugins, ",") {
		want[p] = true
	}

	// ---- ext package
	var ext strings.Builder
	ext.WriteString("// Package ext holds the imported declarations of the corpus.\npackage ext\n\n")
	for _, d := range env.Decls {
		if d.Pkg == "ext" {
			fmt.Fprintf(&ext, "type %s %s\n", d.Name, d.Under.Go(env, "ext"))
			if d.Methods != "" {
				ext.WriteString("\n" + gen.MethodSrc(d))
			}
		}
	}
	write(filepath.Join(*out, "ext", "ext.go"), ext.String())

	// ---- package p: declarations; packages q0, q1, …: derive calls (a package cannot hold derive
	// calls for two mutually assignable argument types without -dedup, so types are spread first-fit)
	var p, m strings.Builder
	p.WriteString("package p\n\nimport \"corpus/ext\"\n\nvar _ ext.XN\n\n")
	for _, d := range env.Decls {
		if d.Pkg == "" {
			if d.Src != "" {
				p.WriteString(d.Src + "\n")
			} else {
				fmt.Fprintf(&p, "type %s %s\n", d.Name, d.Under.Go(env, ""))
			}
			if d.Methods != "" {
				p.WriteString("\n" + gen.MethodSrc(d))
			}
		}
	}
	var qs []*strings.Builder
	var qtypes [][]*ty.Ty
	mentionsLocal := func(t *ty.Ty) bool {
		local := false
		gen.Walk(env, t, gen.CtxTop, map[int]bool{}, func(x *ty.Ty, ctx int) {
			if x.K == ty.Named && env.Decls[x.N].Pkg == gen.LocalPkg {
				local = true
			}
		})
		return local
	}
	newQ := func() int {
		sb := &strings.Builder{}
		fmt.Fprintf(sb, "package q%d\n\nimport (\n\t\"corpus/ext\"\n\t\"corpus/p\"\n)\n\nvar _ ext.XN\nvar _ p.NI\n", len(qs))
		qs = append(qs, sb)
		qtypes = append(qtypes, nil)
		return len(qs) - 1
	}
	// q0 declares the local types; every corpus type that mentions one of them lives there (placed first, so that
	// the other types are spread around them)
	newQ()
	for _, d := range env.Decls {
		if d.Pkg == gen.LocalPkg {
			fmt.Fprintf(qs[0], "\ntype %s %s\n", d.Name, d.Under.Go(env, gen.LocalPkg))
			if d.Methods != "" {
				qs[0].WriteString("\n" + gen.MethodSrc(d))
			}
		}
	}
	for _, t := range c.Types {
		if mentionsLocal(t) {
			qtypes[0] = append(qtypes[0], t)
		}
	}
	pkgOf := func(t *ty.Ty) int {
		if mentionsLocal(t) {
			return 0
		}
		for qi := range qs {
			clash := false
			for _, o := range qtypes[qi] {
				if gen.Assignable(env, t, o) || gen.Assignable(env, o, t) {
					clash = true
					break
				}
			}
			if !clash {
				qtypes[qi] = append(qtypes[qi], t)
				return qi
			}
		}
		qi := newQ()
		qtypes[qi] = []*ty.Ty{t}
		return qi
	}

	var prelude strings.Builder
	for _, d := range env.Decls {
		// every declaration lives in package p or ext, i.e. outside the packages q<N> that hold the derive
		// calls: all of them are "external" for the generator; a field is private (goderive's Field.Private)
		// when its first byte is not changed by lower-casing
		flags := "e"
		if d.Pkg == gen.LocalPkg {
			flags = "l" // declared in the derive package itself: not external
		}
		if d.Priv {
			flags += "p"
		}
		if d.Under.K == ty.Struct {
			flags += "m"
			for _, f := range d.Under.Fields {
				if !token.IsExported(f.Name) {
					flags += "1"
				} else {
					flags += "0"
				}
			}
		}
		if d.Methods != "" {
			flags += "." + d.Methods
		}
		fmt.Fprintf(&prelude, "decl %s %s\n", flags, d.Under.Wire())
	}

	opsf, err := os.Create(filepath.Join(*out, "ops.txt"))
	must(err)
	g := &G{env: env, vg: gen.NewVGen(env, rng, cap), ow: &opw{f: opsf, n: map[string]int{}}, m: &m, stats: map[string]int{}}

	// maps with pointer keys: for the copy plugins only (Equal / Compare / Hash on them: known finding F87), after the
	// modelled types
	all := c.Types
	if (want["deepcopy"] || want["clone"]) && !want["equal"] && !want["compare"] && !want["hash"] {
		all = append(append([]*ty.Ty(nil), all...), gen.PointerKeyed()...)
	}
	for i, t := range all {
		g.keyed = i >= len(c.Types)
		if g.keyed {
			g.stats["c05:pointer-keyed-types"]++
		}
		g.i, g.t, g.tn = i, t, fmt.Sprintf("T%d", i)
		fmt.Fprintf(&prelude, "ty %s %s\n", g.tn, t.Wire())
		g.gt = t.Go(env, "main")
		qi := pkgOf(t)
		g.q, g.qn = qs[qi], fmt.Sprintf("q%d", qi)
		g.gtq = t.Go(env, g.qn)
		fmt.Fprintf(&m, "\tt%d := reflect.TypeOf((*%s)(nil)).Elem()\n\t_ = t%d\n", i, g.gt, i)
		g.stats["head:"+kindName(env.Under(t).K)]++
		g.pool = g.vg.Pool(t)
		g.stats["pool"] += len(g.pool)

		eq := gen.SupportedEqual(env, t)
		if (want["equal"] || want["compare"] || want["hash"]) && eq {
			g.emitEqual()
		}
		// (the compare plugin would call the Compare method of NSC, which the models leave out: no compare ops there)
		if want["compare"] && gen.SupportedCompare(env, t) && gen.MethodsAgree(env, t, "Cs", "\x00") {
			g.emitCompare(eq && gen.MethodsAgree(env, t, "E", "C") && gen.MethodsAgree(env, t, "C", "E"))
		}
		if want["hash"] && gen.SupportedHash(env, t) {
			// a user Equal that is coarser than the structure obliges the user to declare Hash as well
			g.emitHash(eq && gen.MethodsAgree(env, t, "E", "H"))
		}
		if want["deepcopy"] && (g.keyed || gen.SupportedDeepCopy(env, t)) {
			g.emitDeepCopy()
		}
		if want["clone"] && (g.keyed || gen.SupportedClone(env, t)) {
			g.emitClone()
		}
	}
	m.WriteString("}\n")
	must(opsf.Close())
	write(filepath.Join(*out, "p", "p.go"), p.String())
	var mh strings.Builder
	mh.WriteString("package main\n\nimport (\n\t\"reflect\"\n\n\t\"corpus/ext\"\n\t\"corpus/p\"\n")
	for qi, q := range qs {
		write(filepath.Join(*out, fmt.Sprintf("q%d", qi), "q.go"), q.String())
		fmt.Fprintf(&mh, "\t\"corpus/q%d\"\n", qi)
	}
	mh.WriteString("\t\"verifharness/rt\"\n)\n\nvar _ ext.XN\nvar _ p.NI\nvar _ reflect.Type\n\nfunc main() { rt.Main() }\n\nfunc init() {\n")
	write(filepath.Join(*out, "main.go"), mh.String()+m.String())
	g.stats["pkgs"] = len(qs)
	write(filepath.Join(*out, "prelude.txt"), prelude.String())
	write(filepath.Join(*out, "go.mod"), fmt.Sprintf("module corpus\n\ngo 1.24\n\nrequire verifharness v0.0.0\n\nreplace verifharness => %s\n", *harness))

	var keys []string
	for k := range g.stats {
		keys = append(keys, k)
	}
	for k, v := range g.ow.n {
		g.stats["ops:"+k] = v
		keys = append(keys, "ops:"+k)
	}
	sort.Strings(keys)
	var sb strings.Builder
	fmt.Fprintf(&sb, "{\"types\": %d", len(c.Types))
	for _, k := range keys {
		fmt.Fprintf(&sb, ", %q: %d", k, g.stats[k])
	}
	sb.WriteString("}\n")
	write(filepath.Join(*out, "stats.json"), sb.String())
}

func kindName(k ty.Kind) string {
	return [...]string{"basic", "named", "ptr", "slice", "array", "map", "struct", "chan", "func", "iface"}[k]
}
