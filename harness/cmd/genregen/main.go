// genregen writes the scenarios of the C07 correspondence tie (model lean/GoderiveModel/G/Reload.lean,
// driver op `regen`, comparison vlib/regen.py): packages whose derive calls form FLOWS — the result of one
// derive call is an argument of another, through local variables, package-level variables and directly
// nested calls, in chains of 1 to 4 calls — plus independent calls, together with an OLD version of the
// same package from whose from-scratch output the old derived.gen.go of the scenario is made, and the
// abstract description the model runs on: the calls in registration order (files by name, within a file
// by position: an outer call before the calls nested in its arguments), each with its function name, its
// plugin, its text (types.ExprString) and its arguments — `k` = typed by the user's own declarations
// (the Go type is given), `r` = typed by the result of the derive call of that name.
//
// Old-file kinds: absent; same (output of the same sources); retyped (the same calls, with a start
// variable, a map or the result type of a conversion function of another type: every flowing signature
// downstream is stale); renamed (the element type was renamed: the old signatures mention a type that no
// longer exists); extra (the old sources had one more chain: the file declares functions nobody calls);
// missing (the old sources lacked a chain); head-added (the old sources lacked the first calls of a chain, whose
// start variable had the type they produce: the old file has the later functions and not the innermost one);
// hand-written-added (the new sources declare BY HAND, in a file sorting
// before or after derived.gen.go, a function that the old sources let goderive generate: its call is an ordinary
// call now, typed by the user's declaration); any of them with function declarations cut out of the file
// (`old_drop`). The old sources are generated from the same SHAPE (calls, names, bindings) as the new
// ones under other type choices, so the call texts are the same and only the types differ.
//
// Function names are `derive<Plugin><suffix>`, one name per (plugin, argument types) of the new version
// (a second call for the same types uses the same name, as a user has to); a share of the scenarios
// breaks this on purpose (another name for the same types; one name for two argument type lists).
// Bare prefixes (`deriveKeys`: the README's spelling) are used for a share of the calls, also for calls with
// an argument that waits for another derive call while a call of another plugin asks, in the same pass, for a
// helper function of that very plugin (F78: the helper must not take the waiting call's name).
//
// No two types of the universe are assignable to each other (no named type shares its underlying type
// with an unnamed type of the universe in a position where one function could serve both).
//
// Flags: -out DIR -seed N [-n COUNT] [-thorough]   (-harness, -plugins are accepted and ignored)
// Second family (DIR/multi.json, -multi COUNT): several packages in ONE invocation, every derived.gen.go absent:
// 2-3 packages with derive calls in an import chain, each starting from the exported result of the previous one,
// directly or through a package without derive calls that is not named on the command line; the package names
// are drawn so that the path order often contradicts the import order.
//
// Third family (DIR/moved.json, half as many): a module of two packages, each with a chain; in the second version
// the declarations and calls of ./lib have moved into the root package and lib's only source file is deleted, its
// derived.gen.go stays behind.
//
// Output: DIR/scenarios.json, DIR/multi.json, DIR/moved.json, DIR/stats.json. Every random choice comes from one rand.New(rand.NewSource(seed)).
package main

import (
	"encoding/json"
	"flag"
	"fmt"
	"math/rand"
	"os"
	"path/filepath"
	"sort"
	"strings"
)

// ---------------------------------------------------------------- types (scalars, slices and maps of scalars)

type ty struct {
	kind int // 0 scalar, 1 slice, 2 map, 3 receive channel
	elem string
	key  string
}

func scalar(e string) ty   { return ty{0, e, ""} }
func slice(e string) ty    { return ty{1, e, ""} }
func mapOf(k, v string) ty { return ty{2, v, k} }
func chanOf(e string) ty   { return ty{3, e, ""} }

func (t ty) String() string {
	switch t.kind {
	case 0:
		return t.elem
	case 1:
		return "[]" + t.elem
	case 3:
		return "<-chan " + t.elem
	}
	return "map[" + t.key + "]" + t.elem
}

var scalars = []string{"int", "string", "float64"}

// ---------------------------------------------------------------- shape

// one derive call of a chain; the flowing value is its first (fmap, filter, …: second) argument
type step struct {
	plugin string // Keys, Sort, Fmap, …
	name   string // function name
	bind   string // "local", "pkg", "nested", "end" (terminal: the result is discarded)
	twice  bool   // union / intersect / equal / compare: the flowing value is both arguments
	fixed  string // a second argument whose declared type does NOT follow the flow ("" = follows)
	alias  bool   // the result is copied into a second variable which the next step reads
	mis    bool   // a plugin that is misapplied on purpose
}

type chain struct {
	start    string // "map", "slice", "mystery" (an undeclared non-derive function: never typed)
	steps    []step
	file     string
	idx      int
	startPkg bool   // always true: start variables are package-level
	skip     int    // an earlier version that lacked the first calls of the chain: steps[:skip] are left out ...
	startTy  string // ... and the start variable is declared with the type they would have produced
}

type shape struct {
	chains   []chain
	files    []string
	hand     string // a function the user has written by hand under the name its call already has ("" = none)
	handFile string // the file that declares it (a.go sorts before derived.gen.go, main.go after it)
	method   string // a METHOD of this name is declared on a type of the package ("" = none): it is not a function of that name
}

// the type choices: per chain the start key/elem/value types, per fmap step the result element type
type choice struct {
	startElem map[int]string
	startVal  map[int]string
	fmapRes   map[string]string // "chain/step" -> elem
	startKind map[int]string    // "map" / "slice": only set where it differs from the chain's own start
}

func (c choice) clone() choice {
	n := choice{map[int]string{}, map[int]string{}, map[string]string{}, map[int]string{}}
	for k, v := range c.startKind {
		n.startKind[k] = v
	}
	for k, v := range c.startElem {
		n.startElem[k] = v
	}
	for k, v := range c.startVal {
		n.startVal[k] = v
	}
	for k, v := range c.fmapRes {
		n.fmapRes[k] = v
	}
	return n
}

// ---------------------------------------------------------------- typing rules of the plugins (for well-formed scenarios only;
// what a plugin really does for given types is MEASURED by vlib/regen.py on one-call packages)

// result type of a step on the flowing type cur; ok=false: not applicable
func apply(plugin string, cur ty, res string) (ty, bool) {
	switch plugin {
	case "Keys":
		if cur.kind == 2 {
			return slice(cur.key), true
		}
	case "Sort", "Unique", "Filter", "TakeWhile", "Union", "Intersect":
		if cur.kind == 1 {
			return cur, true
		}
	case "Fmap":
		if cur.kind == 1 {
			return slice(res), true
		}
		if cur.kind == 3 {
			return chanOf(res), true
		}
	case "Set":
		if cur.kind == 1 {
			return mapOf(cur.elem, "struct{}"), true
		}
	case "Min", "Max":
		if cur.kind == 1 {
			return scalar(cur.elem), true
		}
	case "Clone":
		return cur, true
	case "Equal":
		return scalar("bool"), true
	case "Compare":
		return scalar("int"), true
	case "Hash":
		return scalar("uint64"), true
	case "Contains", "Any", "All":
		if cur.kind == 1 {
			return scalar("bool"), true
		}
	}
	return ty{}, false
}

var producers = map[int][]string{
	1: {"Sort", "Unique", "Filter", "TakeWhile", "Union", "Intersect", "Fmap", "Fmap", "Fmap", "Set", "Min", "Max", "Clone"},
	2: {"Keys", "Keys", "Keys", "Clone"},
	0: {"Clone"},
	3: {"Fmap"},
}
var consumers = map[int][]string{
	1: {"Equal", "Equal", "Compare", "Hash", "Contains", "Contains", "Any", "All"},
	2: {"Equal", "Hash"},
	0: {"Equal", "Compare", "Hash"},
	3: {"Fmap"},
}

// ---------------------------------------------------------------- instantiation

type absArg struct {
	K string `json:"k,omitempty"`
	R string `json:"r,omitempty"`
}

type absCall struct {
	Name   string   `json:"name"`
	Plugin string   `json:"plugin"`
	Text   string   `json:"text"`
	Args   []absArg `json:"args"`
}

// an expression: a known identifier, a variable bound to a derive result, or a derive call
type expr struct {
	text  string
	known string   // Go type when typed by the user's declarations
	from  string   // name of the derive call (or mystery function) whose result types it
	call  *absCall // set when the expression IS a derive call
	sub   []expr   // argument expressions of the call
}

func (e expr) arg() absArg {
	if e.from != "" {
		return absArg{R: e.from}
	}
	return absArg{K: e.known}
}

// pre-order: the outer call first, then the calls nested in its arguments from left to right
func collect(e expr, out *[]absCall) {
	if e.call != nil {
		*out = append(*out, *e.call)
	}
	for _, s := range e.sub {
		collect(s, out)
	}
}

type version struct {
	Files    map[string]string `json:"files"`
	Calls    []absCall         `json:"calls"`
	Declared []string          `json:"declared"` // named types the sources declare
}

type inst struct {
	decls []string  // package-level declarations of the chain being instantiated, in order
	body  []string  // statements of its function
	calls []absCall // its calls in registration order
	nvar  int
	named map[string]bool
}

func zeroBody(t string) string { return "{ var z " + t + "; return z }" }

func (in *inst) fresh(p string) string {
	in.nvar++
	return fmt.Sprintf("%s%d", p, in.nvar)
}

func (in *inst) noteType(t string) {
	if t == "Heat" || t == "Temp" {
		in.named[t] = true
	}
}

func (in *inst) knownVar(t ty) expr {
	in.noteType(t.elem)
	in.noteType(t.key)
	v := in.fresh("w")
	in.decls = append(in.decls, fmt.Sprintf("var %s %s", v, t))
	return expr{text: v, known: t.String()}
}

func (in *inst) knownFunc(param, res string) expr {
	in.noteType(param)
	in.noteType(res)
	f := in.fresh("f")
	in.decls = append(in.decls, fmt.Sprintf("func %s(a %s) %s %s", f, param, res, zeroBody(res)))
	return expr{text: f, known: "func(" + param + ") " + res}
}

func mkCall(name, plugin string, args ...expr) expr {
	texts := make([]string, len(args))
	aa := make([]absArg, len(args))
	for i, a := range args {
		texts[i] = a.text
		aa[i] = a.arg()
	}
	text := name + "(" + strings.Join(texts, ", ") + ")"
	c := &absCall{Name: name, Plugin: plugin, Text: text, Args: aa}
	return expr{text: text, from: name, call: c, sub: args}
}

func parseTy(s string) ty {
	if strings.HasPrefix(s, "[]") {
		return slice(s[2:])
	}
	if strings.HasPrefix(s, "<-chan ") {
		return chanOf(s[7:])
	}
	if strings.HasPrefix(s, "map[") {
		i := strings.Index(s, "]")
		return mapOf(s[4:i], s[i+1:])
	}
	return scalar(s)
}

// Registration order: files by name; within a file by position. A chain is printed as one block: its
// package-level declarations (the steps bound to package-level variables come before the steps bound to
// local variables), then its function; the blocks of a file are printed in chain order. So the calls of a
// file are those of its chains in order, within a chain statement by statement, within a statement outer
// call first (collect).
// the type that flows out of the first k calls of a chain
func typeAfter(c chain, ch choice, k int) ty {
	var cur ty
	kind := c.start
	if x, ok := ch.startKind[c.idx]; ok {
		kind = x
	}
	switch kind {
	case "chan":
		cur = chanOf(ch.startElem[c.idx])
	case "map":
		val := ch.startVal[c.idx]
		if val == "" {
			val = "int"
		}
		cur = mapOf(ch.startElem[c.idx], val)
	default:
		cur = slice(ch.startElem[c.idx])
	}
	for si := 0; si < k && si < len(c.steps); si++ {
		if next, ok := apply(c.steps[si].plugin, cur, ch.fmapRes[fmt.Sprintf("%d/%d", c.idx, si)]); ok {
			cur = next
		}
	}
	return cur
}

func instantiate(sh shape, ch choice) version {
	in := &inst{named: map[string]bool{}}
	blocks := map[string][]string{}
	extra := map[string][]string{}
	calls := map[string][]absCall{}
	for _, c := range sh.chains {
		in.decls, in.body, in.calls = nil, nil, nil
		if c.start == "pair" {
			// two different calls of one plugin in ONE statement on one line (only the first one in a version that
			// has a single step): their source order is decided by the column
			e1, e2 := ch.startElem[c.idx], ch.fmapRes[fmt.Sprintf("%d/pair", c.idx)]
			var texts []string
			for si, st := range c.steps {
				e := e1
				if si == 1 {
					e = e2
				}
				call := mkCall(st.name, st.plugin, in.knownVar(slice(e)))
				texts = append(texts, call.text)
				collect(call, &in.calls)
			}
			var b strings.Builder
			for _, d := range in.decls {
				b.WriteString(d + "\n\n")
			}
			lhs := "_"
			if len(texts) == 2 {
				lhs = "_, _"
			}
			fmt.Fprintf(&b, "func chain%d() {\n\t%s = %s\n}\n\n", c.idx, lhs, strings.Join(texts, ", "))
			blocks[c.file] = append(blocks[c.file], b.String())
			calls[c.file] = append(calls[c.file], in.calls...)
			continue
		}
		var cur ty
		kind := c.start
		if k, ok := ch.startKind[c.idx]; ok {
			kind = k
		}
		if kind == "chan" {
			cur = chanOf(ch.startElem[c.idx])
		} else if kind == "map" {
			val := ch.startVal[c.idx]
			if val == "" {
				val = "int"
			}
			cur = mapOf(ch.startElem[c.idx], val)
		} else {
			cur = slice(ch.startElem[c.idx])
		}
		if c.startTy != "" {
			cur = parseTy(c.startTy)
		}
		flow := in.knownVar(cur)
		if c.start == "mystery" && c.startTy == "" {
			// the start value comes from a function that is declared nowhere and that no plugin generates
			v := in.fresh("u")
			in.body = append(in.body, fmt.Sprintf("%s := mystery%d(%s)", v, c.idx, flow.text), "_ = "+v)
			flow = expr{text: v, from: fmt.Sprintf("mystery%d", c.idx)}
		}
		for si, st := range c.steps {
			if si < c.skip {
				continue
			}
			key := fmt.Sprintf("%d/%d", c.idx, si)
			next, applicable := apply(st.plugin, cur, ch.fmapRes[key])
			if !applicable {
				// a version in which the start variable is of another kind (or a step that is misapplied on
				// purpose): the plugin will refuse; the declarations that follow are made for the type as it is
				next = cur
			}
			var args []expr
			switch st.plugin {
			case "Keys", "Sort", "Unique", "Set", "Clone", "Hash":
				args = []expr{flow}
			case "Filter", "TakeWhile", "Any", "All":
				args = []expr{in.knownFunc(cur.elem, "bool"), flow}
			case "Fmap":
				args = []expr{in.knownFunc(cur.elem, ch.fmapRes[key]), flow}
			case "Union", "Intersect", "Equal", "Compare":
				switch {
				case st.twice:
					args = []expr{flow, flow}
				case st.fixed != "":
					args = []expr{flow, in.knownVar(parseTy(st.fixed))}
				default:
					args = []expr{flow, in.knownVar(cur)}
				}
			case "Min", "Max", "Contains":
				if st.fixed != "" {
					args = []expr{flow, in.knownVar(parseTy(st.fixed))}
				} else {
					args = []expr{flow, in.knownVar(scalar(cur.elem))}
				}
			}
			call := mkCall(st.name, st.plugin, args...)
			if sh.hand != "" && st.name == sh.hand {
				// the function is the user's own: the call is an ordinary call whose type the user's declaration gives,
				// nothing is generated for it (the calls nested in its arguments are derive calls as before)
				ps := make([]string, len(args))
				for i, a := range args {
					t := a.known
					if t == "" {
						t = cur.String()
					}
					ps[i] = fmt.Sprintf("a%d %s", i, t)
				}
				extra[sh.handFile] = append(extra[sh.handFile], fmt.Sprintf("// %s is written by hand.\nfunc %s(%s) %s %s\n\n",
					st.name, st.name, strings.Join(ps, ", "), next, zeroBody(next.String())))
				call = expr{text: call.text, known: next.String(), sub: args}
			}
			bound := func(v string) expr {
				if sh.hand != "" && st.name == sh.hand {
					return expr{text: v, known: next.String()}
				}
				return expr{text: v, from: st.name}
			}
			switch st.bind {
			case "nested":
				flow = call
			case "pkg":
				v := in.fresh("g")
				in.decls = append(in.decls, fmt.Sprintf("var %s = %s", v, call.text))
				collect(call, &in.calls)
				flow = bound(v)
			case "local":
				v := in.fresh("v")
				in.body = append(in.body, fmt.Sprintf("%s := %s", v, call.text), "_ = "+v)
				collect(call, &in.calls)
				flow = bound(v)
				if st.alias {
					v2 := in.fresh("v")
					in.body = append(in.body, fmt.Sprintf("%s := %s", v2, v), "_ = "+v2)
					flow = bound(v2)
				}
			case "end":
				in.body = append(in.body, "_ = "+call.text)
				collect(call, &in.calls)
				flow = expr{}
			}
			cur = next
		}
		if flow.call != nil || (flow.known != "" && flow.sub != nil) {
			// the chain ends in a nested call that nobody consumed
			in.body = append(in.body, "_ = "+flow.text)
			collect(flow, &in.calls)
		}
		var b strings.Builder
		for _, d := range in.decls {
			b.WriteString(d + "\n\n")
		}
		fmt.Fprintf(&b, "func chain%d() {\n", c.idx)
		for _, s := range in.body {
			b.WriteString("\t" + s + "\n")
		}
		b.WriteString("}\n\n")
		blocks[c.file] = append(blocks[c.file], b.String())
		calls[c.file] = append(calls[c.file], in.calls...)
	}
	v := version{Files: map[string]string{}, Calls: []absCall{}, Declared: []string{}}
	for t := range in.named {
		v.Declared = append(v.Declared, t)
	}
	sort.Strings(v.Declared)
	for i, file := range sh.files {
		var b strings.Builder
		b.WriteString("package rg\n\n")
		if i == 0 {
			for _, t := range v.Declared {
				fmt.Fprintf(&b, "type %s float64\n\n", t)
			}
		}
		for _, blk := range blocks[file] {
			b.WriteString(blk)
		}
		for _, blk := range extra[file] {
			b.WriteString(blk)
		}
		if sh.method != "" && i == len(sh.files)-1 {
			fmt.Fprintf(&b, "type Holder struct{}\n\n// %s is a method: the function of this name is still goderive's to generate.\nfunc (h *Holder) %s() {}\n\n", sh.method, sh.method)
		}
		v.Files[file] = b.String()
		v.Calls = append(v.Calls, calls[file]...)
	}
	return v
}

// ---------------------------------------------------------------- random shapes

type gen struct {
	r        *rand.Rand
	names    map[string]string // plugin + "|" + argument types of the NEW version -> name
	used     map[string]bool
	feats    map[string]bool
	wanted   []string // plugins of waiting calls with bare-prefix names whose result flows on
	wantedAt []string // where they stand ("C<chain>S<step>")
}

func (g *gen) pick(xs []string) string { return xs[g.r.Intn(len(xs))] }

func (g *gen) elem(allowNamed bool) string {
	if allowNamed && g.r.Intn(8) == 0 {
		return "Heat"
	}
	return g.pick(scalars)
}

// name of the function for (plugin, argument types): one name per pair, unless the scenario breaks it on purpose.
// waits: the call has an argument that waits for another derive call; flowsOn: its result is read by another call.
func (g *gen) nameFor(plugin, sig, suffix string, waits, flowsOn bool) string {
	k := plugin + "|" + sig
	if n, ok := g.names[k]; ok {
		if g.r.Intn(100) < 4 {
			g.feats["ambiguous-names"] = true
			return "derive" + plugin + suffix
		}
		g.feats["one-name-twice"] = true
		return n
	}
	n := "derive" + plugin + suffix
	if g.r.Intn(100) < 3 {
		// one name for two argument type lists of one plugin
		var ks []string
		for k2 := range g.names {
			if strings.HasPrefix(k2, plugin+"|") {
				ks = append(ks, k2)
			}
		}
		sort.Strings(ks)
		if len(ks) > 0 {
			g.feats["conflicting-name"] = true
			n = g.names[ks[g.r.Intn(len(ks))]]
		}
	}
	bare := 30
	if waits && flowsOn && helperRequesters[plugin] != nil {
		// the README's spelling for a call that waits for a type while another plugin asks for a helper of this
		// plugin in the same pass (F78: the helper must not take the waiting call's name)
		bare = 55
	}
	if g.r.Intn(100) < bare && !g.used["derive"+plugin] {
		n = "derive" + plugin
		g.feats["bare-prefix-name"] = true
		if waits {
			g.feats["bare-prefix-name-on-waiting-call"] = true
			if flowsOn && helperRequesters[plugin] != nil {
				g.wanted = append(g.wanted, plugin)
				g.wantedAt = append(g.wantedAt, suffix)
			}
		}
	}
	g.used[n] = true
	g.names[k] = n
	return n
}

// plugin -> (plugin, start kind) of a call whose generation asks for a helper function of that plugin
var helperRequesters = map[string][][2]string{
	"Keys":     {{"Unique", "slice"}, {"Hash", "map"}},
	"Set":      {{"Unique", "slice"}},
	"Contains": {{"Union", "slice"}, {"Intersect", "slice"}},
	"Min":      {{"Intersect", "slice"}},
	"Compare":  {{"Compare", "slice"}},
	"Sort":     {{"Hash", "map"}, {"Compare", "map"}},
	"Hash":     {{"Hash", "strings"}},
}

// two calls of one plugin, for two element types, in one statement on one line
func (g *gen) pair(idx int, file string, ch *choice) chain {
	c := chain{idx: idx, file: file, startPkg: true, start: "pair"}
	plugin := g.pick([]string{"Hash", "Clone", "Set", "Sort", "Unique"})
	e1 := g.pick(scalars)
	e2 := g.pick(scalars)
	for e2 == e1 {
		e2 = g.pick(scalars)
	}
	ch.startElem[idx] = e1
	ch.fmapRes[fmt.Sprintf("%d/pair", idx)] = e2
	for si, e := range []string{e1, e2} {
		st := step{plugin: plugin, bind: "end"}
		st.name = g.nameFor(plugin, slice(e).String(), fmt.Sprintf("C%dS%d", idx, si), false, false)
		c.steps = append(c.steps, st)
	}
	g.feats["two-calls-of-one-plugin-on-one-line"] = true
	return c
}

// a chain of one call, typed by the user, whose generation asks for a helper of the wanted plugin
func (g *gen) requester(idx int, file, wanted string, ch *choice) chain {
	rq := helperRequesters[wanted][g.r.Intn(len(helperRequesters[wanted]))]
	c := chain{idx: idx, file: file, startPkg: true, start: rq[1]}
	ch.startElem[idx] = g.pick(scalars)
	var cur ty
	switch rq[1] {
	case "map":
		ch.startVal[idx] = g.pick([]string{"int", "string", "bool"})
		cur = mapOf(ch.startElem[idx], ch.startVal[idx])
	case "strings":
		c.start = "slice"
		ch.startElem[idx] = "string"
		cur = slice("string")
	default:
		cur = slice(ch.startElem[idx])
	}
	st := step{plugin: rq[0], bind: "end"}
	if rq[0] == "Union" || rq[0] == "Intersect" || rq[0] == "Compare" {
		st.twice = g.r.Intn(2) == 0
	}
	st.name = g.nameFor(rq[0], cur.String(), fmt.Sprintf("C%dS0", idx), false, false)
	c.steps = []step{st}
	g.feats["helper-of-a-waiting-call's-plugin"] = true
	return c
}

// builds one chain (shape and the type choices of the new version)
func (g *gen) chain(idx int, file string, depth int, ch *choice, forceNamed bool) chain {
	c := chain{idx: idx, file: file, startPkg: true}
	var cur ty
	switch {
	case g.r.Intn(100) < 3:
		c.start = "mystery"
		g.feats["never-typed-start"] = true
		ch.startElem[idx] = g.elem(false)
		cur = slice(ch.startElem[idx])
	case g.r.Intn(100) < 8 || (forceNamed && g.r.Intn(100) < 50):
		// a channel: only deriveFmap takes it further (a channel of the results)
		c.start = "chan"
		g.feats["channel-flow"] = true
		ch.startElem[idx] = g.elem(true)
		if forceNamed {
			ch.startElem[idx] = "Heat"
		}
		cur = chanOf(ch.startElem[idx])
	case g.r.Intn(100) < 45:
		c.start = "map"
		ch.startElem[idx] = g.elem(true)
		if forceNamed {
			ch.startElem[idx] = "Heat"
		}
		ch.startVal[idx] = g.pick([]string{"int", "string", "bool"})
		cur = mapOf(ch.startElem[idx], ch.startVal[idx])
	default:
		c.start = "slice"
		ch.startElem[idx] = g.elem(true)
		if forceNamed {
			ch.startElem[idx] = "Heat"
		}
		cur = slice(ch.startElem[idx])
	}
	pkgOK := c.start != "mystery"
	deferred := c.start == "mystery"
	// one expression: every call but the last is nested in the next one (3-4 calls deep when the chain is that long)
	allNested := g.r.Intn(100) < 22
	nestedRun := 0
	for si := 0; si < depth; si++ {
		last := si == depth-1
		var plugin string
		misapplied := false
		st0mis := false
		if last && g.r.Intn(100) < 60 {
			plugin = g.pick(consumers[cur.kind])
		} else {
			plugin = g.pick(producers[cur.kind])
		}
		if last && (cur.kind == 1 || cur.kind == 2) && g.r.Intn(100) < 3 {
			// a plugin for maps on a slice / for slices on a map: Add accepts, Generate refuses
			plugin = map[int]string{1: "Keys", 2: g.pick([]string{"Sort", "Unique", "Set"})}[cur.kind]
			misapplied = true
			st0mis = true
			g.feats["misapplied-plugin"] = true
		}
		key := fmt.Sprintf("%d/%d", idx, si)
		if plugin == "Fmap" {
			ch.fmapRes[key] = g.elem(cur.kind == 3)
		}
		next, ok := apply(plugin, cur, ch.fmapRes[key])
		if !ok {
			if !misapplied {
				panic("inapplicable step " + plugin + " on " + cur.String())
			}
			next = cur
		}
		st := step{plugin: plugin, mis: st0mis}
		// the signature the name stands for, under the new version's types
		sig := cur.String()
		switch plugin {
		case "Fmap":
			sig = "func(" + cur.elem + ") " + ch.fmapRes[key] + "," + cur.String()
		case "Union", "Intersect", "Equal", "Compare":
			st.twice = g.r.Intn(100) < 25
			if !st.twice && g.r.Intn(100) < 12 {
				// a second argument whose declared type does not follow the flow: the type of the new version,
				// or another one (then the new version is rejected from scratch)
				st.fixed = cur.String()
				if g.r.Intn(100) < 35 {
					st.fixed = ty{cur.kind, g.pick(scalars), cur.key}.String()
				}
				g.feats["fixed-second-argument"] = true
			}
		case "Min", "Max", "Contains":
			if g.r.Intn(100) < 12 {
				st.fixed = cur.elem
				if g.r.Intn(100) < 35 {
					st.fixed = g.pick(scalars)
				}
				g.feats["fixed-second-argument"] = true
			}
		}
		st.name = g.nameFor(plugin, sig, fmt.Sprintf("C%dS%d", idx, si), deferred, !last)
		isConsumer := next.kind == 0 && (plugin == "Equal" || plugin == "Compare" || plugin == "Hash" || plugin == "Contains" || plugin == "Any" || plugin == "All")
		switch {
		case last || isConsumer || misapplied:
			st.bind = "end"
			if !isConsumer && g.r.Intn(2) == 0 {
				st.bind = "nested" // printed as `_ = call` by instantiate
			}
		default:
			x := g.r.Intn(100)
			switch {
			case x < 35 || allNested:
				st.bind = "nested"
			case x < 60 && pkgOK:
				st.bind = "pkg"
			default:
				st.bind = "local"
				pkgOK = false
				st.alias = g.r.Intn(100) < 15
			}
		}
		c.steps = append(c.steps, st)
		if st.bind == "nested" {
			g.feats["nested-call"] = true
			nestedRun++
			if nestedRun >= 2 && si+1 < depth {
				g.feats["nested-3-deep"] = true
			}
			if nestedRun >= 3 && si+1 < depth {
				g.feats["nested-4-deep"] = true
			}
		} else {
			nestedRun = 0
		}
		if st.bind == "pkg" {
			g.feats["package-level-variable"] = true
		}
		cur = next
		deferred = true
		if st.bind == "end" {
			break
		}
	}
	return c
}

// ---------------------------------------------------------------- scenarios

type scenario struct {
	ID       string   `json:"id"`
	OldKind  string   `json:"old_kind"`
	Depth    int      `json:"depth"`
	Features []string `json:"features"`
	New      version  `json:"new"`
	Old      *version `json:"old"`      // nil: no old derived.gen.go
	OldDrop  []string `json:"old_drop"` // function declarations cut out of the old file
}

func depthOf(sh shape) int {
	d := 0
	for _, c := range sh.chains {
		if len(c.steps) > d {
			d = len(c.steps)
		}
	}
	return d
}

func (g *gen) retype(sh shape, ch choice) choice {
	n := ch.clone()
	other := func(cur string) string {
		for {
			x := g.pick(scalars)
			if x != cur {
				return x
			}
		}
	}
	changed := true
	for _, c := range sh.chains {
		if c.start != "pair" {
			changed = false
		}
	}
	for !changed {
		for _, c := range sh.chains {
			if c.start == "pair" {
				continue // the two calls of a pair keep their two types
			}
			if g.r.Intn(100) < 50 {
				n.startElem[c.idx] = other(n.startElem[c.idx])
				changed = true
			}
			if c.start != "mystery" && len(c.steps) > 0 && c.steps[0].plugin == "Clone" && g.r.Intn(100) < 40 {
				// the start variable was of the other kind (a slice where it is a map now, or the reverse): Clone takes both
				cur := c.start
				if k, ok := n.startKind[c.idx]; ok {
					cur = k
				}
				if cur == "map" {
					n.startKind[c.idx] = "slice"
				} else {
					n.startKind[c.idx] = "map"
				}
				g.feats["start-kind-changed"] = true
				changed = true
			}
			for si, st := range c.steps {
				k := fmt.Sprintf("%d/%d", c.idx, si)
				if st.plugin == "Fmap" && g.r.Intn(100) < 50 {
					n.fmapRes[k] = other(n.fmapRes[k])
					changed = true
				}
			}
		}
	}
	return n
}

func rename(v version) version {
	n := version{Files: map[string]string{}, Calls: []absCall{}, Declared: []string{}}
	for _, c := range v.Calls {
		c2 := c
		c2.Args = nil
		for _, a := range c.Args {
			c2.Args = append(c2.Args, absArg{K: strings.ReplaceAll(a.K, "Heat", "Temp"), R: a.R})
		}
		n.Calls = append(n.Calls, c2)
	}
	for f, s := range v.Files {
		n.Files[f] = strings.ReplaceAll(s, "Heat", "Temp")
	}
	for _, d := range v.Declared {
		n.Declared = append(n.Declared, strings.ReplaceAll(d, "Heat", "Temp"))
	}
	return n
}

func (g *gen) scenario(id int) scenario {
	g.names = map[string]string{}
	g.used = map[string]bool{}
	g.feats = map[string]bool{}
	g.wanted = nil
	g.wantedAt = nil
	kinds := []string{"absent", "absent", "same", "same", "retyped", "retyped", "retyped", "retyped", "retyped", "retyped",
		"renamed", "extra", "extra", "missing", "missing", "retyped-dropped", "retyped-dropped", "same-dropped", "emptied", "hand-written-added", "hand-written-added"}
	kind := g.pick(kinds)
	// two calls of one plugin on one line; half of the time with an old version that had only the first of them
	hasPair := g.r.Intn(100) < 25
	if hasPair && g.r.Intn(100) < 50 {
		kind = "missing"
	}
	files := []string{"a.go"}
	if g.r.Intn(100) < 30 {
		files = append(files, "b.go")
		g.feats["two-files"] = true
	}
	if g.r.Intn(100) < 15 {
		// a test file of the package itself: its calls are generated for as well, in every pass
		files = append(files, "z_test.go")
		g.feats["in-package-test-file"] = true
	}
	ch := choice{map[int]string{}, map[int]string{}, map[string]string{}, map[int]string{}}
	sh := shape{files: files}
	nchains := 1 + g.r.Intn(3)
	for i := 0; i < nchains; i++ {
		depth := 1 + g.r.Intn(4)
		if i == 0 && g.r.Intn(100) < 70 {
			depth = 2 + g.r.Intn(3)
		}
		sh.chains = append(sh.chains, g.chain(i, files[g.r.Intn(len(files))], depth, &ch, kind == "renamed" && i == 0))
	}
	if hasPair {
		sh.chains = append(sh.chains, g.pair(len(sh.chains), files[g.r.Intn(len(files))], &ch))
	}
	for _, w := range g.wanted {
		if g.r.Intn(100) < 70 {
			sh.chains = append(sh.chains, g.requester(len(sh.chains), files[g.r.Intn(len(files))], w, &ch))
		}
	}
	// head-added: the old sources lacked the FIRST call(s) of a chain (its start variable had the type they produce
	// now): the old file declares the later functions and not the innermost one, so that a later call both waits for
	// a type and resolves into the old file. Preferred where that call bears a bare-prefix name while another plugin
	// asks for a helper of its plugin (seeded V-C07-B: the helper must not take its name).
	headChain, headSkip := -1, 0
	if kind != "emptied" && (g.r.Intn(100) < 8 || (len(g.wantedAt) > 0 && g.r.Intn(100) < 45)) {
		for _, at := range g.wantedAt {
			var ci, si int
			fmt.Sscanf(at, "C%dS%d", &ci, &si)
			if ci < len(sh.chains) && si >= 1 && sh.chains[ci].start != "mystery" && sh.chains[ci].start != "pair" {
				headChain, headSkip = ci, si
				g.feats["head-added-before-a-bare-named-waiting-call"] = true
				break
			}
		}
		if headChain < 0 {
			for ci, c := range sh.chains {
				if len(c.steps) >= 2 && c.start != "mystery" && c.start != "pair" {
					headChain, headSkip = ci, 1+g.r.Intn(len(c.steps)-1)
					break
				}
			}
		}
		if headChain >= 0 {
			kind = "head-added"
		}
	}
	if g.r.Intn(100) < 20 && len(sh.chains) > 0 {
		// a method that bears the name of one of the derive calls, in the old and in the new sources
		c := sh.chains[g.r.Intn(len(sh.chains))]
		if len(c.steps) > 0 {
			sh.method = c.steps[g.r.Intn(len(c.steps))].name
			g.feats["method-named-like-a-derive-call"] = true
		}
	}
	if kind == "hand-written-added" {
		// the old sources let goderive generate a function that the new sources declare by hand, under the same name
		count := map[string]int{}
		for _, c := range sh.chains {
			for _, st := range c.steps {
				count[st.name]++
			}
		}
		var cand []string
		for _, c := range sh.chains {
			if c.start == "pair" {
				continue
			}
			for _, st := range c.steps {
				if count[st.name] == 1 && !st.mis {
					cand = append(cand, st.name)
				}
			}
		}
		if len(cand) == 0 {
			kind = "same"
		} else {
			sh.hand = cand[g.r.Intn(len(cand))]
			sh.handFile = g.pick([]string{"a.go", "main.go"})
			if sh.handFile == "main.go" {
				fs := append([]string{}, sh.files...)
				fs = append(fs, "main.go")
				sort.Strings(fs)
				sh.files = fs
				g.feats["hand-written-after-derived-file"] = true
			} else {
				g.feats["hand-written-before-derived-file"] = true
			}
		}
	}
	sc := scenario{ID: fmt.Sprintf("s%d", id), OldKind: kind, Depth: depthOf(sh)}
	sc.New = instantiate(sh, ch)
	switch kind {
	case "emptied":
		// every derive call was removed: the old file is the output for the package as it was
		o := instantiate(sh, ch)
		sc.Old = &o
		sc.New = instantiate(shape{files: files}, ch)
		sc.Depth = 0
	case "absent":
	case "head-added":
		osh := sh
		osh.chains = append([]chain{}, sh.chains...)
		c := osh.chains[headChain]
		c.skip = headSkip
		c.startTy = typeAfter(c, ch, headSkip).String()
		osh.chains[headChain] = c
		o := instantiate(osh, ch)
		sc.Old = &o
	case "hand-written-added":
		osh := sh
		osh.hand = ""
		o := instantiate(osh, ch)
		sc.Old = &o
	case "same", "same-dropped":
		o := instantiate(sh, ch)
		sc.Old = &o
	case "retyped", "retyped-dropped":
		o := instantiate(sh, g.retype(sh, ch))
		sc.Old = &o
	case "renamed":
		o := rename(instantiate(sh, ch))
		sc.Old = &o
	case "extra":
		osh := shape{files: files, chains: append([]chain{}, sh.chains...), method: sh.method}
		och := ch.clone()
		osh.chains = append(osh.chains, g.chain(len(sh.chains), files[g.r.Intn(len(files))], 1+g.r.Intn(3), &och, false))
		if g.r.Intn(2) == 0 {
			och = g.retype(osh, och)
			g.feats["extra-and-retyped"] = true
		}
		o := instantiate(osh, och)
		sc.Old = &o
	case "missing":
		osh := shape{files: files, method: sh.method}
		pairAt := -1
		for i, c := range sh.chains {
			if c.start == "pair" {
				pairAt = i
			}
		}
		if pairAt >= 0 && g.r.Intn(100) < 80 {
			// the old sources had only the first of the two calls that share a line
			for i, c := range sh.chains {
				if i == pairAt {
					c.steps = append([]step{}, c.steps[:1]...)
				}
				osh.chains = append(osh.chains, c)
			}
			g.feats["second-call-added-on-the-line"] = true
			o := instantiate(osh, ch)
			sc.Old = &o
			break
		}
		drop := g.r.Intn(len(sh.chains))
		for i, c := range sh.chains {
			if i != drop || len(sh.chains) == 1 {
				osh.chains = append(osh.chains, c)
			}
		}
		if len(sh.chains) == 1 {
			// a single chain: the old sources had only its first call(s)
			c := osh.chains[0]
			keep := 1 + g.r.Intn(len(c.steps))
			c.steps = append([]step{}, c.steps[:keep]...)
			osh.chains[0] = c
		}
		och := ch
		if g.r.Intn(2) == 0 {
			och = g.retype(osh, ch)
			g.feats["missing-and-retyped"] = true
		}
		o := instantiate(osh, och)
		sc.Old = &o
	}
	if strings.HasSuffix(kind, "-dropped") || (sc.Old != nil && g.r.Intn(100) < 15) {
		// cut declarations of called functions out of the old file
		seen := map[string]bool{}
		var ns []string
		for _, c := range sc.Old.Calls {
			if !seen[c.Name] {
				seen[c.Name] = true
				ns = append(ns, c.Name)
			}
		}
		for _, n := range ns {
			if g.r.Intn(100) < 40 {
				sc.OldDrop = append(sc.OldDrop, n)
			}
		}
		if len(sc.OldDrop) == 0 && len(ns) > 0 {
			sc.OldDrop = []string{ns[g.r.Intn(len(ns))]}
		}
		g.feats["declarations-cut-out"] = true
	}
	if sc.OldDrop == nil {
		sc.OldDrop = []string{}
	}
	for f := range g.feats {
		sc.Features = append(sc.Features, f)
	}
	sort.Strings(sc.Features)
	if sc.Features == nil {
		sc.Features = []string{}
	}
	return sc
}

// ---------------------------------------------------------------- several packages in one invocation

type mpkg struct {
	Name    string            `json:"name"`
	Imports []string          `json:"imports"` // package names (import path rg/<name>)
	Named   bool              `json:"named"`   // listed on the command line
	Files   map[string]string `json:"files"`
	Calls   []absCall         `json:"calls"` // names and `r` references qualified: <package>.<function>
}

type multi struct {
	ID       string   `json:"id"`
	Packages []mpkg   `json:"packages"` // in dependency order: a package imports earlier ones only
	Args     []string `json:"args"`     // command line, in listing order
	Features []string `json:"features"`
	// a history: in version 1 the first package declares Out with an explicit type (another element type) and has no
	// derive calls; version 1 is generated, then the first package's files are replaced by the ones in Packages
	V1 map[string]map[string]string `json:"v1,omitempty"`
}

// A chain of 2-3 packages with derive calls; each exports `Out`, the result of its last producing call, and the
// next one starts from it — directly, or through a package WITHOUT derive calls that re-exports it
// (`var Out = index.Out`) and that is not named on the command line. Every derived.gen.go is absent at the
// start: whether one run suffices depends on the order in which the named packages are generated.
func (g *gen) multi(id int) multi {
	feats := map[string]bool{}
	pool := []string{"app", "bus", "catalog", "depot", "engine", "index", "jobs", "kit", "lib", "model"}
	g.r.Shuffle(len(pool), func(i, j int) { pool[i], pool[j] = pool[j], pool[i] })
	m := multi{ID: fmt.Sprintf("m%d", id)}
	hist := g.r.Intn(100) < 45
	nd := 2 + g.r.Intn(2)
	var cur ty
	prevPkg, prevFn := "", "" // the package whose Out is read next, the qualified function that types it
	nameIdx := 0
	for i := 0; i < nd; i++ {
		name := pool[nameIdx]
		nameIdx++
		p := mpkg{Name: name, Named: true, Files: map[string]string{}, Calls: []absCall{}, Imports: []string{}}
		var b strings.Builder
		var decls []string
		nv := 0
		fresh := func(pfx string) string { nv++; return fmt.Sprintf("%s%d", pfx, nv) }
		var flow expr
		if i == 0 {
			if g.r.Intn(2) == 0 {
				cur = mapOf(g.pick(scalars), g.pick([]string{"int", "string", "bool"}))
			} else {
				cur = slice(g.pick(scalars))
			}
			v := fresh("in")
			decls = append(decls, fmt.Sprintf("var %s %s", v, cur))
			flow = expr{text: v, known: cur.String()}
		} else {
			p.Imports = []string{prevPkg}
			flow = expr{text: prevPkg + ".Out", from: prevFn}
		}
		names := map[string]string{}
		nameFor := func(plugin, sig string, si int) string {
			if n, ok := names[plugin+"|"+sig]; ok {
				return n
			}
			n := fmt.Sprintf("derive%sP%dS%d", plugin, i, si)
			bare := false
			for _, x := range names {
				if x == "derive"+plugin {
					bare = true
				}
			}
			if !bare && g.r.Intn(100) < 40 {
				n = "derive" + plugin
			}
			names[plugin+"|"+sig] = n
			return n
		}
		var calls []absCall
		steps := 1 + g.r.Intn(3)
		if hist && i > 0 && g.r.Intn(100) < 70 {
			steps = 2
		}
		inExpr := flow
		preserved := true
		var lastName string
		for si := 0; si < steps; si++ {
			plugin := g.pick(producers[cur.kind])
			for plugin == "Min" || plugin == "Max" { // keep a slice or a map flowing
				plugin = g.pick(producers[cur.kind])
			}
			cross := false
			if hist && i > 0 {
				// only calls without companions typed by the user (version 1 must generate too, for another element type);
				// often every call of the package waits for the imported package: the last one takes its Out as well
				opts := []string{"Sort", "Unique", "Clone", "Set"}
				if cur.kind == 2 {
					opts = []string{"Keys", "Clone"}
				}
				plugin = g.pick(opts)
				if si == steps-1 && steps >= 2 && preserved && cur.kind == 1 && g.r.Intn(100) < 70 {
					plugin = g.pick([]string{"Union", "Intersect"})
					cross = true
					feats["every-call-waits-for-the-import"] = true
				}
			}
			res := g.pick(scalars)
			next, _ := apply(plugin, cur, res)
			var args []expr
			sig := cur.String()
			switch plugin {
			case "Keys", "Sort", "Unique", "Set", "Clone":
				args = []expr{flow}
			case "Filter", "TakeWhile":
				f := fresh("f")
				decls = append(decls, fmt.Sprintf("func %s(a %s) bool %s", f, cur.elem, zeroBody("bool")))
				args = []expr{{text: f, known: "func(" + cur.elem + ") bool"}, flow}
			case "Fmap":
				f := fresh("f")
				decls = append(decls, fmt.Sprintf("func %s(a %s) %s %s", f, cur.elem, res, zeroBody(res)))
				args = []expr{{text: f, known: "func(" + cur.elem + ") " + res}, flow}
				sig = "func(" + cur.elem + ") " + res + "," + cur.String()
			case "Union", "Intersect":
				if cross {
					args = []expr{flow, inExpr}
				} else if g.r.Intn(2) == 0 || (hist && i > 0) {
					args = []expr{flow, flow}
				} else {
					w := fresh("w")
					decls = append(decls, fmt.Sprintf("var %s %s", w, cur))
					args = []expr{flow, {text: w, known: cur.String()}}
				}
			}
			switch plugin {
			case "Sort", "Unique", "Clone", "Filter", "TakeWhile", "Union", "Intersect":
			default:
				preserved = false
			}
			qn := name + "." + nameFor(plugin, sig, si)
			call := mkCall(qn[len(name)+1:], plugin, args...)
			call.from = qn
			call.call.Name = qn
			lastName = qn
			if si < steps-1 && g.r.Intn(2) == 0 {
				flow = call // nested in the next call
				feats["nested-call"] = true
			} else {
				v := fresh("t")
				if si == steps-1 {
					v = "Out"
				}
				decls = append(decls, fmt.Sprintf("var %s = %s", v, call.text))
				collect(call, &calls)
				flow = expr{text: v, from: qn}
			}
			cur = next
		}
		if g.r.Intn(100) < 50 && !(hist && i > 0) {
			// a consumer of the package's own result
			w := fresh("w")
			decls = append(decls, fmt.Sprintf("var %s %s", w, cur))
			call := mkCall(nameFor("Equal", cur.String(), 8), "Equal", flow, expr{text: w, known: cur.String()})
			call.call.Name = name + "." + call.call.Name
			decls = append(decls, "var Ok = "+call.text)
			collect(call, &calls)
		}
		if g.r.Intn(100) < 70 && !(hist && i > 0 && g.r.Intn(100) < 60) {
			// a call that depends on nothing: the package always has something to generate
			w := fresh("w")
			t := slice(g.pick(scalars))
			decls = append(decls, fmt.Sprintf("var %s %s", w, t))
			call := mkCall(nameFor("Hash", t.String(), 9), "Hash", expr{text: w, known: t.String()})
			call.call.Name = name + "." + call.call.Name
			decls = append(decls, "var H = "+call.text)
			collect(call, &calls)
			feats["independent-call"] = true
		}
		// `r` references inside the package are qualified like the ones across packages
		for ci := range calls {
			for ai := range calls[ci].Args {
				if r := calls[ci].Args[ai].R; r != "" && !strings.Contains(r, ".") {
					calls[ci].Args[ai].R = name + "." + r
				}
			}
		}
		p.Calls = calls
		fmt.Fprintf(&b, "package %s\n\n", name)
		for _, imp := range p.Imports {
			fmt.Fprintf(&b, "import \"rg/%s\"\n\n", imp)
		}
		for _, d := range decls {
			b.WriteString(d + "\n\n")
		}
		p.Files[name+".go"] = b.String()
		m.Packages = append(m.Packages, p)
		if hist && i == 0 {
			// version 1: Out is declared with an explicit type of another element type, no derive call
			old := cur
			if cur.kind == 2 {
				for old.key == cur.key {
					old.key = g.pick(scalars)
				}
			} else {
				for old.elem == cur.elem {
					old.elem = g.pick(scalars)
				}
			}
			m.V1 = map[string]map[string]string{name: {name + ".go": fmt.Sprintf("package %s\n\nvar Out %s\n", name, old)}}
			feats["old-files-of-an-earlier-version"] = true
		}
		prevPkg, prevFn = name, lastName
		if i < nd-1 && g.r.Intn(100) < 55 {
			// a package without derive calls that hands the value on
			mid := pool[nameIdx]
			nameIdx++
			q := mpkg{Name: mid, Imports: []string{name}, Files: map[string]string{}, Calls: []absCall{}}
			q.Files[mid+".go"] = fmt.Sprintf("package %s\n\nimport \"rg/%s\"\n\nvar Out = %s.Out\n", mid, name, name)
			q.Named = g.r.Intn(100) < 25
			if !q.Named {
				feats["unnamed-intermediate"] = true
			}
			m.Packages = append(m.Packages, q)
			prevPkg = mid
		}
	}
	for _, p := range m.Packages {
		if p.Named {
			m.Args = append(m.Args, "./"+p.Name)
		}
	}
	g.r.Shuffle(len(m.Args), func(i, j int) { m.Args[i], m.Args[j] = m.Args[j], m.Args[i] })
	// does the path order differ from the dependency order?
	for i := range m.Packages {
		for j := i + 1; j < len(m.Packages); j++ {
			if m.Packages[i].Named && m.Packages[j].Named && m.Packages[j].Name < m.Packages[i].Name {
				feats["path-order-against-imports"] = true
			}
		}
	}
	for f := range feats {
		m.Features = append(m.Features, f)
	}
	sort.Strings(m.Features)
	if m.Features == nil {
		m.Features = []string{}
	}
	return m
}

// ---------------------------------------------------------------- a package that is left with nothing but its old derived.gen.go

type moved struct {
	ID      string  `json:"id"`
	V1Root  version `json:"v1_root"` // package rg in the module root: the first chain
	V1Lib   version `json:"v1_lib"`  // package lib in ./lib: the second chain
	V2Root  version `json:"v2_root"` // both chains in the root package; ./lib has lost every source file
	Depth   int     `json:"depth"`
	Feature string  `json:"feature"`
	// when set: lib keeps a source file without derive calls in version 2 (instead of losing every source file)
	V2Lib map[string]string `json:"v2_lib,omitempty"`
}

// v1: two packages (module root and ./lib) with one chain of derive calls each. v2: the declarations and calls of
// ./lib have moved into the root package and lib's only source file is gone — its derived.gen.go stays behind.
// `goderive ./...` must remove it (no derive call remains there), leave the root's file as from scratch, and the
// module must build.
func (g *gen) moved(id int) moved {
	for {
		g.names = map[string]string{}
		g.used = map[string]bool{}
		g.feats = map[string]bool{}
		g.wanted = nil
		ch := choice{map[int]string{}, map[int]string{}, map[string]string{}, map[int]string{}}
		c0 := g.chain(0, "a.go", 1+g.r.Intn(4), &ch, false)
		c1 := g.chain(1, "lib.go", 1+g.r.Intn(4), &ch, false)
		if c0.start == "mystery" || c1.start == "mystery" {
			continue
		}
		v2 := instantiate(shape{files: []string{"a.go", "lib.go"}, chains: []chain{c0, c1}}, ch)
		if len(v2.Declared) > 0 {
			continue
		}
		root := instantiate(shape{files: []string{"a.go"}, chains: []chain{c0}}, ch)
		lib := instantiate(shape{files: []string{"lib.go"}, chains: []chain{c1}}, ch)
		lib.Files["lib.go"] = strings.Replace(lib.Files["lib.go"], "package rg\n", "package lib\n", 1)
		d := len(c0.steps)
		if len(c1.steps) > d {
			d = len(c1.steps)
		}
		mv := moved{ID: fmt.Sprintf("v%d", id), V1Root: root, V1Lib: lib, V2Root: v2, Depth: d, Feature: "package-left-with-only-its-derived-file"}
		if g.r.Intn(2) == 0 {
			mv.V2Lib = map[string]string{"lib.go": "package lib\n\n// Kept is all that is left here.\nvar Kept int\n"}
			mv.Feature = "last-derive-call-moved-to-the-other-package"
		}
		return mv
	}
}

func main() {
	out := flag.String("out", "", "output directory")
	seed := flag.Int64("seed", 1, "seed")
	n := flag.Int("n", 0, "number of scenarios (default: 300, thorough 4000)")
	nm := flag.Int("multi", -1, "number of scenarios with several packages in one invocation (default: n/6)")
	thorough := flag.Bool("thorough", false, "thorough tier")
	flag.String("harness", "", "ignored")
	flag.String("plugins", "", "ignored")
	flag.Parse()
	if *out == "" {
		fmt.Fprintln(os.Stderr, "genregen: -out is required")
		os.Exit(2)
	}
	if *n == 0 {
		*n = 300
		if *thorough {
			*n = 4000
		}
	}
	g := &gen{r: rand.New(rand.NewSource(*seed))}
	var scs []scenario
	stats := map[string]map[string]int{"old_kind": {}, "depth": {}, "features": {}, "calls": {}}
	for i := 0; i < *n; i++ {
		sc := g.scenario(i)
		scs = append(scs, sc)
		stats["old_kind"][sc.OldKind]++
		stats["depth"][fmt.Sprint(sc.Depth)]++
		stats["calls"][fmt.Sprint(len(sc.New.Calls))]++
		for _, f := range sc.Features {
			stats["features"][f]++
		}
	}
	if err := os.MkdirAll(*out, 0o755); err != nil {
		panic(err)
	}
	write := func(name string, v interface{}) {
		b, err := json.MarshalIndent(v, "", " ")
		if err != nil {
			panic(err)
		}
		if err := os.WriteFile(filepath.Join(*out, name), b, 0o644); err != nil {
			panic(err)
		}
	}
	if *nm < 0 {
		*nm = *n / 6
	}
	ms := []multi{}
	stats["multi_features"] = map[string]int{}
	stats["multi_packages"] = map[string]int{}
	for i := 0; i < *nm; i++ {
		m := g.multi(i)
		ms = append(ms, m)
		stats["multi_packages"][fmt.Sprint(len(m.Packages))]++
		for _, f := range m.Features {
			stats["multi_features"][f]++
		}
	}
	write("scenarios.json", scs)
	mv := []moved{}
	for i := 0; i < (*nm+1)/2; i++ {
		mv = append(mv, g.moved(i))
	}
	stats["moved"] = map[string]int{"scenarios": len(mv)}
	write("multi.json", ms)
	write("moved.json", mv)
	write("stats.json", stats)
}
