// genregen writes the scenarios of the C07 correspondence tie (model lean/GoderiveModel/G/Reload.lean,
// driver op `regen`, comparison vlib/regen.py): packages whose derive calls form FLOWS — the result of one
// derive call is an argument of another, through local variables, package-level variables and directly
// nested calls, in chains of 1 to 4 calls — plus independent calls, together with an OLD version of the
// same package from whose from-scratch output the old derived.gen.go of the scenario is made, and the
// abstract description the model runs on: the calls in registration order (files by name, within a file
// by position: an outer call before the calls nested in its arguments), each with its function name, its
// plugin, its text (types.ExprString) and its arguments — `k` = typed by the user's own declarations
// (the Go type is given), `r` = typed by the result of the derive call of that name.
//
// Old-file kinds: absent; same (output of the same sources); retyped (the same calls, with a start
// variable, a map or the result type of a conversion function of another type: every flowing signature
// downstream is stale); renamed (the element type was renamed: the old signatures mention a type that no
// longer exists); extra (the old sources had one more chain: the file declares functions nobody calls);
// missing (the old sources lacked a chain); any of them with function declarations cut out of the file
// (`old_drop`). The old sources are generated from the same SHAPE (calls, names, bindings) as the new
// ones under other type choices, so the call texts are the same and only the types differ.
//
// Function names are `derive<Plugin><suffix>`, one name per (plugin, argument types) of the new version
// (a second call for the same types uses the same name, as a user has to); a share of the scenarios
// breaks this on purpose (another name for the same types; one name for two argument type lists).
// A call with an argument that waits for another derive call never bears a name a helper function could
// be given (the bare prefix, prefix_…): see .work/new-defects-regen.md. Bare prefixes are used for calls
// whose arguments are all typed by the user.
//
// No two types of the universe are assignable to each other (no named type shares its underlying type
// with an unnamed type of the universe in a position where one function could serve both).
//
// Flags: -out DIR -seed N [-n COUNT] [-thorough]   (-harness, -plugins are accepted and ignored)
// Output: DIR/scenarios.json, DIR/stats.json. Every random choice comes from one rand.New(rand.NewSource(seed)).
package main

import (
	"encoding/json"
	"flag"
	"fmt"
	"math/rand"
	"os"
	"path/filepath"
	"sort"
	"strings"
)

// ---------------------------------------------------------------- types (scalars, slices and maps of scalars)

type ty struct {
	kind int // 0 scalar, 1 slice, 2 map, 3 receive channel
	elem string
	key  string
}

func scalar(e string) ty   { return ty{0, e, ""} }
func slice(e string) ty    { return ty{1, e, ""} }
func mapOf(k, v string) ty { return ty{2, v, k} }
func chanOf(e string) ty   { return ty{3, e, ""} }

func (t ty) String() string {
	switch t.kind {
	case 0:
		return t.elem
	case 1:
		return "[]" + t.elem
	case 3:
		return "<-chan " + t.elem
	}
	return "map[" + t.key + "]" + t.elem
}

var scalars = []string{"int", "string", "float64"}

// ---------------------------------------------------------------- shape

// one derive call of a chain; the flowing value is its first (fmap, filter, …: second) argument
type step struct {
	plugin string // Keys, Sort, Fmap, …
	name   string // function name
	bind   string // "local", "pkg", "nested", "end" (terminal: the result is discarded)
	twice  bool   // union / intersect / equal / compare: the flowing value is both arguments
	fixed  string // a second argument whose declared type does NOT follow the flow ("" = follows)
	alias  bool   // the result is copied into a second variable which the next step reads
}

type chain struct {
	start    string // "map", "slice", "mystery" (an undeclared non-derive function: never typed)
	steps    []step
	file     string
	idx      int
	startPkg bool // always true: start variables are package-level
}

type shape struct {
	chains []chain
	files  []string
}

// the type choices: per chain the start key/elem/value types, per fmap step the result element type
type choice struct {
	startElem map[int]string
	startVal  map[int]string
	fmapRes   map[string]string // "chain/step" -> elem
	startKind map[int]string    // "map" / "slice": only set where it differs from the chain's own start
}

func (c choice) clone() choice {
	n := choice{map[int]string{}, map[int]string{}, map[string]string{}, map[int]string{}}
	for k, v := range c.startKind {
		n.startKind[k] = v
	}
	for k, v := range c.startElem {
		n.startElem[k] = v
	}
	for k, v := range c.startVal {
		n.startVal[k] = v
	}
	for k, v := range c.fmapRes {
		n.fmapRes[k] = v
	}
	return n
}

// ---------------------------------------------------------------- typing rules of the plugins (for well-formed scenarios only;
// what a plugin really does for given types is MEASURED by vlib/regen.py on one-call packages)

// result type of a step on the flowing type cur; ok=false: not applicable
func apply(plugin string, cur ty, res string) (ty, bool) {
	switch plugin {
	case "Keys":
		if cur.kind == 2 {
			return slice(cur.key), true
		}
	case "Sort", "Unique", "Filter", "TakeWhile", "Union", "Intersect":
		if cur.kind == 1 {
			return cur, true
		}
	case "Fmap":
		if cur.kind == 1 {
			return slice(res), true
		}
		if cur.kind == 3 {
			return chanOf(res), true
		}
	case "Set":
		if cur.kind == 1 {
			return mapOf(cur.elem, "struct{}"), true
		}
	case "Min", "Max":
		if cur.kind == 1 {
			return scalar(cur.elem), true
		}
	case "Clone":
		return cur, true
	case "Equal":
		return scalar("bool"), true
	case "Compare":
		return scalar("int"), true
	case "Hash":
		return scalar("uint64"), true
	case "Contains", "Any", "All":
		if cur.kind == 1 {
			return scalar("bool"), true
		}
	}
	return ty{}, false
}

var producers = map[int][]string{
	1: {"Sort", "Unique", "Filter", "TakeWhile", "Union", "Intersect", "Fmap", "Fmap", "Fmap", "Set", "Min", "Max", "Clone"},
	2: {"Keys", "Keys", "Keys", "Clone"},
	0: {"Clone"},
	3: {"Fmap"},
}
var consumers = map[int][]string{
	1: {"Equal", "Equal", "Compare", "Hash", "Contains", "Contains", "Any", "All"},
	2: {"Equal", "Hash"},
	0: {"Equal", "Compare", "Hash"},
	3: {"Fmap"},
}

// ---------------------------------------------------------------- instantiation

type absArg struct {
	K string `json:"k,omitempty"`
	R string `json:"r,omitempty"`
}

type absCall struct {
	Name   string   `json:"name"`
	Plugin string   `json:"plugin"`
	Text   string   `json:"text"`
	Args   []absArg `json:"args"`
}

// an expression: a known identifier, a variable bound to a derive result, or a derive call
type expr struct {
	text  string
	known string   // Go type when typed by the user's declarations
	from  string   // name of the derive call (or mystery function) whose result types it
	call  *absCall // set when the expression IS a derive call
	sub   []expr   // argument expressions of the call
}

func (e expr) arg() absArg {
	if e.from != "" {
		return absArg{R: e.from}
	}
	return absArg{K: e.known}
}

// pre-order: the outer call first, then the calls nested in its arguments from left to right
func collect(e expr, out *[]absCall) {
	if e.call != nil {
		*out = append(*out, *e.call)
	}
	for _, s := range e.sub {
		collect(s, out)
	}
}

type version struct {
	Files    map[string]string `json:"files"`
	Calls    []absCall         `json:"calls"`
	Declared []string          `json:"declared"` // named types the sources declare
}

type inst struct {
	decls []string  // package-level declarations of the chain being instantiated, in order
	body  []string  // statements of its function
	calls []absCall // its calls in registration order
	nvar  int
	named map[string]bool
}

func zeroBody(t string) string { return "{ var z " + t + "; return z }" }

func (in *inst) fresh(p string) string {
	in.nvar++
	return fmt.Sprintf("%s%d", p, in.nvar)
}

func (in *inst) noteType(t string) {
	if t == "Heat" || t == "Temp" {
		in.named[t] = true
	}
}

func (in *inst) knownVar(t ty) expr {
	in.noteType(t.elem)
	in.noteType(t.key)
	v := in.fresh("w")
	in.decls = append(in.decls, fmt.Sprintf("var %s %s", v, t))
	return expr{text: v, known: t.String()}
}

func (in *inst) knownFunc(param, res string) expr {
	in.noteType(param)
	in.noteType(res)
	f := in.fresh("f")
	in.decls = append(in.decls, fmt.Sprintf("func %s(a %s) %s %s", f, param, res, zeroBody(res)))
	return expr{text: f, known: "func(" + param + ") " + res}
}

func mkCall(name, plugin string, args ...expr) expr {
	texts := make([]string, len(args))
	aa := make([]absArg, len(args))
	for i, a := range args {
		texts[i] = a.text
		aa[i] = a.arg()
	}
	text := name + "(" + strings.Join(texts, ", ") + ")"
	c := &absCall{Name: name, Plugin: plugin, Text: text, Args: aa}
	return expr{text: text, from: name, call: c, sub: args}
}

func parseTy(s string) ty {
	if strings.HasPrefix(s, "[]") {
		return slice(s[2:])
	}
	if strings.HasPrefix(s, "<-chan ") {
		return chanOf(s[7:])
	}
	if strings.HasPrefix(s, "map[") {
		i := strings.Index(s, "]")
		return mapOf(s[4:i], s[i+1:])
	}
	return scalar(s)
}

// Registration order: files by name; within a file by position. A chain is printed as one block: its
// package-level declarations (the steps bound to package-level variables come before the steps bound to
// local variables), then its function; the blocks of a file are printed in chain order. So the calls of a
// file are those of its chains in order, within a chain statement by statement, within a statement outer
// call first (collect).
func instantiate(sh shape, ch choice) version {
	in := &inst{named: map[string]bool{}}
	blocks := map[string][]string{}
	calls := map[string][]absCall{}
	for _, c := range sh.chains {
		in.decls, in.body, in.calls = nil, nil, nil
		var cur ty
		kind := c.start
		if k, ok := ch.startKind[c.idx]; ok {
			kind = k
		}
		if kind == "chan" {
			cur = chanOf(ch.startElem[c.idx])
		} else if kind == "map" {
			val := ch.startVal[c.idx]
			if val == "" {
				val = "int"
			}
			cur = mapOf(ch.startElem[c.idx], val)
		} else {
			cur = slice(ch.startElem[c.idx])
		}
		flow := in.knownVar(cur)
		if c.start == "mystery" {
			// the start value comes from a function that is declared nowhere and that no plugin generates
			v := in.fresh("u")
			in.body = append(in.body, fmt.Sprintf("%s := mystery%d(%s)", v, c.idx, flow.text), "_ = "+v)
			flow = expr{text: v, from: fmt.Sprintf("mystery%d", c.idx)}
		}
		for si, st := range c.steps {
			key := fmt.Sprintf("%d/%d", c.idx, si)
			next, applicable := apply(st.plugin, cur, ch.fmapRes[key])
			if !applicable {
				// a version in which the start variable is of another kind (or a step that is misapplied on
				// purpose): the plugin will refuse; the declarations that follow are made for the type as it is
				next = cur
			}
			var args []expr
			switch st.plugin {
			case "Keys", "Sort", "Unique", "Set", "Clone", "Hash":
				args = []expr{flow}
			case "Filter", "TakeWhile", "Any", "All":
				args = []expr{in.knownFunc(cur.elem, "bool"), flow}
			case "Fmap":
				args = []expr{in.knownFunc(cur.elem, ch.fmapRes[key]), flow}
			case "Union", "Intersect", "Equal", "Compare":
				switch {
				case st.twice:
					args = []expr{flow, flow}
				case st.fixed != "":
					args = []expr{flow, in.knownVar(parseTy(st.fixed))}
				default:
					args = []expr{flow, in.knownVar(cur)}
				}
			case "Min", "Max", "Contains":
				if st.fixed != "" {
					args = []expr{flow, in.knownVar(parseTy(st.fixed))}
				} else {
					args = []expr{flow, in.knownVar(scalar(cur.elem))}
				}
			}
			call := mkCall(st.name, st.plugin, args...)
			switch st.bind {
			case "nested":
				flow = call
			case "pkg":
				v := in.fresh("g")
				in.decls = append(in.decls, fmt.Sprintf("var %s = %s", v, call.text))
				collect(call, &in.calls)
				flow = expr{text: v, from: st.name}
			case "local":
				v := in.fresh("v")
				in.body = append(in.body, fmt.Sprintf("%s := %s", v, call.text), "_ = "+v)
				collect(call, &in.calls)
				flow = expr{text: v, from: st.name}
				if st.alias {
					v2 := in.fresh("v")
					in.body = append(in.body, fmt.Sprintf("%s := %s", v2, v), "_ = "+v2)
					flow = expr{text: v2, from: st.name}
				}
			case "end":
				in.body = append(in.body, "_ = "+call.text)
				collect(call, &in.calls)
				flow = expr{}
			}
			cur = next
		}
		if flow.call != nil {
			// the chain ends in a nested call that nobody consumed
			in.body = append(in.body, "_ = "+flow.text)
			collect(flow, &in.calls)
		}
		var b strings.Builder
		for _, d := range in.decls {
			b.WriteString(d + "\n\n")
		}
		fmt.Fprintf(&b, "func chain%d() {\n", c.idx)
		for _, s := range in.body {
			b.WriteString("\t" + s + "\n")
		}
		b.WriteString("}\n\n")
		blocks[c.file] = append(blocks[c.file], b.String())
		calls[c.file] = append(calls[c.file], in.calls...)
	}
	v := version{Files: map[string]string{}, Calls: []absCall{}, Declared: []string{}}
	for t := range in.named {
		v.Declared = append(v.Declared, t)
	}
	sort.Strings(v.Declared)
	for i, file := range sh.files {
		var b strings.Builder
		b.WriteString("package rg\n\n")
		if i == 0 {
			for _, t := range v.Declared {
				fmt.Fprintf(&b, "type %s float64\n\n", t)
			}
		}
		for _, blk := range blocks[file] {
			b.WriteString(blk)
		}
		v.Files[file] = b.String()
		v.Calls = append(v.Calls, calls[file]...)
	}
	return v
}

// ---------------------------------------------------------------- random shapes

type gen struct {
	r     *rand.Rand
	names map[string]string // plugin + "|" + argument types of the NEW version -> name
	used  map[string]bool
	feats map[string]bool
}

func (g *gen) pick(xs []string) string { return xs[g.r.Intn(len(xs))] }

func (g *gen) elem(allowNamed bool) string {
	if allowNamed && g.r.Intn(8) == 0 {
		return "Heat"
	}
	return g.pick(scalars)
}

// name of the function for (plugin, argument types): one name per pair, unless the scenario breaks it on purpose
func (g *gen) nameFor(plugin, sig, suffix string, deferred bool) string {
	k := plugin + "|" + sig
	if n, ok := g.names[k]; ok {
		if g.r.Intn(100) < 4 {
			g.feats["ambiguous-names"] = true
			return "derive" + plugin + suffix
		}
		g.feats["one-name-twice"] = true
		return n
	}
	n := "derive" + plugin + suffix
	if g.r.Intn(100) < 3 {
		// one name for two argument type lists of one plugin
		for k2, n2 := range g.names {
			if strings.HasPrefix(k2, plugin+"|") && (!deferred || !helperShaped(n2, plugin)) {
				g.feats["conflicting-name"] = true
				n = n2
				break
			}
		}
	}
	if !deferred && g.r.Intn(100) < 30 && !g.used["derive"+plugin] {
		n = "derive" + plugin
		g.feats["bare-prefix-name"] = true
	}
	g.used[n] = true
	g.names[k] = n
	return n
}

func helperShaped(name, plugin string) bool {
	return name == "derive"+plugin || strings.HasPrefix(name, "derive"+plugin+"_")
}

// builds one chain (shape and the type choices of the new version)
func (g *gen) chain(idx int, file string, depth int, ch *choice, forceNamed bool) chain {
	c := chain{idx: idx, file: file, startPkg: true}
	var cur ty
	switch {
	case g.r.Intn(100) < 3:
		c.start = "mystery"
		g.feats["never-typed-start"] = true
		ch.startElem[idx] = g.elem(false)
		cur = slice(ch.startElem[idx])
	case g.r.Intn(100) < 8 || (forceNamed && g.r.Intn(100) < 50):
		// a channel: only deriveFmap takes it further (a channel of the results)
		c.start = "chan"
		g.feats["channel-flow"] = true
		ch.startElem[idx] = g.elem(true)
		if forceNamed {
			ch.startElem[idx] = "Heat"
		}
		cur = chanOf(ch.startElem[idx])
	case g.r.Intn(100) < 45:
		c.start = "map"
		ch.startElem[idx] = g.elem(true)
		if forceNamed {
			ch.startElem[idx] = "Heat"
		}
		ch.startVal[idx] = g.pick([]string{"int", "string", "bool"})
		cur = mapOf(ch.startElem[idx], ch.startVal[idx])
	default:
		c.start = "slice"
		ch.startElem[idx] = g.elem(true)
		if forceNamed {
			ch.startElem[idx] = "Heat"
		}
		cur = slice(ch.startElem[idx])
	}
	pkgOK := c.start != "mystery"
	deferred := c.start == "mystery"
	for si := 0; si < depth; si++ {
		last := si == depth-1
		var plugin string
		misapplied := false
		if last && g.r.Intn(100) < 60 {
			plugin = g.pick(consumers[cur.kind])
		} else {
			plugin = g.pick(producers[cur.kind])
		}
		if last && (cur.kind == 1 || cur.kind == 2) && g.r.Intn(100) < 3 {
			// a plugin for maps on a slice / for slices on a map: Add accepts, Generate refuses
			plugin = map[int]string{1: "Keys", 2: g.pick([]string{"Sort", "Unique", "Set"})}[cur.kind]
			misapplied = true
			g.feats["misapplied-plugin"] = true
		}
		key := fmt.Sprintf("%d/%d", idx, si)
		if plugin == "Fmap" {
			ch.fmapRes[key] = g.elem(cur.kind == 3)
		}
		next, ok := apply(plugin, cur, ch.fmapRes[key])
		if !ok {
			if !misapplied {
				panic("inapplicable step " + plugin + " on " + cur.String())
			}
			next = cur
		}
		st := step{plugin: plugin}
		// the signature the name stands for, under the new version's types
		sig := cur.String()
		switch plugin {
		case "Fmap":
			sig = "func(" + cur.elem + ") " + ch.fmapRes[key] + "," + cur.String()
		case "Union", "Intersect", "Equal", "Compare":
			st.twice = g.r.Intn(100) < 25
			if !st.twice && g.r.Intn(100) < 12 {
				// a second argument whose declared type does not follow the flow: the type of the new version,
				// or another one (then the new version is rejected from scratch)
				st.fixed = cur.String()
				if g.r.Intn(100) < 35 {
					st.fixed = ty{cur.kind, g.pick(scalars), cur.key}.String()
				}
				g.feats["fixed-second-argument"] = true
			}
		case "Min", "Max", "Contains":
			if g.r.Intn(100) < 12 {
				st.fixed = cur.elem
				if g.r.Intn(100) < 35 {
					st.fixed = g.pick(scalars)
				}
				g.feats["fixed-second-argument"] = true
			}
		}
		st.name = g.nameFor(plugin, sig, fmt.Sprintf("C%dS%d", idx, si), deferred)
		isConsumer := next.kind == 0 && (plugin == "Equal" || plugin == "Compare" || plugin == "Hash" || plugin == "Contains" || plugin == "Any" || plugin == "All")
		switch {
		case last || isConsumer || misapplied:
			st.bind = "end"
			if !isConsumer && g.r.Intn(2) == 0 {
				st.bind = "nested" // printed as `_ = call` by instantiate
			}
		default:
			x := g.r.Intn(100)
			switch {
			case x < 35:
				st.bind = "nested"
			case x < 60 && pkgOK:
				st.bind = "pkg"
			default:
				st.bind = "local"
				pkgOK = false
				st.alias = g.r.Intn(100) < 15
			}
		}
		c.steps = append(c.steps, st)
		if st.bind == "nested" {
			g.feats["nested-call"] = true
		}
		if st.bind == "pkg" {
			g.feats["package-level-variable"] = true
		}
		cur = next
		deferred = true
		if st.bind == "end" {
			break
		}
	}
	return c
}

// ---------------------------------------------------------------- scenarios

type scenario struct {
	ID       string   `json:"id"`
	OldKind  string   `json:"old_kind"`
	Depth    int      `json:"depth"`
	Features []string `json:"features"`
	New      version  `json:"new"`
	Old      *version `json:"old"`      // nil: no old derived.gen.go
	OldDrop  []string `json:"old_drop"` // function declarations cut out of the old file
}

func depthOf(sh shape) int {
	d := 0
	for _, c := range sh.chains {
		if len(c.steps) > d {
			d = len(c.steps)
		}
	}
	return d
}

func (g *gen) retype(sh shape, ch choice) choice {
	n := ch.clone()
	other := func(cur string) string {
		for {
			x := g.pick(scalars)
			if x != cur {
				return x
			}
		}
	}
	changed := false
	for !changed {
		for _, c := range sh.chains {
			if g.r.Intn(100) < 50 {
				n.startElem[c.idx] = other(n.startElem[c.idx])
				changed = true
			}
			if c.start != "mystery" && len(c.steps) > 0 && c.steps[0].plugin == "Clone" && g.r.Intn(100) < 40 {
				// the start variable was of the other kind (a slice where it is a map now, or the reverse): Clone takes both
				cur := c.start
				if k, ok := n.startKind[c.idx]; ok {
					cur = k
				}
				if cur == "map" {
					n.startKind[c.idx] = "slice"
				} else {
					n.startKind[c.idx] = "map"
				}
				g.feats["start-kind-changed"] = true
				changed = true
			}
			for si, st := range c.steps {
				k := fmt.Sprintf("%d/%d", c.idx, si)
				if st.plugin == "Fmap" && g.r.Intn(100) < 50 {
					n.fmapRes[k] = other(n.fmapRes[k])
					changed = true
				}
			}
		}
	}
	return n
}

func rename(v version) version {
	n := version{Files: map[string]string{}, Calls: []absCall{}, Declared: []string{}}
	for _, c := range v.Calls {
		c2 := c
		c2.Args = nil
		for _, a := range c.Args {
			c2.Args = append(c2.Args, absArg{K: strings.ReplaceAll(a.K, "Heat", "Temp"), R: a.R})
		}
		n.Calls = append(n.Calls, c2)
	}
	for f, s := range v.Files {
		n.Files[f] = strings.ReplaceAll(s, "Heat", "Temp")
	}
	for _, d := range v.Declared {
		n.Declared = append(n.Declared, strings.ReplaceAll(d, "Heat", "Temp"))
	}
	return n
}

func (g *gen) scenario(id int) scenario {
	g.names = map[string]string{}
	g.used = map[string]bool{}
	g.feats = map[string]bool{}
	kinds := []string{"absent", "absent", "same", "same", "retyped", "retyped", "retyped", "retyped", "retyped", "retyped",
		"renamed", "extra", "extra", "missing", "missing", "retyped-dropped", "retyped-dropped", "same-dropped", "emptied"}
	kind := g.pick(kinds)
	files := []string{"a.go"}
	if g.r.Intn(100) < 30 {
		files = append(files, "b.go")
		g.feats["two-files"] = true
	}
	if g.r.Intn(100) < 15 {
		// a test file of the package itself: its calls are generated for as well, in every pass
		files = append(files, "z_test.go")
		g.feats["in-package-test-file"] = true
	}
	ch := choice{map[int]string{}, map[int]string{}, map[string]string{}, map[int]string{}}
	sh := shape{files: files}
	nchains := 1 + g.r.Intn(3)
	for i := 0; i < nchains; i++ {
		depth := 1 + g.r.Intn(4)
		if i == 0 && g.r.Intn(100) < 70 {
			depth = 2 + g.r.Intn(3)
		}
		sh.chains = append(sh.chains, g.chain(i, files[g.r.Intn(len(files))], depth, &ch, kind == "renamed" && i == 0))
	}
	sc := scenario{ID: fmt.Sprintf("s%d", id), OldKind: kind, Depth: depthOf(sh)}
	sc.New = instantiate(sh, ch)
	switch kind {
	case "emptied":
		// every derive call was removed: the old file is the output for the package as it was
		o := instantiate(sh, ch)
		sc.Old = &o
		sc.New = instantiate(shape{files: files}, ch)
		sc.Depth = 0
	case "absent":
	case "same", "same-dropped":
		o := instantiate(sh, ch)
		sc.Old = &o
	case "retyped", "retyped-dropped":
		o := instantiate(sh, g.retype(sh, ch))
		sc.Old = &o
	case "renamed":
		o := rename(instantiate(sh, ch))
		sc.Old = &o
	case "extra":
		osh := shape{files: files, chains: append([]chain{}, sh.chains...)}
		och := ch.clone()
		osh.chains = append(osh.chains, g.chain(len(sh.chains), files[g.r.Intn(len(files))], 1+g.r.Intn(3), &och, false))
		if g.r.Intn(2) == 0 {
			och = g.retype(osh, och)
			g.feats["extra-and-retyped"] = true
		}
		o := instantiate(osh, och)
		sc.Old = &o
	case "missing":
		osh := shape{files: files}
		drop := g.r.Intn(len(sh.chains))
		for i, c := range sh.chains {
			if i != drop || len(sh.chains) == 1 {
				osh.chains = append(osh.chains, c)
			}
		}
		if len(sh.chains) == 1 {
			// a single chain: the old sources had only its first call(s)
			c := osh.chains[0]
			keep := 1 + g.r.Intn(len(c.steps))
			c.steps = append([]step{}, c.steps[:keep]...)
			osh.chains[0] = c
		}
		och := ch
		if g.r.Intn(2) == 0 {
			och = g.retype(osh, ch)
			g.feats["missing-and-retyped"] = true
		}
		o := instantiate(osh, och)
		sc.Old = &o
	}
	if strings.HasSuffix(kind, "-dropped") || (sc.Old != nil && g.r.Intn(100) < 15) {
		// cut declarations of called functions out of the old file
		seen := map[string]bool{}
		var ns []string
		for _, c := range sc.Old.Calls {
			if !seen[c.Name] {
				seen[c.Name] = true
				ns = append(ns, c.Name)
			}
		}
		for _, n := range ns {
			if g.r.Intn(100) < 40 {
				sc.OldDrop = append(sc.OldDrop, n)
			}
		}
		if len(sc.OldDrop) == 0 && len(ns) > 0 {
			sc.OldDrop = []string{ns[g.r.Intn(len(ns))]}
		}
		g.feats["declarations-cut-out"] = true
	}
	if sc.OldDrop == nil {
		sc.OldDrop = []string{}
	}
	for f := range g.feats {
		sc.Features = append(sc.Features, f)
	}
	sort.Strings(sc.Features)
	if sc.Features == nil {
		sc.Features = []string{}
	}
	return sc
}

func main() {
	out := flag.String("out", "", "output directory")
	seed := flag.Int64("seed", 1, "seed")
	n := flag.Int("n", 0, "number of scenarios (default: 300, thorough 4000)")
	thorough := flag.Bool("thorough", false, "thorough tier")
	flag.String("harness", "", "ignored")
	flag.String("plugins", "", "ignored")
	flag.Parse()
	if *out == "" {
		fmt.Fprintln(os.Stderr, "genregen: -out is required")
		os.Exit(2)
	}
	if *n == 0 {
		*n = 300
		if *thorough {
			*n = 4000
		}
	}
	g := &gen{r: rand.New(rand.NewSource(*seed))}
	var scs []scenario
	stats := map[string]map[string]int{"old_kind": {}, "depth": {}, "features": {}, "calls": {}}
	for i := 0; i < *n; i++ {
		sc := g.scenario(i)
		scs = append(scs, sc)
		stats["old_kind"][sc.OldKind]++
		stats["depth"][fmt.Sprint(sc.Depth)]++
		stats["calls"][fmt.Sprint(len(sc.New.Calls))]++
		for _, f := range sc.Features {
			stats["features"][f]++
		}
	}
	if err := os.MkdirAll(*out, 0o755); err != nil {
		panic(err)
	}
	write := func(name string, v interface{}) {
		b, err := json.MarshalIndent(v, "", " ")
		if err != nil {
			panic(err)
		}
		if err := os.WriteFile(filepath.Join(*out, name), b, 0o644); err != nil {
			panic(err)
		}
	}
	write("scenarios.json", scs)
	write("stats.json", stats)
}
