// gennames is the tool of the C11/C12 checks (name conflicts/duplicates; prefix customisation).
//
//	gennames -mode t3    -out DIR -seed N [-thorough]       T3 op lines (ops.txt, stats.json)
//	gennames -mode cases -out DIR -seed N [-thorough] -prop C11|C12
//	                                                        tiny packages as cases.jsonl + the Lean driver's lines (model_ops.txt)
//	gennames -mode run   -out DIR -goderive BIN [-jobs N]   runs the real goderive on every (case, variant) of DIR/cases.jsonl
//	                                                        in fresh temporary copies; writes DIR/obs.jsonl
//	gennames -mode one   -case FILE -variant a|d|ad|- -goderive BIN [-keep DIR]   replays one case (prints the observation)
//	gennames -mode facts -repo /repo                        T4 facts as JSON
//
// It also accepts the common corpus flags (-harness, -plugins), which it ignores.
package main

import (
	"bufio"
	"encoding/json"
	"flag"
	"fmt"
	"math/rand"
	"os"
	"path/filepath"
	"runtime"
	"sync"

	"verifharness/names"
)

var (
	mode     = flag.String("mode", "cases", "t3 | cases | run | one | facts")
	out      = flag.String("out", "", "output directory")
	seed     = flag.Int64("seed", 1, "PRNG seed")
	thorough = flag.Bool("thorough", false, "thorough tier")
	prop     = flag.String("prop", "C11", "C11 | C12")
	goderive = flag.String("goderive", "", "path of the goderive binary")
	jobs     = flag.Int("jobs", runtime.NumCPU(), "parallel goderive runs")
	caseFile = flag.String("case", "", "case JSON file (mode one)")
	variant  = flag.String("variant", "-", "variant of mode one: - a d ad")
	keep     = flag.String("keep", "", "mode one: directory to materialise the package in (kept)")
	repo     = flag.String("repo", "/repo", "goderive source tree (mode facts)")
	_        = flag.String("harness", "", "ignored")
	_        = flag.String("plugins", "", "ignored")
)

func must(err error) {
	if err != nil {
		fmt.Fprintln(os.Stderr, err)
		os.Exit(2)
	}
}

func writeLines(path string, lines []string) {
	f, err := os.Create(path)
	must(err)
	w := bufio.NewWriterSize(f, 1<<20)
	for _, l := range lines {
		w.WriteString(l)
		w.WriteByte('\n')
	}
	must(w.Flush())
	must(f.Close())
}

func writeJSON(path string, v interface{}) {
	b, err := json.MarshalIndent(v, "", " ")
	must(err)
	must(os.WriteFile(path, b, 0o644))
}

func main() {
	flag.Parse()
	r := rand.New(rand.NewSource(*seed))
	switch *mode {
	case "t3":
		must(os.MkdirAll(*out, 0o755))
		lines, st := names.T3Lines(r, *thorough)
		writeLines(filepath.Join(*out, "ops.txt"), lines)
		writeJSON(filepath.Join(*out, "stats.json"), st)
	case "cases":
		must(os.MkdirAll(*out, 0o755))
		var cases []*names.Case
		switch *prop {
		case "C11":
			k, n := 3, 300
			if *thorough {
				k, n = 4, 3000
			}
			cases = append(cases, names.ExhaustiveC11(r, k, *thorough)...)
			cases = append(cases, names.RandomC11(r, n)...)
			ni := 0 // the random part of the imported stream runs in the thorough tier only
			if *thorough {
				ni = n
			}
			cases = append(cases, names.ImportedC11(r, ni)...)
			cases = append(cases, names.PendingC11()...)
			cases = append(cases, names.AutonameAcrossPasses()...)
			cases = append(cases, names.ChanC11(r)...)
			cases = append(cases, names.StaleC11()...)
			cases = append(cases, names.HandWrittenOverStaleC11()...)
			cases = append(cases, names.TagsC11(r)...)
			cases = append(cases, names.IfaceC11(r)...)
			cases = append(cases, names.UntypedC11(r)...)
			cases = append(cases, names.TestFileC11()...)
			cases = append(cases, names.MethodsC11(r)...)
			cases = append(cases, names.TwoPackagesC11()...)
		case "C12":
			n, m := 30, 300
			if *thorough {
				n, m = 300, 3000
			}
			cases = append(cases, names.RichC12(r, n)...)
			cases = append(cases, names.NestedC12(r, n)...)
			cases = append(cases, names.WeirdC12(r, 3*n)...)
			cases = append(cases, names.MultiC12(r, n)...)
			cases = append(cases, names.FixedC12()...)
			cases = append(cases, names.DotImportC12()...)
			cases = append(cases, names.CaptureC12(r, m)...)
			cases = append(cases, names.F13Case())
		default:
			must(fmt.Errorf("unknown -prop %s", *prop))
		}
		f, err := os.Create(filepath.Join(*out, "cases.jsonl"))
		must(err)
		w := bufio.NewWriterSize(f, 1<<20)
		var ops []string
		stats := map[string]int{}
		calls := map[int]int{}
		for _, c := range cases {
			b, err := json.Marshal(c)
			must(err)
			w.Write(b)
			w.WriteByte('\n')
			stats[c.Stream]++
			nc := 0
			for _, fl := range c.Files {
				nc += len(fl.Calls)
			}
			calls[nc]++
			if len(c.Reserved) > 0 {
				stats["with_reserved"]++
			}
			if len(c.Files) > 1 {
				stats["two_files"]++
			}
			for _, v := range c.Variants {
				ops = append(ops, c.ModelLine(c.ID+"/"+v.String(), v))
			}
		}
		must(w.Flush())
		must(f.Close())
		writeLines(filepath.Join(*out, "model_ops.txt"), ops)
		writeJSON(filepath.Join(*out, "stats.json"), map[string]interface{}{"cases": stats, "calls_per_case": calls, "runs": len(ops)})
	case "run":
		runAll()
	case "one":
		b, err := os.ReadFile(*caseFile)
		must(err)
		var c names.Case
		must(json.Unmarshal(b, &c))
		v := names.Variant{}
		for _, ch := range *variant {
			switch ch {
			case 'a':
				v.Autoname = true
			case 'd':
				v.Dedup = true
			}
		}
		dir := *keep
		if dir == "" {
			d, err := os.MkdirTemp("", "gennames-one-")
			must(err)
			defer os.RemoveAll(d)
			dir = filepath.Join(d, "w")
		} else {
			must(os.RemoveAll(dir))
		}
		obs, err := names.RunCase(*goderive, &c, v, dir)
		must(err)
		fmt.Println(c.ModelLine(c.ID+"/"+v.String(), v))
		ob, _ := json.Marshal(obs)
		fmt.Println(string(ob))
	case "facts":
		fs, err := names.ExtractFacts(*repo)
		must(err)
		b, _ := json.MarshalIndent(fs, "", " ")
		fmt.Println(string(b))
	default:
		must(fmt.Errorf("unknown mode %s", *mode))
	}
}

func runAll() {
	f, err := os.Open(filepath.Join(*out, "cases.jsonl"))
	must(err)
	defer f.Close()
	type job struct {
		c *names.Case
		v names.Variant
		i int
	}
	var js []job
	sc := bufio.NewScanner(f)
	sc.Buffer(make([]byte, 1<<20), 1<<26)
	for sc.Scan() {
		c := &names.Case{}
		must(json.Unmarshal(sc.Bytes(), c))
		for _, v := range c.Variants {
			js = append(js, job{c, v, len(js)})
		}
	}
	must(sc.Err())
	tmp, err := os.MkdirTemp("", "gennames-run-")
	must(err)
	defer os.RemoveAll(tmp)
	res := make([][]byte, len(js))
	ch := make(chan job)
	var wg sync.WaitGroup
	var mu sync.Mutex
	var firstErr error
	for w := 0; w < *jobs; w++ {
		wg.Add(1)
		go func() {
			defer wg.Done()
			for j := range ch {
				dir := filepath.Join(tmp, fmt.Sprintf("j%d", j.i))
				obs, err := names.RunCase(*goderive, j.c, j.v, dir)
				os.RemoveAll(dir)
				if err != nil {
					mu.Lock()
					if firstErr == nil {
						firstErr = err
					}
					mu.Unlock()
					continue
				}
				b, _ := json.Marshal(obs)
				res[j.i] = b
			}
		}()
	}
	for _, j := range js {
		ch <- j
	}
	close(ch)
	wg.Wait()
	must(firstErr)
	o, err := os.Create(filepath.Join(*out, "obs.jsonl"))
	must(err)
	w := bufio.NewWriterSize(o, 1<<20)
	for _, b := range res {
		w.Write(b)
		w.WriteByte('\n')
	}
	must(w.Flush())
	must(o.Close())
}
