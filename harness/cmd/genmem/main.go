// genmem writes the C18 (Mem) corpus: signatures with 0..3 parameters and 0..3 results over
// comparable and non-comparable types spread over small packages q<N> (one deriveMem call per
// signature), a driver program that plays whole call SEQUENCES against `deriveMem…(f)` with an
// instrumented deterministic f, and the op lines.
//
//	op <id> memseq G<k> (<a0> <a1> …) (<a0> <a1> …) …     one parenthesised argument tuple per call
//	op <id> memraw G<k> …                                  same, with an f that tells +0 from -0
//
// answer: <results of call 0>;<results of call 1>;…|<i>:<args of the i-th call that reached f>,…
package main

import (
	"flag"
	"fmt"
	"math"
	"math/rand"
	"os"
	"path/filepath"
	"sort"
	"strings"

	"verifharness/gen"
	"verifharness/ty"
)

var (
	out      = flag.String("out", "", "output directory")
	seed     = flag.Int64("seed", 1, "PRNG seed")
	thorough = flag.Bool("thorough", false, "thorough tier")
	harness  = flag.String("harness", "/verif/harness", "path of the verifharness module")
	_        = flag.String("plugins", "mem", "ignored (always mem)")
)

func must(err error) {
	if err != nil {
		fmt.Fprintln(os.Stderr, err)
		os.Exit(2)
	}
}

func write(path, s string) {
	must(os.MkdirAll(filepath.Dir(path), 0o755))
	must(os.WriteFile(path, []byte(s), 0o644))
}

// errTy stands for Go's `error` as a result type: the model sees a *string (nil = no error, otherwise the
// message); only the Go spelling and the way the instrumented f builds it differ.
var errTy = ty.P(ty.B("string"))

func goT(env *ty.Env, t *ty.Ty) string {
	if t == errTy {
		return "error"
	}
	return t.Go(env, "main")
}

type sig struct {
	k      int
	params []*ty.Ty
	res    []*ty.Ty
	shape  string
	pkg    int
}

func tupleWire(ts []*ty.Ty) string {
	var sb strings.Builder
	sb.WriteString("(st")
	for _, t := range ts {
		sb.WriteString(" " + t.Wire())
	}
	sb.WriteString(")")
	return sb.String()
}

// shapeOf mirrors the dispatch of plugin/mem genFunc.
func shapeOf(env *ty.Env, ps []*ty.Ty) string {
	if len(ps) == 0 {
		return "flag"
	}
	all := true
	for _, p := range ps {
		if !env.CanEqual(p) {
			all = false
		}
	}
	if len(ps) == 1 && all {
		return "single"
	}
	if all {
		return "input"
	}
	return "bucket"
}

// resExpr is the Go expression (as seen from package main) of result j of the instrumented f for a
// result of type t, from the digest expression d. Mirrored by `mkRes` in Driver/OpsMem.lean.
func resExpr(env *ty.Env, t *ty.Ty, d string, j int) string {
	if t == errTy {
		return fmt.Sprintf("rt.MemResErr(%s, %d)", d, j)
	}
	gt := t.Go(env, "main")
	u := env.Under(t)
	switch u.K {
	case ty.Basic:
		switch u.B {
		case "int", "int64":
			return fmt.Sprintf("%s(rt.MemResInt(%s, %d))", gt, d, j)
		case "string":
			return fmt.Sprintf("%s(rt.MemResStr(%s, %d))", gt, d, j)
		case "bool":
			return fmt.Sprintf("%s(rt.MemResBool(%s, %d))", gt, d, j)
		case "float64":
			return fmt.Sprintf("%s(rt.MemResF64(%s, %d))", gt, d, j)
		}
	case ty.Struct:
		var fs []string
		for _, f := range u.Fields {
			fs = append(fs, f.Name+": "+resExpr(env, f.T, d, j))
		}
		return gt + "{" + strings.Join(fs, ", ") + "}"
	case ty.Slice:
		return fmt.Sprintf("func() %s { if rt.MemNil(%s, %d, 3) { return nil }; return %s{%s, %s} }()", gt, d, j, gt,
			resExpr(env, u.Elem, d, j), resExpr(env, u.Elem, "("+d+"+1)", j))
	case ty.Ptr:
		return fmt.Sprintf("func() %s { if rt.MemNil(%s, %d, 4) { return nil }; x := %s; return &x }()", gt, d, j,
			resExpr(env, u.Elem, d, j))
	}
	panic("genmem: unsupported result type " + t.Wire())
}

func hasFloat(env *ty.Env, t *ty.Ty) bool {
	f := false
	gen.Walk(env, t, gen.CtxTop, map[int]bool{}, func(x *ty.Ty, ctx int) {
		if x.K == ty.Basic && (x.B == "float64" || x.B == "float32" || x.B == "complex128" || x.B == "complex64") {
			f = true
		}
	})
	return f
}

func iv(n int64) *ty.Val     { return &ty.Val{K: ty.VInt, Int: fmt.Sprint(n)} }
func sv(s string) *ty.Val    { return &ty.Val{K: ty.VStr, Str: []byte(s)} }
func fv(bits uint64) *ty.Val { return &ty.Val{K: ty.VFlt, W: 64, Bits: bits} }
func sl(es ...*ty.Val) *ty.Val {
	return &ty.Val{K: ty.VSlice, Elems: es}
}
func st(es ...*ty.Val) *ty.Val { return &ty.Val{K: ty.VStruct, Elems: es} }
func nilv() *ty.Val            { return &ty.Val{K: ty.VNil} }

// colliding returns two values of type t that derived Equal tells apart but derived Hash does not
// (templates; instantiate with VGen.Inst), or nil when no such pair is known for the type.
//   - strings hash by folding runes, and every invalid UTF-8 byte decodes to U+FFFD
//   - sequences hash as 31-weighted sums: 31*a + b = 31*(a+1) + (b-31)
func colliding(env *ty.Env, t *ty.Ty) []*ty.Val { return collidingD(env, t, 3) }

func collidingD(env *ty.Env, t *ty.Ty, depth int) []*ty.Val {
	if depth == 0 {
		return nil
	}
	u := env.Under(t)
	switch u.K {
	case ty.Basic:
		if u.B == "string" {
			return []*ty.Val{sv("\xff"), sv("\xfe")}
		}
	case ty.Slice:
		eu := env.Under(u.Elem)
		if eu.K == ty.Basic {
			switch eu.B {
			case "int":
				return []*ty.Val{sl(iv(0), iv(31)), sl(iv(1), iv(0))}
			case "string":
				return []*ty.Val{sl(sv("\xff")), sl(sv("\xfe"))}
			case "float64":
				b := math.Float64bits(1.5)
				return []*ty.Val{sl(fv(0), fv(b)), sl(fv(1), fv(b-31))}
			case "byte", "uint8":
				return []*ty.Val{sl(iv(0), iv(31)), sl(iv(1), iv(0))}
			}
		}
		// a list of one element each, the elements colliding
		if in := collidingD(env, u.Elem, depth-1); in != nil {
			return []*ty.Val{sl(in[0]), sl(in[1])}
		}
	case ty.Ptr:
		if in := collidingD(env, u.Elem, depth-1); in != nil {
			return []*ty.Val{{K: ty.VPtr, Elems: []*ty.Val{in[0]}}, {K: ty.VPtr, Elems: []*ty.Val{in[1]}}}
		}
	case ty.Map:
		if ku, vu := env.Under(u.Key), env.Under(u.Elem); ku.K == ty.Basic && ku.B == "int" && (vu.K == ty.Slice || vu.K == ty.Ptr || vu.K == ty.Map) {
			// equal length, different keys, every value nil: 31^3*1 + 31*1000 = 31^3*2 + 31*39 (a lookup that takes a
			// missing key for a stored nil calls these two maps equal)
			return []*ty.Val{{K: ty.VMap, Elems: []*ty.Val{iv(1), nilv(), iv(1000), nilv()}}, {K: ty.VMap, Elems: []*ty.Val{iv(2), nilv(), iv(39), nilv()}}}
		}
		if env.Under(u.Key).K == ty.Basic && env.Under(u.Key).B == "string" {
			return []*ty.Val{{K: ty.VMap, Elems: []*ty.Val{sv("\xff"), iv(1)}}, {K: ty.VMap, Elems: []*ty.Val{sv("\xfe"), iv(1)}}}
		}
	case ty.Struct:
		// vary the first field that has a colliding pair, base values elsewhere
		for i, f := range u.Fields {
			if in := collidingD(env, f.T, depth-1); in != nil {
				mk := func(x *ty.Val) *ty.Val {
					es := make([]*ty.Val, len(u.Fields))
					for j, g := range u.Fields {
						es[j] = zeroOf(env, g.T)
					}
					es[i] = x
					return st(es...)
				}
				return []*ty.Val{mk(in[0]), mk(in[1])}
			}
		}
	}
	return nil
}

func zeroOf(env *ty.Env, t *ty.Ty) *ty.Val {
	u := env.Under(t)
	switch u.K {
	case ty.Basic:
		switch u.B {
		case "bool":
			return &ty.Val{K: ty.VBool}
		case "string":
			return sv("")
		case "float64":
			return fv(0)
		case "float32":
			return &ty.Val{K: ty.VFlt, W: 32}
		case "complex128":
			return &ty.Val{K: ty.VCplx, W: 64}
		case "complex64":
			return &ty.Val{K: ty.VCplx, W: 32}
		}
		return iv(0)
	case ty.Struct:
		es := make([]*ty.Val, len(u.Fields))
		for j, g := range u.Fields {
			es[j] = zeroOf(env, g.T)
		}
		return st(es...)
	case ty.Array:
		es := make([]*ty.Val, u.N)
		for j := range es {
			es[j] = zeroOf(env, u.Elem)
		}
		return &ty.Val{K: ty.VArr, Elems: es}
	}
	return nilv()
}

type tuple []*ty.Val

func (t tuple) wire() string {
	ws := make([]string, len(t))
	for i, v := range t {
		ws[i] = v.Wire()
	}
	return "(" + strings.Join(ws, " ") + ")"
}

func main() {
	flag.Parse()
	rng := rand.New(rand.NewSource(*seed))
	env := gen.Lib()
	b := ty.B
	n := ty.N

	// ---- parameter and result type universes
	comparable := []*ty.Ty{b("int"), b("string"), b("float64"), b("bool"), n(0), n(1), n(2), n(3), n(5), n(15)}
	noncomp := []*ty.Ty{ty.Sl(b("int")), ty.P(n(5)), ty.M(b("string"), b("int")), n(6), ty.Sl(b("float64")), ty.Sl(b("string")),
		// a bool-keyed map (hashed over its sorted keys like any other) and a map with nil-able values
		ty.M(b("bool"), ty.Sl(b("string"))), ty.M(b("int"), ty.Sl(b("string"))),
		// imported structs with unexported fields (incl. names starting with an underscore): arguments that differ only
		// there are different arguments
		n(28), n(18),
		// byte slices, alone and as elements (a memo keyed by string(bytes) cannot tell nil from empty; an Equal that
		// looks at the elements' nil-ness only calls different contents equal)
		ty.Sl(b("byte")), ty.Sl(ty.Sl(b("byte"))), n(22),
		// a map keyed by an imported struct with an unexported field: keys that agree on the exported fields are
		// different keys, and the hash of the map must not depend on the order the map hands them out
		ty.M(n(21), b("int"))}
	if *thorough {
		comparable = append(comparable, n(14), ty.Ar(2, b("string")), b("int8"), b("uint64"), b("complex128"), n(21))
		noncomp = append(noncomp, n(11), n(12), n(13), ty.P(b("int")), ty.Sl(n(5)), ty.P(n(6)), ty.M(b("int"), ty.Sl(b("int"))), n(7))
	}
	resKinds := []*ty.Ty{b("int"), b("string"), b("bool"), b("float64"), n(0), n(5), ty.Sl(b("int")), ty.P(n(5))}

	// ---- parameter lists
	var plists [][]*ty.Ty
	seenPL := map[string]bool{}
	addPL := func(ps ...*ty.Ty) {
		w := tupleWire(ps)
		if !seenPL[w] {
			seenPL[w] = true
			plists = append(plists, ps)
		}
	}
	pick := func(ts []*ty.Ty) *ty.Ty { return ts[rng.Intn(len(ts))] }
	addPL()
	for _, t := range comparable {
		addPL(t)
	}
	for _, t := range noncomp {
		addPL(t)
	}
	addPL(b("int"), b("string"))
	addPL(b("float64"), n(5))
	addPL(n(2), b("bool"))
	addPL(b("int"), b("int"))
	// only strings: a key made by joining the parameters is not injective
	addPL(b("string"), b("string"))
	addPL(b("string"), b("string"), b("string"))
	nCC, nMix, nNN, n3C, n3M := 6, 1, 4, 4, 8
	if *thorough {
		nCC, nMix, nNN, n3C, n3M = 30, 3, 20, 20, 40
	}
	for i := 0; i < nCC; i++ {
		addPL(pick(comparable), pick(comparable))
	}
	for _, t := range noncomp {
		for i := 0; i < nMix; i++ {
			addPL(t, pick(comparable))
			addPL(pick(comparable), t)
		}
	}
	for i := 0; i < nNN; i++ {
		addPL(pick(noncomp), pick(noncomp))
	}
	addPL(b("int"), b("string"), b("float64"))
	addPL(b("int"), b("int"), b("int"))
	for i := 0; i < n3C; i++ {
		addPL(pick(comparable), pick(comparable), pick(comparable))
	}
	for i := 0; i < n3M; i++ {
		ps := []*ty.Ty{pick(comparable), pick(comparable), pick(comparable)}
		ps[rng.Intn(3)] = pick(noncomp)
		if rng.Intn(3) == 0 {
			ps[rng.Intn(3)] = pick(noncomp)
		}
		addPL(ps...)
	}

	// ---- signatures: every parameter list x result arities 0..3
	var sigs []*sig
	perPkg := 12
	for _, ps := range plists {
		for ar := 0; ar <= 3; ar++ {
			rs := make([]*ty.Ty, ar)
			for j := range rs {
				rs[j] = pick(resKinds)
			}
			s := &sig{k: len(sigs), params: ps, res: rs, shape: shapeOf(env, ps)}
			s.pkg = s.k / perPkg
			sigs = append(sigs, s)
		}
		// a last result of type error (alone, or after one or two values): failures are results like any other
		if nErr := len(ps) % 3; true {
			rs := make([]*ty.Ty, nErr+1)
			for j := range rs {
				rs[j] = pick(resKinds)
			}
			rs[nErr] = errTy
			s := &sig{k: len(sigs), params: ps, res: rs, shape: shapeOf(env, ps)}
			s.pkg = s.k / perPkg
			sigs = append(sigs, s)
		}
	}
	// the zero-argument form with ONE result that can be nil (and is: the digest of the empty argument tuple makes
	// MemNil true at position 0): a nil answer is an answer, f is not asked again
	for _, rt1 := range []*ty.Ty{ty.Sl(b("int")), ty.P(n(5)), n(11), ty.P(b("int"))} {
		s := &sig{k: len(sigs), params: nil, res: []*ty.Ty{rt1}, shape: shapeOf(env, nil)}
		s.pkg = s.k / perPkg
		sigs = append(sigs, s)
	}
	npkgs := (len(sigs) + perPkg - 1) / perPkg

	// ---- ext, p
	var ext strings.Builder
	ext.WriteString("// Package ext holds the imported declarations of the corpus.\npackage ext\n\n")
	for _, d := range env.Decls {
		if d.Pkg == "ext" {
			fmt.Fprintf(&ext, "type %s %s\n", d.Name, d.Under.Go(env, "ext"))
		}
	}
	write(filepath.Join(*out, "ext", "ext.go"), ext.String())
	var p strings.Builder
	p.WriteString("package p\n\nimport \"corpus/ext\"\n\nvar _ ext.XN\n\n")
	for _, d := range env.Decls {
		if d.Pkg == "" {
			fmt.Fprintf(&p, "type %s %s\n", d.Name, d.Under.Go(env, ""))
		}
	}
	write(filepath.Join(*out, "p", "p.go"), p.String())

	// ---- prelude
	var prelude strings.Builder
	for _, d := range env.Decls {
		flags := ""
		if d.Pkg != "" {
			flags += "e"
		}
		if d.Priv {
			flags += "p"
		}
		if d.Under.K == ty.Struct {
			flags += "m"
			for _, f := range d.Under.Fields {
				if f.Name[0] >= 'a' && f.Name[0] <= 'z' {
					flags += "1"
				} else {
					flags += "0"
				}
			}
		}
		if flags == "" {
			flags = "-"
		}
		fmt.Fprintf(&prelude, "decl %s %s\n", flags, d.Under.Wire())
	}

	// ---- q packages and main.go
	qs := make([]*strings.Builder, npkgs)
	for i := range qs {
		qs[i] = &strings.Builder{}
		fmt.Fprintf(qs[i], "package q%d\n\nimport (\n\t\"corpus/ext\"\n\t\"corpus/p\"\n)\n\nvar _ ext.XN\nvar _ p.NI\n", i)
	}
	var m strings.Builder
	stats := map[string]int{}
	for _, s := range sigs {
		var pts, rts, pdecl, pnames []string
		for i, t := range s.params {
			pts = append(pts, t.Go(env, "main"))
			pdecl = append(pdecl, fmt.Sprintf("p%d %s", i, t.Go(env, "main")))
			pnames = append(pnames, fmt.Sprintf("p%d", i))
		}
		for _, t := range s.res {
			rts = append(rts, goT(env, t))
		}
		resStr := strings.Join(rts, ", ")
		if len(rts) > 1 {
			resStr = "(" + resStr + ")"
		}
		ft := fmt.Sprintf("func(%s) %s", strings.Join(pts, ", "), resStr)
		fmt.Fprintf(qs[s.pkg], "\n// G%d: shape %s\nfunc New_%d(f %s) %s { return deriveMem_%d(f) }\n", s.k, s.shape, s.k, ft, ft, s.k)

		fmt.Fprintf(&prelude, "ty G%d %s\nty G%dr %s\n", s.k, tupleWire(s.params), s.k, tupleWire(s.res))
		stats["shape:"+s.shape]++
		stats[fmt.Sprintf("sig:%s/params%d/res%d", s.shape, len(s.params), len(s.res))]++

		fmt.Fprintf(&m, "\t{\n")
		for i, gt := range pts {
			fmt.Fprintf(&m, "\t\ttp%d := reflect.TypeOf((*%s)(nil)).Elem()\n", i, gt)
		}
		fmt.Fprintf(&m, "\t\tplay := func(raw bool) rt.OpFunc {\n\t\t\treturn func(c *rt.Ctx, a []*rt.SExp) string {\n")
		fmt.Fprintf(&m, "\t\t\t\tlg := &rt.MemLog{Raw: raw}\n\t\t\t\tout := &rt.MemOut{}\n")
		fmt.Fprintf(&m, "\t\t\t\tf := func(%s) %s {\n\t\t\t\t\td := lg.Call(%s)\n\t\t\t\t\t_ = d\n", strings.Join(pdecl, ", "), resStr, strings.Join(pnames, ", "))
		var rex []string
		for j, t := range s.res {
			rex = append(rex, resExpr(env, t, "d", j))
		}
		if len(rex) > 0 {
			fmt.Fprintf(&m, "\t\t\t\t\treturn %s\n", strings.Join(rex, ", "))
		}
		fmt.Fprintf(&m, "\t\t\t\t}\n\t\t\t\tm := q%d.New_%d(f)\n", s.pkg, s.k)
		fmt.Fprintf(&m, "\t\t\t\tfor i, call := range a {\n\t\t\t\t\tlg.Idx = i\n\t\t\t\t\t_ = call\n")
		for i, gt := range pts {
			fmt.Fprintf(&m, "\t\t\t\t\tp%d := c.Build(tp%d, call.List[%d]).Interface().(%s)\n", i, i, i, gt)
		}
		var rn []string
		for j := range s.res {
			rn = append(rn, fmt.Sprintf("r%d", j))
		}
		if len(rn) > 0 {
			fmt.Fprintf(&m, "\t\t\t\t\t%s := m(%s)\n", strings.Join(rn, ", "), strings.Join(pnames, ", "))
		} else {
			fmt.Fprintf(&m, "\t\t\t\t\tm(%s)\n", strings.Join(pnames, ", "))
		}
		fmt.Fprintf(&m, "\t\t\t\t\tout.Add(%s)\n\t\t\t\t}\n", strings.Join(rn, ", "))
		fmt.Fprintf(&m, "\t\t\t\treturn out.String() + \"|\" + lg.String()\n\t\t\t}\n\t\t}\n")
		fmt.Fprintf(&m, "\t\trt.Reg(\"memseq\", \"G%d\", play(false))\n\t\trt.Reg(\"memraw\", \"G%d\", play(true))\n\t}\n", s.k, s.k)
	}
	var pkgs []string
	var mh strings.Builder
	mh.WriteString("package main\n\nimport (\n\t\"reflect\"\n\n\t\"corpus/ext\"\n\t\"corpus/p\"\n")
	for i, q := range qs {
		write(filepath.Join(*out, fmt.Sprintf("q%d", i), "q.go"), q.String())
		fmt.Fprintf(&mh, "\t\"corpus/q%d\"\n", i)
		pkgs = append(pkgs, fmt.Sprintf("q%d", i))
	}
	mh.WriteString("\t\"verifharness/rt\"\n)\n\nvar _ ext.XN\nvar _ p.NI\nvar _ reflect.Type\n\nfunc main() { rt.Main() }\n\nfunc init() {\n")
	write(filepath.Join(*out, "main.go"), mh.String()+m.String()+"}\n")
	write(filepath.Join(*out, "pkgs.txt"), strings.Join(pkgs, " ")+"\n")
	write(filepath.Join(*out, "prelude.txt"), prelude.String())
	write(filepath.Join(*out, "go.mod"), fmt.Sprintf("module corpus\n\ngo 1.24\n\nrequire verifharness v0.0.0\n\nreplace verifharness => %s\n", *harness))

	// ---- call sequences
	opsf, err := os.Create(filepath.Join(*out, "ops.txt"))
	must(err)
	id := 0
	emit := func(op string, s *sig, kind string, calls []tuple) {
		id++
		ws := make([]string, len(calls))
		for i, c := range calls {
			ws[i] = c.wire()
		}
		fmt.Fprintf(opsf, "op %d %s G%d %s\n", id, op, s.k, strings.Join(ws, " "))
		stats["ops:"+op]++
		stats["seq:"+kind]++
		stats["calls"] += len(calls)
		l := len(calls)
		switch {
		case l <= 2:
			stats["len:0-2"]++
		case l <= 5:
			stats["len:3-5"]++
		case l <= 10:
			stats["len:6-10"]++
		default:
			stats["len:11+"]++
		}
	}
	vg := gen.NewVGen(env, rng, 10)
	maxLen, nRandom := 10, 3
	if *thorough {
		maxLen, nRandom = 40, 10
	}
	for _, s := range sigs {
		np := len(s.params)
		if np == 0 {
			for _, l := range []int{0, 1, 2, 5} {
				calls := make([]tuple, l)
				for i := range calls {
					calls[i] = tuple{}
				}
				emit("memseq", s, "noargs", calls)
			}
			continue
		}
		pools := make([][]*ty.Val, np)
		for i, t := range s.params {
			pools[i] = vg.Pool(t)
		}
		// distinct templates: the base tuple, one-position variations, all-random tuples
		var tmpl []tuple
		base := make(tuple, np)
		for i := range base {
			base[i] = pools[i][0]
		}
		tmpl = append(tmpl, base)
		for i := 0; i < np; i++ {
			t := append(tuple(nil), base...)
			t[i] = pools[i][1+rng.Intn(len(pools[i])-1)]
			tmpl = append(tmpl, t)
		}
		for k := 0; k < 3; k++ {
			t := make(tuple, np)
			for i := range t {
				t[i] = pools[i][rng.Intn(len(pools[i]))]
			}
			tmpl = append(tmpl, t)
		}
		inst := func(t tuple) tuple {
			o := make(tuple, len(t))
			for i, v := range t {
				o[i] = vg.Inst(v)
			}
			return o
		}
		// an Equal-but-not-identical copy: per argument a random identity-only variant
		variant := func(t tuple) tuple {
			o := make(tuple, len(t))
			for i, v := range t {
				vs := vg.EqVariants(v)
				o[i] = vs[rng.Intn(len(vs))]
			}
			return o
		}
		vals := make([]tuple, len(tmpl))
		for i, t := range tmpl {
			vals[i] = inst(t)
		}
		t0, t1, t2 := vals[0], vals[1], vals[len(vals)-1]
		emit("memseq", s, "repeat", []tuple{t0, t0, t0})
		emit("memseq", s, "interleave", []tuple{t0, t1, t0, t2, t1, t2, t0})
		emit("memseq", s, "eqvariant", []tuple{t0, variant(t0), t1, variant(t0), variant(t1), t0})
		// signed zeros: an argument tuple with every zero float flipped is Equal / == to the original
		hasF := false
		for _, t := range s.params {
			if hasFloat(env, t) {
				hasF = true
			}
		}
		if hasF {
			z := make(tuple, np)
			for i, t := range s.params {
				z[i] = vg.Inst(zeroOf(env, t))
			}
			fl := make(tuple, np)
			for i := range z {
				vs := vg.EqVariants(z[i])
				fl[i] = vs[len(vs)-1] // the sign-flipped variant comes last when there is one
			}
			emit("memseq", s, "signedzero", []tuple{z, fl, z, t1, fl})
			emit("memraw", s, "signedzero-raw", []tuple{z, fl, z})
			emit("memraw", s, "signedzero-raw", []tuple{fl, z, t1, fl})
		}
		// nil and empty containers in turn: they are different arguments
		for i, t := range s.params {
			if k := env.Under(t).K; k == ty.Slice || k == ty.Map {
				mk := func(v *ty.Val) tuple {
					c := inst(base)
					c[i] = vg.Inst(v)
					return c
				}
				empty := &ty.Val{K: ty.VSlice}
				if k == ty.Map {
					empty = &ty.Val{K: ty.VMap}
				}
				emit("memseq", s, "nilempty", []tuple{mk(nilv()), mk(empty), mk(nilv()), mk(empty)})
				emit("memseq", s, "nilempty", []tuple{mk(empty), mk(nilv()), mk(empty)})
			}
		}
		// hash-colliding arguments (they matter for the bucket shape; the other shapes get them too)
		for i, t := range s.params {
			if col := colliding(env, t); col != nil {
				c0, c1 := append(tuple(nil), t0...), append(tuple(nil), t0...)
				c0[i], c1[i] = vg.Inst(col[0]), vg.Inst(col[1])
				emit("memseq", s, "collide", []tuple{c0, c1, variant(c0), variant(c1), c0, t0, c1})
				break
			}
		}
		// a map and a proper super-map of it in one bucket: h({}) = 17 = 31*(31*17 + h(k)) + v for h(k) = 0 and
		// v = -16320 (an Equal that only looks the entries of the stored map up in the argument takes them for equal)
		for i, t := range s.params {
			u := env.Under(t)
			if u.K != ty.Map {
				continue
			}
			ku, vu := env.Under(u.Key), env.Under(u.Elem)
			if ku.K != ty.Basic || vu.K != ty.Basic || vu.B != "int" {
				continue
			}
			var k0 *ty.Val
			switch ku.B {
			case "int":
				k0 = iv(0)
			case "string":
				k0 = sv("")
			default:
				continue
			}
			c0, c1 := append(tuple(nil), t0...), append(tuple(nil), t0...)
			c0[i] = vg.Inst(&ty.Val{K: ty.VMap})
			c1[i] = vg.Inst(&ty.Val{K: ty.VMap, Elems: []*ty.Val{k0, iv(-16320)}})
			emit("memseq", s, "collide-submap", []tuple{c0, c1, c0, c1})
			emit("memseq", s, "collide-submap", []tuple{c1, c0, c1})
			break
		}
		// all parameters strings: tuples whose NUL-joined (and plainly concatenated) texts coincide are different arguments
		allStr := np >= 2
		for _, t := range s.params {
			if u := env.Under(t); t.K != ty.Basic || u.B != "string" {
				allStr = false
			}
		}
		if allStr {
			c0, c1, c2 := append(tuple(nil), t0...), append(tuple(nil), t0...), append(tuple(nil), t0...)
			for i := range c0 {
				c0[i], c1[i], c2[i] = sv(""), sv(""), sv("")
			}
			c0[0], c0[1] = sv("a\x00"), sv("b")
			c1[0], c1[1] = sv("a"), sv("\x00b")
			c2[0], c2[1] = sv("a\x00b"), sv("")
			emit("memseq", s, "join-collide", []tuple{c0, c1, c2, c0, c1, c2})
		}
		// a map keyed by an imported struct with an unexported field (X3{a string; B int8}): four keys that agree on B
		for i, t := range s.params {
			u := env.Under(t)
			if u.K != ty.Map || u.Key.K != ty.Named || u.Key.N != 21 {
				continue
			}
			mk := func(order []int) tuple {
				names := []string{"w", "x", "y", "z"}
				var es []*ty.Val
				for _, k := range order {
					es = append(es, st(sv(names[k]), iv(1)), iv(int64(k+1)))
				}
				c := append(tuple(nil), t0...)
				c[i] = vg.Inst(&ty.Val{K: ty.VMap, Elems: es})
				return c
			}
			emit("memseq", s, "hidden-keys", []tuple{mk([]int{0, 1, 2, 3}), mk([]int{3, 2, 1, 0}), mk([]int{1, 3, 0, 2}), mk([]int{0, 1, 2, 3}),
				mk([]int{2, 0, 3, 1}), mk([]int{3, 1, 2, 0}), mk([]int{0, 2, 1, 3}), mk([]int{1, 0, 3, 2})})
			break
		}
		// two adjacent int parameters: (0,31) and (1,0) collide in the hash of the input struct
		for i := 0; i+1 < np; i++ {
			isInt := func(t *ty.Ty) bool { u := env.Under(t); return u.K == ty.Basic && u.B == "int" }
			if isInt(s.params[i]) && isInt(s.params[i+1]) {
				c0, c1 := append(tuple(nil), t0...), append(tuple(nil), t0...)
				c0[i], c0[i+1] = iv(0), iv(31)
				c1[i], c1[i+1] = iv(1), iv(0)
				emit("memseq", s, "collide", []tuple{c0, c1, c0, c1, t0})
				break
			}
		}
		for r := 0; r < nRandom; r++ {
			l := 1 + rng.Intn(maxLen)
			calls := make([]tuple, l)
			for i := range calls {
				t := vals[rng.Intn(len(vals))]
				if rng.Intn(3) == 0 {
					t = variant(t)
				}
				calls[i] = t
			}
			emit("memseq", s, "random", calls)
		}
	}
	must(opsf.Close())

	stats["signatures"] = len(sigs)
	stats["param_lists"] = len(plists)
	stats["pkgs"] = npkgs
	var keys []string
	for k := range stats {
		keys = append(keys, k)
	}
	sort.Strings(keys)
	var sb strings.Builder
	sb.WriteString("{")
	for i, k := range keys {
		if i > 0 {
			sb.WriteString(", ")
		}
		fmt.Fprintf(&sb, "%q: %d", k, stats[k])
	}
	sb.WriteString("}\n")
	write(filepath.Join(*out, "stats.json"), sb.String())
}
